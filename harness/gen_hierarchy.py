"""Translator (C10): class hierarchy, type registry, back-reference accessors and the reference-attribute table.

Purely reflective dump of the live classes in /repo for `lean/Capella/Model/QueryTable.lean`:
  * `XTYPE_HANDLERS[None]` in dict order: registered type, class number, numbers of the class's proper superclasses
    (`__mro__`), and what `build_xtype(cls)` yields ("" if it raises);
  * every `ReferenceSearchingAccessor` instance: target classes, `build_xtype` of each, the attribute paths;
  * for every registered type the attributes `_model._reference_attributes(cls)` returns (what `find_references`
    evaluates, in that order), each as a row (descriptor instance, name) with the accessor's kind and parameters;
    wrappers (`TypecastAccessor`, `IndexAccessor`, `Alias`) with the row they resolve to on that class.
Nothing is judged here: the obligations (`backrefOk`, `rowOk`, `classOk`, `handlerOk`) are evaluated by the Lean kernel
over these literals. ≤100 rows per `def`, one `decide +kernel` per chunk.
"""

from __future__ import annotations

import sys

import common
from gen_tables import lean_str

CHUNK = 100
BR_CHUNK = 20


def qual(c) -> str:
    return f"{c.__module__}.{c.__qualname__}"


def collect():
    if str(common.REPO) not in sys.path:
        sys.path.insert(0, str(common.REPO))
    import capellambse  # noqa: F401
    import capellambse.extensions.filtering  # noqa: F401
    import capellambse.extensions.pvmt  # noqa: F401
    import capellambse.extensions.reqif  # noqa: F401
    import capellambse.extensions.validation  # noqa: F401
    from capellambse.model import _descriptors as D
    from capellambse.model import _model, _xtype
    from capellambse.model import _obj as O

    # what MelodyModel.__init__ does before anything is queried: the entry points add accessors to existing classes
    capellambse.load_model_extensions()
    H = _xtype.XTYPE_HANDLERS[None]

    def allsub(c):
        for s in c.__subclasses__():
            yield s
            yield from allsub(s)

    classes = set(H.values()) | set(allsub(O.ModelElement)) | {O.ModelElement}
    # target classes of back-references may be anything
    for cls in list(classes):
        for n in dir(cls):
            acc = getattr(cls, n, None)
            if isinstance(acc, D.ReferenceSearchingAccessor):
                classes.update(c for c in acc.target_classes if isinstance(c, type))
    order = sorted(classes, key=lambda c: (c.__module__, c.__qualname__))
    cid = {c: i for i, c in enumerate(order)}

    def built(c) -> str:
        try:
            return _xtype.build_xtype(c)
        except TypeError:
            return ""

    tnames = list(H)  # registered types first (dict order), then whatever else build_xtype produces
    tid_ = {x: i for i, x in enumerate(tnames)}

    def tnum(s: str):
        if s == "":
            return None
        if s not in tid_:
            tid_[s] = len(tnames)
            tnames.append(s)
        return tid_[s]

    handlers = [{"xt": tnum(xt), "cls": cid[c], "supers": [cid[b] for b in c.__mro__[1:] if b in cid], "built": tnum(built(c)),
                 "name": qual(c)} for xt, c in H.items()]

    backrefs, seen = [], set()
    for cls in order:
        for n in dir(cls):
            acc = getattr(cls, n, None)
            if not isinstance(acc, D.ReferenceSearchingAccessor) or id(acc) in seen:
                continue
            seen.add(id(acc))
            owner = next((k for k in cls.__mro__ if vars(k).get(n) is acc), cls)
            backrefs.append({"id": len(backrefs), "owner": qual(owner), "name": n,
                             "targets": [cid[c] for c in acc.target_classes],
                             "builts": [tnum(built(c)) for c in acc.target_classes],
                             "attrs": [g.__reduce__()[1][0] for g in acc.attrs],
                             "aslist": acc.aslist is not None})

    rows: list[dict] = []
    rowid: dict = {}
    crels = []

    def row_of(cls, attr):
        acc = getattr(cls, attr)
        key = (id(acc), attr)
        if key in rowid:
            return rowid[key]
        tn = type(acc).__name__
        if tn in ("AttrProxyAccessor", "PhysicalLinkEndsAccessor"):
            kind = ("attr", acc.attr)
        elif tn == "LinkAccessor":
            kind = ("child", acc.tag or "", sorted(acc.xtypes)[0] if len(acc.xtypes) == 1 else "", acc.follow)
        elif tn == "TypecastAccessor":
            kind = ("typecast", acc.attr)
        elif tn == "IndexAccessor":
            kind = ("index", acc.wrapped, int(acc.index))
        elif tn == "Alias":
            kind = ("alias", acc.target)
        else:
            kind = ("acc", tn)
        owner = next((k for k in cls.__mro__ if vars(k).get(attr) is acc), cls)
        rowid[key] = len(rows)
        rows.append({"id": len(rows), "owner": qual(owner), "name": attr, "kind": kind,
                     "aslist": getattr(acc, "aslist", None) is not None})
        return rowid[key]

    # the generic wrapper (elements of an unregistered or no type) comes last, under the type name ""
    for xt, c in [*H.items(), ("", O.ModelElement)]:
        names = list(_model._reference_attributes(c))
        ent = []
        for a in names:
            rid = row_of(c, a)
            k = rows[rid]["kind"]
            tid = rid
            if k[0] in ("typecast", "index", "alias"):
                tacc = getattr(c, k[1], None)
                if isinstance(tacc, D.Accessor) and k[1] in names:
                    tid = row_of(c, k[1])
            ent.append((rid, tid))
        crels.append({"xt": xt, "cls": cid[c], "rels": ent, "name": qual(c)})
    return order, handlers, backrefs, rows, crels, tnames


def b(x: bool) -> str:
    return "true" if x else "false"


def nats(xs) -> str:
    return "[" + ", ".join(str(x) for x in xs) + "]"


def onat(x) -> str:
    return "none" if x is None else f"(some {x})"


def onats(xs) -> str:
    return "[" + ", ".join("none" if x is None else f"some {x}" for x in xs) + "]"


def strs(xs) -> str:
    return "[" + ", ".join(lean_str(x) for x in xs) + "]"


def lean_kind(k) -> str:
    if k[0] == "attr":
        return f"(.attr {lean_str(k[1])})"
    if k[0] == "child":
        return f"(.child {lean_str(k[1])} {lean_str(k[2])} {lean_str(k[3])})"
    if k[0] == "typecast":
        return f"(.typecast {lean_str(k[1])})"
    if k[0] == "index":
        return f"(.index {lean_str(k[1])} {k[2]})"
    if k[0] == "alias":
        return f"(.alias {lean_str(k[1])})"
    return f"(.acc {lean_str(k[1])})"


def chunked(xs, n):
    return [xs[i:i + n] for i in range(0, len(xs), n)]


def mem_theorem(name: str, table: str, chunks: list[str], pred: str, var: str = "r") -> list[str]:
    """`∀ x ∈ table, pred x = true` from the per-chunk kernel-checked obligations."""
    return [f"theorem {name}_all : {table}.all ({pred}) = true := by",
            f"  simp only [{table}, List.all_append, " + ", ".join(f"{c}_ok" for c in chunks) + ", Bool.and_self]",
            f"theorem {name} : ∀ {var} ∈ {table}, {pred} {var} = true :=",
            f"  fun {var} hmem => List.all_eq_true.mp {name}_all {var} hmem"]


def generate():
    order, handlers, backrefs, rows, crels, tnames = collect()
    HEAD = "-- GENERATED by harness/gen_hierarchy.py from the live classes in /repo. Do not edit."
    # ---------------- Hier.lean: handlers + back-references
    L = [HEAD, "import Capella.Model.QueryTable", "namespace Capella.Gen.Hier", "open Capella.QTable", ""]
    tch = []
    for ci, ch in enumerate(chunked(tnames, CHUNK)):
        nm = f"typeNames{ci}"
        tch.append(nm)
        L.append(f"def {nm} : List String := {strs(ch)}")
        L.append(f"theorem {nm}_length : {nm}.length = {len(ch)} := by decide +kernel")
    L.append("/-- the type names by number (evaluating `String.toList` in the kernel is prohibitively slow, so that every name")
    L.append("contains a `:` is evaluated by the driver on every run — op `tables` — not by the kernel) -/")
    L.append("def typeNames : List String := " + " ++ ".join(tch))
    L.append(f"theorem typeNames_length : typeNames.length = {len(tnames)} := by")
    L.append("  simp only [typeNames, List.length_append, " + ", ".join(f"{c}_length" for c in tch) + "]")
    L.append("")
    hch = []
    for ci, ch in enumerate(chunked(handlers, CHUNK)):
        nm = f"handlers{ci}"
        hch.append(nm)
        L.append(f"def {nm} : List Handler := [")
        for k, h in enumerate(ch):
            L.append(f"  ⟨{h['xt']}, {h['cls']}, {nats(h['supers'])}, {onat(h['built'])}⟩" + ("," if k < len(ch) - 1 else "")
                     + f"  -- {tnames[h['xt']]} -> {h['name']}")
        L += ["]", f"theorem {nm}_ok : {nm}.all (handlerOk {len(tnames)}) = true := by decide +kernel", ""]
    L.append("def handlers : List Handler := " + " ++ ".join(hch))
    L.append("")
    L += mem_theorem("handlers_ok", "handlers", hch, f"handlerOk {len(tnames)}", "h")
    L.append("")
    bch = []
    for ci, ch in enumerate(chunked(backrefs, BR_CHUNK)):
        nm = f"backrefs{ci}"
        bch.append(nm)
        L.append(f"def {nm} : List BackRef := [")
        for k, r in enumerate(ch):
            L.append(f"  ⟨{r['id']}, {lean_str(r['owner'])}, {lean_str(r['name'])}, {nats(r['targets'])}, {onats(r['builts'])}, "
                     f"{strs(r['attrs'])}, {b(r['aslist'])}⟩" + ("," if k < len(ch) - 1 else ""))
        L += ["]", "/-- every back-reference of this chunk searches exactly the registered types of the instances of its target classes -/",
              f"theorem {nm}_ok : {nm}.all (backrefOk handlers) = true := by decide +kernel", ""]
    L.append("def backrefs : List BackRef := " + " ++ ".join(bch))
    L.append("")
    L += mem_theorem("backrefs_ok", "backrefs", bch, "backrefOk handlers", "b")
    L += ["", "end Capella.Gen.Hier", ""]
    files = [("Hier.lean", "\n".join(L), {
        "classes": len(order), "handlers": len(handlers), "backrefs": len(backrefs),
        "type_names": len(tnames),
        "handlers_whose_class_builds_another_type": sorted(tnames[h["xt"]] for h in handlers if h["built"] != h["xt"]),
        "obligations": len(tch) + len(hch) + len(bch) + 3})]
    # ---------------- HierRels.lean: relation rows + per-class entries
    R = [HEAD, "import Capella.Model.QueryTable", "namespace Capella.Gen.HierRels", "open Capella.QTable", ""]
    rch = []
    for ci, ch in enumerate(chunked(rows, CHUNK)):
        nm = f"rows{ci}"
        rch.append(nm)
        R.append(f"def {nm} : List RelRow := [")
        for k, r in enumerate(ch):
            R.append(f"  ⟨{r['id']}, {lean_str(r['owner'])}, {lean_str(r['name'])}, {lean_kind(r['kind'])}, {b(r['aslist'])}⟩" + ("," if k < len(ch) - 1 else ""))
        R += ["]", f"theorem {nm}_ok : {nm}.all rowOk = true := by decide +kernel", ""]
    R.append("def rows : List RelRow := " + " ++ ".join(rch))
    R.append("")
    R += mem_theorem("rows_ok", "rows", rch, "rowOk", "r")
    R.append("")
    cch = []
    for ci, ch in enumerate(chunked(crels, 40)):
        nm = f"classes{ci}"
        cch.append(nm)
        R.append(f"def {nm} : List ClassRels := [")
        for k, c in enumerate(ch):
            pairs = "[" + ", ".join(f"({a}, {t})" for a, t in c["rels"]) + "]"
            R.append(f"  ⟨{lean_str(c['xt'])}, {c['cls']}, {pairs}⟩" + ("," if k < len(ch) - 1 else ""))
        R += ["]", f"theorem {nm}_ok : {nm}.all (classOk rows) = true := by decide +kernel", ""]
    R.append("def classes : List ClassRels := " + " ++ ".join(cch))
    R.append("")
    R += mem_theorem("classes_ok", "classes", cch, "classOk rows", "c")
    R += ["", "end Capella.Gen.HierRels", ""]
    kinds: dict[str, int] = {}
    for r in rows:
        k = r["kind"][0] if r["kind"][0] != "acc" else r["kind"][1]
        kinds[k] = kinds.get(k, 0) + 1
    files.append(("HierRels.lean", "\n".join(R), {
        "rows": len(rows), "class_entries": sum(len(c["rels"]) for c in crels), "registered_types": len(crels) - 1,
        "kinds": kinds, "single_valued_link_rows": sum(1 for r in rows if r["kind"][0] in ("attr", "child") and not r["aslist"]),
        "obligations": len(rch) + len(cch) + 2}))
    return files


if __name__ == "__main__":
    import json

    for fname, content, info in generate():
        print(fname, len(content), json.dumps(info)[:600])
