"""Accessor tie: the API-level operation goes to the Lean accessor model (Driver/Accessor.lean), which must PREDICT
the error class, the resulting tree of everything it touched, the index instructions and the freshly fetched view;
the prediction is compared with what the real code did, step by step (interactive driver process).

Inputs of the model that are not predictions (DESIGN §2.2): the uuid4 values the implementation drew and the Python
identities of the element objects it created – both read off the implementation after the step."""

from __future__ import annotations

import json
import os
import pathlib
import subprocess
import typing as t

import common
import objlayer as ol

XSI_TYPE = ol.XSI_TYPE
FAKE_NID0 = 10**15


def idtypes_of(fname) -> list[str]:
    return list(ol.frag_idattrs(fname))


class Driver:
    """one interactive `lake env lean --run Capella/Driver/Accessor.lean` process"""

    def __init__(self):
        env = dict(os.environ)
        env.pop("PYTHONPATH", None)
        self.p = subprocess.Popen(["lake", "env", "lean", "--run", "Capella/Driver/Accessor.lean"], cwd=common.LEAN,
                                  stdin=subprocess.PIPE, stdout=subprocess.PIPE, stderr=subprocess.PIPE, text=True, env=env, bufsize=1)

    TIMES: dict = {}

    def ask(self, req: dict) -> dict:
        import time as _t

        t0 = _t.time()
        try:
            return self._ask(req)
        finally:
            k = req.get("op", "?")
            Driver.TIMES[k] = round(Driver.TIMES.get(k, 0.0) + _t.time() - t0, 2)

    def _ask(self, req: dict) -> dict:
        if self.p.poll() is not None:
            raise common.InfraError(f"accessor driver died: {self.p.stderr.read()[-1500:]}")
        self.p.stdin.write(json.dumps(req, ensure_ascii=False, separators=(",", ":")) + "\n")
        self.p.stdin.flush()
        line = self.p.stdout.readline()
        if not line:
            raise common.InfraError(f"accessor driver gave no answer: {self.p.stderr.read()[-1500:]}")
        return json.loads(line)

    def close(self):
        try:
            self.p.stdin.close()
            self.p.wait(timeout=20)
        except Exception:  # noqa: BLE001
            self.p.kill()


def live(st) -> dict:
    """the objects a generated step closes over (lambda default arguments of objops steps)"""
    f = st.run
    code = getattr(f, "__code__", None)
    if code is None:
        return {}
    return dict(zip(code.co_varnames[:code.co_argcount], f.__defaults__ or ()))


def row_key(owner, attr: str):
    """(defining class qualname, attribute) of the descriptor `getattr(type(owner), attr)` – the key of the generated table"""
    from capellambse.model import _descriptors as D

    for k in type(owner).__mro__:
        d = vars(k).get(attr)
        if isinstance(d, D.Accessor):
            return f"{k.__module__}.{k.__qualname__}", attr
    return None


def class_for_hint(acc, hint):
    """the class whose descriptors classify the keywords of a creation (reflection on the accessor / registry)"""
    from capellambse.model import _xtype

    classes = getattr(acc, "classes", None)
    if hint:
        pool = list(classes) if classes else list(_xtype.XTYPE_HANDLERS[None].values())
        ms = [c for c in pool if c.__name__ == hint or (not classes and hint in (k for k, v in _xtype.XTYPE_HANDLERS[None].items() if v is c))]
        return ms[0] if len(ms) == 1 else None
    if classes:
        return classes[0] if len(classes) == 1 else None
    c = getattr(acc, "class_", None)
    return c


_POD_KINDS = ("StringPOD", "HTMLStringPOD", "BoolPOD", "IntPOD", "EnumPOD", "FloatPOD", "DatetimePOD")


def _qual(c) -> str:
    return f"{c.__module__}.{c.__qualname__}"


def _stringy(enumcls) -> bool:
    """behavioural test of `_StringyEnumMixin.__eq__` (as gen_pods.is_stringy): every member equals its own name only"""
    names = list(enumcls.__members__)
    for n, mem in enumcls.__members__.items():
        if not (mem == n and n == mem and not (mem != n) and not (n != mem)):
            return False
        if any(o != n and (mem == o or not (mem != o)) for o in names):
            return False
    return True


def pod_json(d) -> dict | None:
    """reflection of a POD descriptor for the accessor model (`Capella.Pods.Desc`); None = not a POD class of `_pods.py` itself"""
    from capellambse.model import _pods as P

    kind = type(d).__name__
    if kind not in _POD_KINDS or type(d) is not getattr(P, kind, None):
        return None
    out = {"kind": kind, "attr": d.attribute, "w": bool(d.writable)}
    if kind == "EnumPOD":
        ec = d.enumcls
        members = []
        for n, mem in ec.__members__.items():
            if mem.name != n or not isinstance(mem.value, str):
                return None   # alias or non-string value: not representable
            members.append([n, mem.value])
        out["enum"] = {"name": _qual(ec), "stringy": _stringy(ec), "members": members, "default": d.default.name}
    return out


def lit_json(v) -> dict:
    """a value assigned to a POD attribute (`Capella.Accessor.PodLit`)"""
    import enum

    if v is None:
        return {"n": True}
    if isinstance(v, bool):
        return {"b": v}
    if isinstance(v, int) and abs(v) < 2**62:
        return {"i": v}
    if isinstance(v, enum.Enum) and isinstance(v.value, str):
        return {"m": [_qual(type(v)), v.name, v.value]}
    if isinstance(v, str):
        return {"s": str(v)}
    return {"o": True}


def repairs(d, v) -> list:
    """`helpers.repair_html` (libxml2) is a parameter of the model: what it makes of the assigned value is an INPUT"""
    if type(d).__name__ != "HTMLStringPOD" or not isinstance(v, str):
        return []
    from capellambse import helpers

    try:
        return [[str(v), str(helpers.repair_html(v))]]
    except Exception:  # noqa: BLE001
        return [[str(v), None]]


def kw_items(cls, kw: dict) -> list[dict]:
    from capellambse.model import NewObject
    from capellambse.model import _descriptors as D
    from capellambse.model import _pods as P

    out = []
    for k, v in kw.items():
        if k == "uuid":
            out.append({"k": k, "slot": "str", "v": v})
            continue
        d = getattr(cls, k, None) if cls is not None else None
        if cls is None:
            out.append({"k": k, "slot": "unknown-class"})
        elif d is None and not hasattr(cls, k):
            out.append({"k": k, "slot": "missing"})
        elif isinstance(d, P.StringPOD) and type(d) is P.StringPOD and isinstance(v, str):
            out.append({"k": k, "slot": "pod", "attr": d.attribute, "w": bool(d.writable), "v": v})
        elif isinstance(d, D.RoleTagAccessor) and isinstance(v, NewObject) and d.aslist is None:
            rk = None
            for b in cls.__mro__:
                if vars(b).get(k) is d:
                    rk = f"{b.__module__}.{b.__qualname__}"
            inner = class_for_hint(d, v._type_hint)
            out.append({"k": k, "slot": "role", "cls": rk, "attr": k, "new": {"hint": v._type_hint, "kw": kw_items(inner, dict(v._kw))}})
        elif isinstance(d, P.BasePOD) and pod_json(d) is not None:
            out.append({"k": k, "slot": "podk", "d": pod_json(d), "rep": repairs(d, v), "v": lit_json(v)})
        elif isinstance(d, (D.Accessor, P.BasePOD)):
            out.append({"k": k, "slot": "other"})
        else:
            out.append({"k": k, "slot": "plain"})
    return out


def val_json(x) -> dict:
    el = getattr(x, "_element", None)
    if el is None:
        return {"s": str(x)}
    return {"e": id(el)}


class AccessorTie:
    """observer for objsession.run_history"""

    STREAM = "accessor"

    def __init__(self, out: common.Outcome, dump_every: int = 10):
        self.out = out
        self.dump_every = dump_every
        self.drv: Driver | None = None
        self.stats = out.extra.setdefault("accessor", {"predicted": 0, "declined": {}, "skipped": {}, "resyncs": 0, "dumps": 0})

    # ------------------------------------------------------------ state transfer

    def frag_list(self, loader):
        return [(str(f), tr) for f, tr in loader.trees.items() if tr.fragment_type.name != "VISUAL"]

    def load(self, model):
        loader = model._loader
        self.frags = self.frag_list(loader)
        self.fi = {name: i for i, (name, _) in enumerate(self.frags)}
        self.el: dict[int, t.Any] = {}
        if any(tr.root.getparent() is not None for _n, tr in self.frags):
            # the root of a fragment file sits inside another file's tree: the post-state of the known findings
            # `fragment-root-moved-into-another-file|…` (C08) – one element sequence is then iterated by two files, which
            # the per-fragment index model cannot represent; the monitors judge the step, the tie stops for this history
            self.decline("load:fragment-root-inside-another-tree")
            self.out.hit("acc.load-refused")
            self.close()
            return
        frags = []
        for name, tr in self.frags:
            rows = []
            for e in tr.root.iter():
                if not isinstance(e.tag, str):
                    continue
                self.el[id(e)] = e
                p = e.getparent()
                rows.append([id(e), id(p) if p is not None else None, e.tag, [[k, v] for k, v in e.attrib.items()], ol.xtype_of(e)])
            frags.append({"name": name, "semantic": tr.fragment_type.name == "SEMANTIC", "ign": bool(ol.private_state(tr).ignore_uuid_dups),
                          "idtypes": idtypes_of(name), "rows": rows})
        self.attrs = {n: tuple(sorted(e.attrib.items())) for n, e in self.el.items()}
        ans = self.drv.ask({"op": "acc.load", "frags": frags})
        if "err" in ans:
            # the trees cannot be indexed (an id occurs twice within a fragment): such a state is outside the model's
            # domain – the monitors of the check judge it; the tie stops for this history, visibly
            self.decline(f"load:{ans['err']}")
            self.out.hit("acc.load-refused")
            self.close()

    def start(self, model, scan, key, hist_id):
        self.key, self.hist_id = key, hist_id
        self.model = model
        if os.environ.get("VERIF_NO_MODEL") == "1":
            self.drv = None
            return
        self.drv = Driver()
        self.call = None
        self.fake = FAKE_NID0
        self.load(model)
        if self.drv is not None and not getattr(self, "keep_open", False):
            self.dump(("load",))   # translator round trip of the state transfer

    # ------------------------------------------------------------ per step

    def pre(self, i, st, model):
        self.call = None
        if self.drv is None:
            return
        try:
            call = self.translate(st)
        except Exception as e:  # noqa: BLE001 - a step the translation does not understand is skipped, visibly
            self.skip(f"translate:{type(e).__name__}")
            call = None
        self.arm(model, call)

    def arm(self, model, call):
        """remember the API call about to be made and record the uuids `generate_uuid` hands out meanwhile"""
        self.call = call
        loader = model._loader
        self.uuid_calls: list[tuple[str | None, str]] = []
        orig = type(loader).generate_uuid

        def rec_generate_uuid(parent, *, want=None, _o=orig, _l=loader):
            r = _o(_l, parent, want=want)
            self.uuid_calls.append((want, r))
            return r

        loader.generate_uuid = rec_generate_uuid

    def skip(self, why):
        self.stats["skipped"][why] = self.stats["skipped"].get(why, 0) + 1

    def translate(self, st) -> dict | None:
        L = live(st)
        op = st.op
        rel = st.rel
        if op in ("noop", "query"):
            return None
        if op == "setattr":
            o, attr, v = L["o"], L["attr"], L["v"]
            from capellambse.model import _pods as P

            d = getattr(type(o), attr, None)
            if type(d) is P.StringPOD and isinstance(v, str):
                return {"m": "podset", "owner": id(o._element), "xml": d.attribute, "w": bool(d.writable), "v": v}
            pj = pod_json(d) if isinstance(d, P.BasePOD) else None
            if pj is None:
                return {"_decline": "pod-kind"}
            # every POD kind of `_pods.py`: the decisions of `BasePOD.__set__` are the model's (Capella.Pods, as in C07)
            return {"m": "podsetk", "owner": id(o._element), "d": pj, "rep": repairs(d, v), "v": lit_json(v)}
        if op == "role_set":
            o, attr, hint = L["o"], L["attr"], L["hint"]
            rk = row_key(o, attr)
            if rk is None:
                return {"_decline": "no-row"}
            return {"m": "roleset", "cls": rk[0], "attr": rk[1], "owner": id(o._element), "new": {"hint": hint, "kw": []}}
        if rel is None:
            return {"_decline": f"op:{op}"}
        rk = row_key(rel.owner, rel.attr)
        if rk is None:
            return {"_decline": "no-row"}
        base = {"cls": rk[0], "attr": rk[1], "owner": id(rel.owner._element)}
        lst = L.get("lst", L.get("dl", L.get("l2", L.get("stale"))))
        if lst is not None:
            base["elems"] = [id(e) for e in lst._elements]
        if op in ("create", "create_clash", "create_nested"):
            kw = L.get("kw")
            if kw is None:
                kw = {"name": "clash", "uuid": L["clash"]}
            hint = (L.get("hint") or (None,))[0] if not isinstance(L.get("hint"), str) else L.get("hint")
            cls = class_for_hint(rel.acc, hint)
            return dict(base, m="create", hint=hint, kw=kw_items(cls, dict(kw)))
        if op in ("insert", "append"):
            x = L["x"] if "x" in L else L["obj"]
            i = L["i"] if "i" in L and op == "insert" else len(lst)
            return dict(base, m="insert", i=i, v=val_json(x))
        if op == "setitem":
            return dict(base, m="setitem", i=L["i"], v=val_json(L["x"]))
        if op == "delitem":
            return dict(base, m="delitem", i=L["i"])
        if op in ("remove", "delete_referenced"):
            x = L.get("x", L.get("tgt"))
            ids = [id(e) for e in lst._elements]
            if id(x._element) not in ids:
                return {"_decline": "remove-not-member"}
            # `remove(x)` is `del self[self.index(x)]`: the position a plain Python list of the same objects finds –
            # the FIRST member that is x or compares equal to x (classes that override equality: not always x itself)
            try:
                k = list(lst).index(x)
            except ValueError:
                return {"_decline": "remove-not-member"}
            return dict(base, m="delitem", i=k)
        if op == "setslice":
            sl = L["sl"]
            if sl.step not in (None, 1) or sl.start is None or sl.stop is None:
                return {"_decline": "slice-shape"}
            return dict(base, m="setslice", lo=sl.start, hi=sl.stop, vs=[val_json(v) for v in L["xs"]])
        if op in ("assign", "assign_dup"):
            vs = L.get("keep", L.get("new"))
            base.pop("elems", None)
            return dict(base, m="set", vs=[val_json(v) for v in vs])
        if op == "clear":
            base.pop("elems", None)
            return dict(base, m="set", vs=[])
        return {"_decline": f"op:{op}"}

    def step(self, rec, model):
        if self.drv is None:
            return
        loader = model._loader
        try:
            del loader.generate_uuid
        except AttributeError:
            pass
        call = self.call
        self.register_new(rec)
        if call is None or "_decline" in call:
            why = "untranslated" if call is None else call["_decline"]
            if rec.step.op not in ("noop", "query"):
                self.decline(f"harness:{why}")
                self.catch_up(rec, model)
            return
        draws = [r for w, r in self.uuid_calls if not w]
        fresh = []
        byid = {}
        for f in rec.after:
            if f in self.fi:
                for r in rec.after[f]:
                    for k in r["ids"]:
                        byid.setdefault(k, r["nid"])
        before_nids = {r["nid"] for f in rec.before if f in self.fi for r in rec.before[f]}
        for _w, r in self.uuid_calls:
            n = byid.get(r)
            if n is None or n in before_nids:
                self.fake += 1
                n = self.fake
            fresh.append(n)
        ans = self.drv.ask({"op": "acc.step", "call": call, "draws": draws, "fresh": fresh})
        if "err" in ans:
            self.out.disagree(self.STREAM, self.meta(rec), "request accepted by the implementation", {"driver": ans["err"]})
            self.resync(model)
            return
        a = ans["ok"]
        for h in a["hits"]:
            self.out.hit(f"acc.{h}")
        if a["err"] in ("!unmodelled",):
            self.decline(f"model:{a['why']}")
            kind = type(rec.step.rel.acc).__name__ if rec.step.rel is not None else "-"
            dk = self.stats.setdefault("declined_kinds", {})
            dk[f"{a['why'][:60]}|{kind}"] = dk.get(f"{a['why'][:60]}|{kind}", 0) + 1
            self.resync(model)
            return
        if self.drv is None:
            return
        self.stats["predicted"] += 1
        self.out.hit(f"acc.call.{call['m']}.{'ok' if rec.outcome == 'ok' else rec.outcome}")
        bad = self.compare(rec, model, call, a)
        self.remember_attrs(rec)
        if bad:
            self.out.disagree(self.STREAM, self.meta(rec), bad[0], bad[1])
            self.resync(model)
            return
        self.out.traces_validated += 1
        if self.drv is not None and self.dump_every and rec.i % self.dump_every == self.dump_every - 1:
            self.dump((rec.i,))

    def meta(self, rec):
        d = {"model": self.key, "hist": self.hist_id, "step": rec.i, "op": rec.step.op, "call": {k: v for k, v in (self.call or {}).items() if k not in ("elems",)}}
        if rec.step.rel is not None:
            d["relation"] = rec.step.rel.key()
        return d

    def decline(self, why):
        why = why[:80]
        self.stats["declined"][why] = self.stats["declined"].get(why, 0) + 1

    def resync(self, model):
        self.stats["resyncs"] += 1
        self.load(model)

    INDEX_ATTRS = ("id", "uid", ol.XMI_ID, "href", XSI_TYPE, ol.XMI_TYPE)

    def catch_up(self, rec, model):
        """after a step the model did not see: transfer the state again – cheaply when only attributes changed"""
        same = all([r["nid"] for r in rec.before.get(f, [])] == [r["nid"] for r in rec.after.get(f, [])] for f in self.fi)
        if not same or set(self.fi) != {str(f) for f, tr in model._loader.trees.items() if tr.fragment_type.name != "VISUAL"}:
            self.resync(model)
            return
        for f in self.fi:
            for r in rec.after.get(f, []):
                now = tuple(sorted(r["el"].attrib.items()))
                was = self.attrs.get(r["nid"])
                if was != now:
                    changed = {k for k, _ in set(was or ()) ^ set(now)}
                    if changed & set(self.INDEX_ATTRS):
                        self.resync(model)
                        return
                    self.drv.ask({"op": "acc.patch", "nid": r["nid"], "attrs": [[k, v] for k, v in r["el"].attrib.items()]})
                    self.attrs[r["nid"]] = now
                    self.stats["patches"] = self.stats.get("patches", 0) + 1

    def light_scan(self, model):
        """like objlayer.raw_scan, for the fragments this tie transfers only"""
        out = {}
        ol._KEEP.append(out)
        for name, tr in self.frag_list(model._loader):
            ida = ol.frag_idattrs(name)
            out[name] = [{"nid": id(e), "ids": [e.get(a) for a in ida if e.get(a) is not None], "el": e}
                         for e in tr.root.iter() if isinstance(e.tag, str)]
        return out

    def register_new(self, rec):
        for f in rec.after:
            if f in self.fi:
                for r in rec.after[f]:
                    if r["nid"] not in self.el:
                        self.el[r["nid"]] = r["el"]

    def remember_attrs(self, rec):
        for f in rec.after:
            if f in self.fi:
                for r in rec.after[f]:
                    self.attrs[r["nid"]] = tuple(sorted(r["el"].attrib.items()))

    # ------------------------------------------------------------ comparison

    def where(self, e):
        """index of the fragment whose root is the root of e's tree, else None"""
        root = e
        while root.getparent() is not None:
            root = root.getparent()
        for i, (_n, tr) in enumerate(self.frags):
            if tr.root is root:
                return i
        return None

    def compare(self, rec, model, call, a):
        impl_err = None if rec.outcome == "ok" else rec.outcome
        if a["err"] != impl_err:
            return ({"error": impl_err}, {"error": a["err"], "why": a.get("why"), "hits": a["hits"][-6:]})
        # (a) every element the model touched: where it is, its parent, tag, attributes; and the children of each
        for nid, fi, row in a["touched"]:
            e = self.el.get(nid)
            if e is None:
                if nid > FAKE_NID0 or row is None:
                    continue  # an element that did not survive the call (created and rolled back)
                return ({"element": nid, "impl": "unknown element"}, {"row": row})
            w = self.where(e)
            p = e.getparent()
            got = [nid, id(p) if p is not None else None, e.tag, [[k, v] for k, v in sorted(e.attrib.items())], ol.xtype_of(e)]
            if row is None:
                return ({"element": got}, {"element": None})
            if w != fi or got != row:
                return ({"frag": w, "row": got}, {"frag": fi, "row": row})
        for k, ks in a["kids"].items():
            e = self.el.get(int(k))
            if e is None:
                continue
            got = [id(c) for c in e if isinstance(c.tag, str)]
            if got != ks:
                return ({"children_of": int(k), "kids": got}, {"kids": ks})
        # (a') nothing else changed its attributes: every element whose attributes differ from before must be one the model touched
        tset = {x[0] for x in a["touched"]}
        # (only elements that were attached BEFORE the step have a baseline: a detached subtree that a stale handle
        # moves back into the model may have had its references purged while it was detached - the attributes
        # remembered for its elements date from before the deletion)
        attached_before = {r["nid"] for f in rec.before if f in self.fi for r in rec.before[f]}
        for f in rec.after:
            if f in self.fi:
                for r in rec.after[f]:
                    now = tuple(sorted(r["el"].attrib.items()))
                    was = self.attrs.get(r["nid"])
                    if was is not None and was != now and r["nid"] not in tset and r["nid"] in attached_before:
                        return ({"attributes_changed": r["nid"], "was": [x for x in was if x not in now][:4], "now": [x for x in now if x not in was][:4]}, {"touched": sorted(tset)[:8]})
        # (b) instruction list vs the observed tree diff (independent cross-check): net removals / additions per fragment
        rem: dict[int, set] = {}
        add: dict[int, set] = {}
        for o in a["ops"]:
            if o["k"] in ("detach", "attach"):
                here, there = (rem, add) if o["k"] == "detach" else (add, rem)
                h, th = here.setdefault(o["fi"], set()), there.setdefault(o["fi"], set())
                for n in o["nids"]:
                    if n in th:
                        th.discard(n)   # put back where it was taken from / taken away again: no net change
                    else:
                        h.add(n)
        for name, i in self.fi.items():
            B = {r["nid"] for r in rec.before.get(name, [])}
            A = {r["nid"] for r in rec.after.get(name, [])}
            if (B - A) != rem.get(i, set()) or (A - B) != add.get(i, set()):
                return ({"frag": name, "removed": sorted(B - A)[:8], "added": sorted(A - B)[:8]},
                        {"ops_removed": sorted(rem.get(i, set()))[:8], "ops_added": sorted(add.get(i, set()))[:8], "ops": [o["k"] for o in a["ops"]]})
        for o in a["ops"]:
            self.out.hit(f"acc.op.{o['k']}")
        # (c) the freshly fetched view
        if "cls" in call and rec.step.rel is not None:
            try:
                fresh = [id(e) for e in rec.step.rel.get()._elements]
            except Exception:  # noqa: BLE001
                fresh = None
            if fresh is not None and a["view"] is not None and fresh != a["view"]:
                return ({"view": fresh}, {"view": a["view"]})
        return None

    def dump(self, meta):
        """full state: trees (order, parent, tag, attributes, type) and the private dictionaries"""
        if self.drv is None:
            return
        ans = self.drv.ask({"op": "acc.dump"})
        self.stats["dumps"] += 1
        if "err" in ans:
            self.out.disagree(self.STREAM + ".dump", list(meta), "dump", ans["err"])
            return
        loader = self.model._loader
        for (name, tr), m in zip(self.frags, ans["ok"]):
            rows = []
            for e in tr.root.iter():
                if not isinstance(e.tag, str):
                    continue
                p = e.getparent()
                rows.append([id(e), id(p) if p is not None else None, e.tag, [[k, v] for k, v in sorted(e.attrib.items())], ol.xtype_of(e)])
            if rows != m["rows"]:
                n = next((i for i, (x, y) in enumerate(zip(rows, m["rows"])) if x != y), min(len(rows), len(m["rows"])))
                self.out.disagree(self.STREAM + ".dump", [self.key, self.hist_id, *meta, name],
                                  {"len": len(rows), "first_diff": rows[n:n + 1]}, {"len": len(m["rows"]), "first_diff": m["rows"][n:n + 1]})
                self.resync(self.model)
                return
            ps = ol.private_state(tr)
            idc = {k: (None if v is None else id(v)) for k, v in ps.idcache.items()}
            xtc = {x: sorted(d) for x, d in ps.xtypecache.items() if d}
            hrefs = {k: id(v) for k, v in ps.hrefsources.items()}
            if idc != m["idc"] or xtc != m["xtc"] or hrefs != m["hrefs"]:
                dk = {k: (idc.get(k, "<absent>"), m["idc"].get(k, "<absent>")) for k in set(idc) | set(m["idc"]) if idc.get(k, "<absent>") != m["idc"].get(k, "<absent>")}
                self.out.disagree(self.STREAM + ".dump", [self.key, self.hist_id, *meta, name],
                                  {"idc(impl,model)": dict(list(dk.items())[:5]), "xtc_equal": xtc == m["xtc"], "hrefs_equal": hrefs == m["hrefs"]}, "see impl")
                self.resync(self.model)
                return
        self.out.hit("acc.dump")
        del loader

    def end(self, model):
        if self.drv is None:
            return
        if getattr(self, "keep_open", False) and not getattr(self, "final", False):
            return
        self.dump(("end",))
        self.close()

    def close(self):
        if self.drv is not None:
            self.drv.close()
            self.drv = None

    # ------------------------------------------------------------ calls made by a check itself (not by objops)

    def wrap(self, model, fn, call, opname: str, rel=None):
        """fn with the accessor tie around it: `call` is the API-level description of what fn does"""
        import objops
        import objsession as S

        self.manual_i = getattr(self, "manual_i", 10**5) + 1

        def run():
            if self.drv is None:
                return fn()
            before = self.light_scan(model)
            self.arm(model, call)
            outcome = "ok"
            try:
                return fn()
            except (KeyboardInterrupt, SystemExit):
                raise
            except BaseException as e:  # noqa: BLE001
                outcome = type(e).__name__
                raise
            finally:
                after = self.light_scan(model)
                st = objops.Step(opname, rel, {}, lambda: None)
                self.step(S.StepRecord(self.manual_i, st, outcome, before, after), model)

        return run

    def rel_call(self, rel, m: str, **kw) -> dict | None:
        rk = row_key(rel.owner, rel.attr)
        if rk is None:
            return {"_decline": "no-row"}
        return dict({"cls": rk[0], "attr": rk[1], "owner": id(rel.owner._element), "m": m}, **kw)


_ = pathlib
