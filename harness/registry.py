"""Property ids and the reasons for properties that are not (yet) claimed.
A property is claimed iff harness/props/<id>.py exists and defines MANIFEST (see mk_manifest.py)."""

ALL = [f"C{i:02d}" for i in range(1, 21)]
NOT_YET = "machinery for this property is not built yet (planned: Lean model + theorems + correspondence, see DESIGN.md §6)"
NA: dict[str, str] = {}
