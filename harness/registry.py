"""Which properties are claimed, at what level. MANIFEST.json is generated from this (mk_manifest.py)."""

ALL = [f"C{i:02d}" for i in range(1, 21)]

NOT_YET = "machinery for this property is not built yet (planned: Lean model + theorems + correspondence, see DESIGN.md §6)"

CLAIMED = {
    "C14": dict(
        text=("Lean theorems over a model of PurePosixPath construction, normalize_pure_path, each handler's path "
              "composition and percent-quoting: for every subdir string and every file name the accessed parts start "
              "with the normalised subdir and contain no '..', '.', empty or slash-bearing component; quoting is "
              "invertible and emits no '?', '#', space (nor '/' with safe=''). The model is tied to /repo by an exhaustive "
              "differential run over a component alphabet against pathlib, urllib and the real handlers with their backing "
              "stores intercepted; an independent lexical+realpath containment monitor is the failing-input search."),
        design_ref="§6 C14",
        note=("Trusted: Lean kernel; pathlib/posixpath/urllib as oracle; interception shims in harness/props/c14.py; "
              "GitLab-artifacts __init__ bypassed (needs network); symlink behaviour only via realpath on scratch trees."),
        technique="Lean 4 proof (induction over path components / bytes) + exhaustive differential correspondence with pathlib and the real handlers",
    ),
}
