"""Runs seeded edit histories on a corpus model and feeds observers (monitors + index-model tie)."""

from __future__ import annotations

import difflib
import typing as t

import common
import objlayer as ol
import objops


class StepRecord(t.NamedTuple):
    i: int
    step: objops.Step
    outcome: str  # "ok" | exception type name
    before: dict  # raw scan before
    after: dict  # raw scan after


def scan_rows(scan: dict[str, list[dict]]) -> dict[str, list[dict]]:
    return {f: [{"nid": r["nid"], "ids": r["ids"], "xt": r["xt"], "href": r["href"]} for r in rows] for f, rows in scan.items()}


def entry_json(r: dict) -> dict:
    d = {"nid": r["nid"], "ids": r["ids"]}
    if r["xt"] is not None:
        d["xt"] = r["xt"]
    if r["href"] is not None:
        d["href"] = r["href"]
    return d


def diff_ops(before: dict[str, list[dict]], after: dict[str, list[dict]], frag_index: dict[str, int]) -> list[dict]:
    """Translate an observed tree change into the index protocol's instructions (DESIGN §C03 tie):
    removed elements -> detach, survivors in a new order -> reorder, added elements -> attach runs."""
    ops: list[dict] = []
    for f in after:
        fi = frag_index[f]
        B, A = before.get(f, []), after[f]
        setA = {r["nid"] for r in A}
        setB = {r["nid"] for r in B}
        # an element whose id/type attributes changed in place is re-indexed by nobody; treat as detach+attach
        rowB = {r["nid"]: r for r in B}
        changed = {r["nid"] for r in A if r["nid"] in rowB and (rowB[r["nid"]]["ids"] != r["ids"] or rowB[r["nid"]]["xt"] != r["xt"] or rowB[r["nid"]]["href"] != r["href"])}
        removed = [r for r in B if r["nid"] not in setA or r["nid"] in changed]
        if removed:
            ops.append({"k": "detach", "fi": fi, "seg": [entry_json(r) for r in removed]})
        gone = {r["nid"] for r in removed}
        surv_b = [r["nid"] for r in B if r["nid"] not in gone]
        surv_a = [r["nid"] for r in A if r["nid"] in setB and r["nid"] not in changed]
        if surv_b != surv_a:
            ops.append({"k": "reorder", "fi": fi, "nids": surv_a})
        run: list[dict] = []
        start = 0
        for pos, r in enumerate(A):
            if r["nid"] not in setB or r["nid"] in changed:
                if not run:
                    start = pos
                run.append(r)
            elif run:
                ops.append({"k": "attach", "fi": fi, "pos": start, "seg": [entry_json(x) for x in run]})
                run = []
        if run:
            ops.append({"k": "attach", "fi": fi, "pos": start, "seg": [entry_json(x) for x in run]})
    return ops


class IndexTie:
    """Collects protocol requests for the Lean index model and the implementation's answers."""

    def __init__(self):
        self.req: list[dict] = []
        self.impl: list[t.Any] = []
        self.meta: list[t.Any] = []

    def add(self, meta, request, implval):
        self.req.append(request)
        self.impl.append(implval)
        self.meta.append(meta)

    def load(self, loader, scan):
        frags = []
        for fname, tree in loader.trees.items():
            frags.append({
                "name": str(fname),
                "semantic": tree.fragment_type.name == "SEMANTIC",
                "ign": bool(ol.private_state(tree).ignore_uuid_dups),
                "tree": [entry_json(r) for r in scan[str(fname)]],
            })
        self.frag_index = {str(f): i for i, f in enumerate(loader.trees)}
        self.add(("load",), {"op": "index.load", "frags": frags}, len(frags))

    def apply(self, meta, ops):
        if ops:
            self.add(("apply",) + tuple(meta), {"op": "index.apply", "ops": ops}, "ok")

    def query(self, meta, loader, keys: list[str], xts: list[str]):
        kv = {}
        for k in keys:
            try:
                kv[k] = id(loader[k])
            except KeyError as e:
                kv[k] = "Ambiguous" if "Ambiguous" in str(e) else None
            except Exception as e:  # malformed link etc.
                kv[k] = f"!{type(e).__name__}"
        xv = {}
        for x in xts:
            xv[x] = sorted(id(e) for tr in loader.trees.values() for e in tr.iterall_xt({x}))
        self.add(("query",) + tuple(meta), {"op": "index.query", "keys": keys, "xts": xts}, {"keys": kv, "xts": xv})

    def dump(self, meta, loader):
        d = ol.index_dump(loader)
        scan = ol.raw_scan(loader)
        val = []
        for fname in loader.trees:
            fd = d[str(fname)]
            val.append({
                "name": str(fname),
                "tree": [r["nid"] for r in scan[str(fname)]],
                "idc": dict(sorted(fd["idc"].items())),
                "hrefs": dict(sorted(fd["hrefs"].items())),
                "xtc": [{"xt": x, "nids": fd["xtc"][x]} for x in sorted(fd["xtc"])],
            })
        self.add(("dump",) + tuple(meta), {"op": "index.dump"}, val)

    def compare(self, out: common.Outcome, stream: str):
        answers = common.model(self.req, driver="Index")
        for meta, iv, ans in zip(self.meta, self.impl, answers):
            if "err" in ans:
                out.disagree(stream, list(meta), iv, {"err": ans["err"]})
                continue
            mv = ans["ok"]
            if meta[0] == "dump":
                # compare per fragment; report only the differing parts
                for a, b in zip(iv, mv):
                    if a != b:
                        da = {k: v for k, v in a["idc"].items() if b["idc"].get(k, "<absent>") != v}
                        db = {k: v for k, v in b["idc"].items() if a["idc"].get(k, "<absent>") != v}
                        out.disagree(stream, list(meta) + [a["name"]],
                                     {"idc_only_or_diff": dict(list(da.items())[:5]), "tree_equal": a["tree"] == b["tree"], "xtc_equal": a["xtc"] == b["xtc"],
                                      "hrefs_equal": a.get("hrefs") == b.get("hrefs"),
                                      "hrefs_diff": {k: (a.get("hrefs", {}).get(k), b.get("hrefs", {}).get(k)) for k in set(a.get("hrefs", {})) | set(b.get("hrefs", {})) if a.get("hrefs", {}).get(k) != b.get("hrefs", {}).get(k)}},
                                     {"idc_only_or_diff": dict(list(db.items())[:5])})
            elif mv != iv:
                if meta[0] == "query":
                    dk = {k: (iv["keys"][k], mv["keys"].get(k)) for k in iv["keys"] if iv["keys"][k] != mv["keys"].get(k)}
                    dx = {x: "differs" for x in iv["xts"] if iv["xts"][x] != mv["xts"].get(x)}
                    out.disagree(stream, list(meta), {"keys(impl,model)": dict(list(dk.items())[:5]), "xts": dx}, "see impl")
                else:
                    out.disagree(stream, list(meta), iv, mv)
            out.hit(f"{stream}.{meta[0]}")


def run_history(ctx, out: common.Outcome, model_key: str, nsteps: int, observers: list, *, weights=None, model=None, hist_id: int = 0, rng=None):
    """Apply `nsteps` generated operations; call observer.start(model, scan), observer.step(rec, model), observer.end(model)."""
    import random

    rng = rng or random.Random(f"{ctx.prop}:{ctx.seed}:{model_key}:{hist_id}")
    # list handles remembered by the generator belong to ONE history: python ids of lxml proxies are reused after a
    # model is garbage collected, so a handle of an earlier history could be taken for an "outdated second handle"
    objops._HANDLES.clear()
    objops._INTER_CACHE.clear()
    objops._EQ_OWNERS.clear()
    model = model or ol.load(ctx, model_key)
    loader = model._loader
    rels = objops.discover(model, rng, max_objs=ctx.pick(250, 600))
    scan = ol.raw_scan(loader)
    for ob in observers:
        ob.start(model, scan, model_key, hist_id)
    for i in range(nsteps):
        st = objops.gen_step(model, rels, rng, weights)
        for ob in observers:
            if hasattr(ob, "pre"):
                ob.pre(i, st, model)
        try:
            st.run()
            outcome = "ok"
        except (KeyboardInterrupt, SystemExit):
            raise
        except BaseException as e:  # noqa: BLE001 - the error type is the observation
            outcome = type(e).__name__
        after = ol.raw_scan(loader)
        rec = StepRecord(i, st, outcome, scan, after)
        out.hit(f"op.{st.op}.{'ok' if outcome == 'ok' else 'rejected'}")
        if st.rel is not None:
            out.hit(f"kind.{st.rel.kind}")
        for ob in observers:
            ob.step(rec, model)
        if getattr(model, "_verif_stop", False):
            break
        scan = after
        if st.op in ("create", "delitem", "remove", "insert", "append", "setitem", "clear") and i % 7 == 0:
            rels = objops.discover(model, rng, max_objs=ctx.pick(250, 600))
    for ob in observers:
        ob.end(model)
    return model


def describe(st: objops.Step) -> dict:
    d = {"op": st.op, "args": {k: v for k, v in st.args.items()}}
    if st.rel is not None:
        d["relation"] = st.rel.key()
        d["owner"] = getattr(st.rel.owner, "uuid", None)
    return d


_ = difflib
