"""C11, round 4 — introspection totality over UNUSUAL BUT LEGAL element states.

For every registered class that has instances in a corpus model, objects chosen by `ctx.rng` are brought into states
that no shipped model contains but that are legal: short edit histories through the public API (optional attributes
deleted, a specification emptied through its mapping interface, reference lists cleared, objects just created with no
attributes in every containment list that lets `create()` through) and direct-but-schema-legal XML variations (an
element that carries nothing but `xsi:type` and `id`, attributes present but empty, an `ownedSpecification` with no
body / languages without bodies / bodies without languages / one language more than bodies / none at all -> empty,
enumeration attributes with a literal the metamodel does not know).

After each state the monitor runs the introspection surface on the object, on its owner, on the owner's list that shows
it and on a few referrers: `dir`, `repr`, `str`, `_repr_html_`, `__html__`, `_short_repr_`, `_short_html_`,
`_repr_mimebundle_` where present, plus a read of every public attribute (a read may raise, that is not introspection;
its value is `repr`ed, lists are `dir/repr/html`ed).  Statement checked: none of the introspection entry points raises
and the model is unchanged afterwards (digest of every fragment before/after, `write_xml` bytes at the end).

The module is logic-free with respect to capellambse: what a state IS is decided from the live descriptor objects
(`inspect.getattr_static` on the class), never from a list of class names.
"""

from __future__ import annotations

import collections
import inspect

XSI = "{http://www.w3.org/2001/XMLSchema-instance}type"
XMI_ID = "{http://www.omg.org/XMI}id"
KEEP_ATTRS = {XSI, "id", XMI_ID, "{http://www.omg.org/XMI}type"}
OPAQUE = "org.polarsys.capella.core.data.information.datavalue:OpaqueExpression"
UNKNOWN_LITERAL = "LITERAL_FROM_A_NEWER_CAPELLA"

INTRO_FNS = ("dir", "repr", "str", "html", "dunder_html", "short", "mime")


# ------------------------------------------------------------------ what the class offers (reflective)


def _accessors(cls) -> dict[str, object]:
    out = {}
    for a in dir(cls):
        if a.startswith("_"):
            continue
        acc = inspect.getattr_static(cls, a, None)
        if acc is not None:
            out[a] = acc
    return out


def _kind(acc) -> str:
    return type(acc).__name__


def _is_pod(acc) -> bool:
    from capellambse.model import _pods

    return isinstance(acc, _pods.BasePOD)


def pods_of(cls) -> dict[str, object]:
    return {a: acc for a, acc in _accessors(cls).items() if _is_pod(acc)}


def applicable_states(obj) -> list[str]:
    """The states `obj` can be brought into, decided from its class' descriptors and its XML."""
    from capellambse.model import _descriptors as D
    from capellambse.model import _pods

    cls = type(obj)
    accs = _accessors(cls)
    el = obj._element
    st: list[str] = []
    present = [a for a, acc in accs.items() if _is_pod(acc) and acc.attribute in el.attrib
               and acc.attribute not in ("id",) and getattr(acc, "writable", True)]
    if present:
        st += ["api:pod-del-one", "api:pod-del-all"]
    if any(isinstance(acc, (_pods.StringPOD, _pods.HTMLStringPOD)) for acc in accs.values()):
        st.append("xml:text-attrs-empty")
    if any(k not in KEEP_ATTRS for k in el.attrib):
        st.append("xml:bare")
    if any(isinstance(acc, _pods.EnumPOD) for acc in accs.values()):
        st.append("xml:enum-unknown")
    if any(isinstance(acc, D.SpecificationAccessor) for acc in accs.values()):
        if next(el.iterchildren("ownedSpecification"), None) is not None:
            st += ["api:spec-emptied", "xml:spec-lang-only", "xml:spec-body-only", "xml:spec-extra-lang",
                   "xml:spec-empty-texts"]
        else:
            st += ["xml:spec-created-empty", "xml:spec-created-lang-only"]
    if any(isinstance(acc, D.LinkAccessor) for acc in accs.values()):
        st.append("api:links-cleared")
    if any(isinstance(acc, D.WritableAccessor) and isinstance(acc, (D.DirectProxyAccessor, D.RoleTagAccessor))
           for acc in accs.values()):
        st.append("api:created-empty")
    return st


# ------------------------------------------------------------------ bringing an object into a state


def _new_id(rng) -> str:
    h = f"{rng.getrandbits(128):032x}"
    return f"{h[:8]}-{h[8:12]}-{h[12:16]}-{h[16:20]}-{h[20:]}"


def plan_state(model, obj, state: str, rng) -> dict | None:
    """Turn a state name into a concrete, replayable descriptor (all random choices made here)."""
    from capellambse.model import _descriptors as D

    cls = type(obj)
    accs = _accessors(cls)
    el = obj._element
    d: dict = {"s": state, "u": obj.uuid, "cls": cls.__name__}
    if state in ("api:pod-del-one", "api:pod-del-all"):
        present = sorted(a for a, acc in accs.items() if _is_pod(acc) and acc.attribute in el.attrib
                         and acc.attribute not in ("id",) and getattr(acc, "writable", True))
        if not present:
            return None
        d["attrs"] = [rng.choice(present)] if state.endswith("one") else present
    elif state == "xml:enum-unknown":
        from capellambse.model import _pods

        d["xattrs"] = sorted({acc.attribute for acc in accs.values() if isinstance(acc, _pods.EnumPOD)})
    elif state == "xml:text-attrs-empty":
        from capellambse.model import _pods

        d["xattrs"] = sorted({acc.attribute for acc in accs.values()
                              if isinstance(acc, (_pods.StringPOD, _pods.HTMLStringPOD)) and acc.attribute != "id"})
    elif state in ("xml:spec-created-empty", "xml:spec-created-lang-only"):
        d["new_id"] = _new_id(rng)
    elif state == "api:links-cleared":
        d["attrs"] = sorted(a for a, acc in accs.items() if isinstance(acc, D.LinkAccessor))
    elif state == "api:created-empty":
        cands = sorted(a for a, acc in accs.items() if isinstance(acc, D.WritableAccessor)
                       and isinstance(acc, (D.DirectProxyAccessor, D.RoleTagAccessor)))
        if not cands:
            return None
        rng.shuffle(cands)
        d["attrs"] = cands[:4]
        d["pick"] = rng.randrange(1 << 16)
    return d


def apply_state(model, d: dict) -> dict:
    """Perform the descriptor on the live model. Returns {"done": what happened, "focus": [objects to look at]}."""
    from capellambse.model import ElementList

    obj = model.by_uuid(d["u"])
    el = obj._element
    s = d["s"]
    focus: list = []
    done = "ok"
    if s in ("api:pod-del-one", "api:pod-del-all"):
        n = 0
        for a in d["attrs"]:
            try:
                delattr(obj, a)
                n += 1
            except Exception:  # noqa: BLE001  (a refused edit leaves the model as it was)
                pass
        done = f"deleted:{min(n, 3)}" if n else "refused"
    elif s == "xml:bare":
        for k in [k for k in el.attrib if k not in KEEP_ATTRS]:
            del el.attrib[k]
    elif s == "xml:text-attrs-empty":
        for k in d["xattrs"]:
            el.attrib[k] = ""
    elif s == "xml:enum-unknown":
        for k in d["xattrs"]:
            el.attrib[k] = UNKNOWN_LITERAL
    elif s == "api:spec-emptied":
        spec = obj.specification
        for k in list(spec):
            del spec[k]
        done = "empty" if len(list(obj.specification)) == 0 else "not-empty"
    elif s.startswith("xml:spec-"):
        sp = next(el.iterchildren("ownedSpecification"), None)
        if s in ("xml:spec-created-empty", "xml:spec-created-lang-only"):
            if sp is None:
                sp = el.makeelement("ownedSpecification", {XSI: OPAQUE, "id": d["new_id"]})
                el.append(sp)
                model._loader.idcache_index(sp)
            if s.endswith("lang-only"):
                lang = sp.makeelement("languages")
                lang.text = "capella:linkedText"
                sp.append(lang)
        elif sp is None:
            done = "no-spec"
        elif s == "xml:spec-lang-only":
            for b in list(sp.iterchildren("bodies")):
                sp.remove(b)
        elif s == "xml:spec-body-only":
            for b in list(sp.iterchildren("languages")):
                sp.remove(b)
        elif s == "xml:spec-extra-lang":
            lang = sp.makeelement("languages")
            lang.text = "OCL"
            sp.append(lang)
        elif s == "xml:spec-empty-texts":
            for b in list(sp.iterchildren("bodies", "languages")):
                b.text = None
    elif s == "api:links-cleared":
        n = 0
        for a in d["attrs"]:
            try:
                v = getattr(obj, a)
                if isinstance(v, ElementList) and len(v):
                    setattr(obj, a, [])
                    n += 1
                elif v is not None and not isinstance(v, ElementList):
                    delattr(obj, a)
                    n += 1
            except Exception:  # noqa: BLE001
                pass
        done = f"cleared:{min(n, 3)}" if n else "nothing-to-clear"
    elif s == "api:created-empty":
        made = 0
        for a in d["attrs"]:
            try:
                lst = getattr(obj, a)
            except Exception:  # noqa: BLE001
                continue
            if not isinstance(lst, ElementList) or not hasattr(lst, "create"):
                continue
            acc = inspect.getattr_static(type(obj), a, None)
            classes = getattr(acc, "class_", None)
            hints: list = [None]
            if isinstance(classes, tuple) and classes:
                hints = [classes[(d["pick"] + i) % len(classes)].__name__ for i in range(min(2, len(classes)))] + [None]
            for h in hints:
                try:
                    new = lst.create(h) if h else lst.create()
                except Exception:  # noqa: BLE001  (required attributes, abstract class, ...: refused, nothing created)
                    continue
                focus.append(("created", new, a))
                made += 1
                break
        done = f"created:{min(made, 3)}" if made else "refused"
    return {"done": done, "focus": focus}


# ------------------------------------------------------------------ the introspection surface


def intro_call(fn: str, target) -> None:
    if fn == "dir":
        r = dir(target)
        if not isinstance(r, list):
            raise TypeError("dir() did not return a list")
    elif fn == "repr":
        if not isinstance(repr(target), str):
            raise TypeError("repr() did not return a str")
    elif fn == "str":
        if type(target).__str__ is not object.__str__:   # otherwise str() is repr(), called above
            str(target)
    elif fn == "html":
        if hasattr(target, "_repr_html_"):
            target._repr_html_()
        elif hasattr(target, "__html__"):
            target.__html__()
    elif fn == "dunder_html":
        # `_repr_html_` of model objects and lists is `return self.__html__()`; call it separately only where a class
        # overrides one of the two
        t_ = type(target)
        if hasattr(t_, "__html__") and hasattr(t_, "_repr_html_") and not _html_is_alias(t_):
            target.__html__()
    elif fn == "short":
        if hasattr(target, "_short_repr_"):
            target._short_repr_()
        if hasattr(target, "_short_html_"):
            target._short_html_()
    elif fn == "mime":
        if hasattr(target, "_repr_mimebundle_"):
            target._repr_mimebundle_()


_ALIAS: dict = {}


def _html_is_alias(t_) -> bool:
    """True when `t_._repr_html_` is one of the two library-wide one-liners that return `self.__html__()`."""
    if t_ not in _ALIAS:
        from capellambse.model import ElementList, ModelElement

        f = inspect.getattr_static(t_, "_repr_html_", None)
        _ALIAS[t_] = f is inspect.getattr_static(ModelElement, "_repr_html_") or \
            f is inspect.getattr_static(ElementList, "_repr_html_")
    return _ALIAS[t_]


_ROWS: dict = {}


def table_rows() -> dict:
    """name -> row of the generated value-class table (harness/gen_introspect.py), collected from the same live code."""
    if not _ROWS:
        import gen_introspect

        d = gen_introspect.collect()
        _ROWS.update({c["name"]: c for c in d["classes"]})
        _ROWS["\0sites"] = d["sites"]
    return _ROWS


def row_name(v) -> str:
    from capellambse.model import ElementList, ModelElement

    if isinstance(v, ModelElement):
        return "<model element>"
    if isinstance(v, ElementList):
        return "<element list>"
    if isinstance(v, str):
        return "<str>"
    t_ = type(v)
    n = f"{(t_.__module__ or '').removeprefix('capellambse.')}.{t_.__qualname__}"
    return n if n in table_rows() else "<builtin / enum value>"


def got_of(v) -> dict:
    """The value as the Lean model sees it: its class row and which of the representation methods a loop can invoke on
    it raise in its present state (each called on its own)."""
    name = row_name(v)
    row = table_rows()[name]
    if row.get("generic"):
        meths = [m for m in ("_short_html_", "_short_repr_") if m in row["defines"]]
    else:
        meths = list(row["defines"])
    raises = []
    for m in meths:
        try:
            if m == "__format__":
                format(v)
            else:
                getattr(v, m)()
        except Exception:  # noqa: BLE001
            raises.append(m)
    return {"cls": name, "raises": raises}


class Surface:
    """Runs the introspection surface; collects crashes as (signature, description, fn, role)."""

    def __init__(self):
        self.crashes: list[tuple[str, str, str, str]] = []
        self.read_errors: collections.Counter = collections.Counter()
        self.calls = 0
        self.value_classes: collections.Counter = collections.Counter()
        self.table: list = []
        self.obj_type = None

    def intro(self, target, what: str, role: str, fns=INTRO_FNS) -> None:
        for fn in fns:
            self.calls += 1
            try:
                intro_call(fn, target)
            except Exception as e:  # noqa: BLE001
                self.crashes.append((f"{fn}|{what}|{type(e).__name__}", f"{fn}() of {what} ({role}) raised "
                                     f"{type(e).__name__}: {str(e)[:120]}", fn, role))

    def reads(self, obj, deep: bool, table: list | None = None) -> None:
        """Every public attribute; the value is consumed the way `__repr__`/`__html__` and a user would. `table`
        (optional) receives the outcome of every read in the vocabulary of the Lean model (`Capella.Introspect.Got`)."""
        from capellambse.model import ElementList
        from capellambse.model import _descriptors as D

        try:
            names = [a for a in dir(obj) if not a.startswith("_")]
        except Exception:  # noqa: BLE001  (reported by intro())
            return
        for a in names:
            if a == "pvmt":
                continue  # documented exception of the property; checked separately
            try:
                v = getattr(obj, a)
            except Exception as e:  # noqa: BLE001  (a read may raise; it must not mutate)
                self.read_errors[type(e).__name__] += 1
                if table is not None:
                    table.append("attrError" if isinstance(e, AttributeError) else "otherError")
                continue
            if callable(v) and not isinstance(v, ElementList):
                continue
            if type(v).__module__.startswith("capellambse.extensions.pvmt"):
                continue
            if table is not None and not isinstance(inspect.getattr_static(type(obj), a, None), D.ReferenceSearchingAccessor):
                table.append(got_of(v))
            self.value_classes[type(v).__name__] += 1
            what = f"value:{type(v).__name__}" if not isinstance(v, ElementList) else f"list:{type(v).__name__}"
            if isinstance(v, ElementList):
                n = 0
                for _ in v:
                    n += 1
                    if n > 100:
                        break
                if deep:
                    self.intro(v, what, f".{a}", ("dir", "repr", "html"))
            else:
                self.intro(v, what, f".{a}", ("repr",))


def containing_list(obj):
    """The list of the owner that shows `obj` (found through the owner's descriptors), with its attribute name."""
    from capellambse.model import ElementList

    try:
        par = obj.parent
    except Exception:  # noqa: BLE001
        return None, None, None
    if par is None or not hasattr(par, "_element"):
        return None, None, None
    for a, acc in _accessors(type(par)).items():
        if _kind(acc) not in ("DirectProxyAccessor", "RoleTagAccessor", "Containment"):
            continue
        try:
            lst = getattr(par, a)
        except Exception:  # noqa: BLE001
            continue
        if isinstance(lst, ElementList) and any(e is obj._element for e in lst._elements):
            return par, a, lst
    return par, None, None


def look(model, d: dict, res: dict, rng, deep: bool, referrers: bool, corr: bool = False) -> Surface:
    """The introspection surface around one perturbed object."""
    sf = Surface()
    try:
        obj = model.by_uuid(d["u"])
    except Exception:  # noqa: BLE001
        return sf
    cname = type(obj).__name__
    sf.intro(obj, "object:" + cname, "the object")
    sf.table = []
    sf.reads(obj, deep, sf.table if corr else None)
    sf.obj_type = type(obj)
    par, a, lst = containing_list(obj)
    if lst is not None:
        # dir() of a list evaluates every attribute of every member: only on short lists unless `deep`
        fns = ("repr", "html", "short") if (len(lst) > 8 and not deep) else ("dir", "repr", "str", "html", "dunder_html", "short")
        sf.intro(lst, f"list:{type(lst).__name__}", f"owner.{a}", fns)
    if par is not None and hasattr(par, "_element"):
        sf.intro(par, "object:" + type(par).__name__, "the owner", ("repr", "html", "short"))
    for _role, new, attr in res.get("focus", []):
        sf.intro(new, "object:" + type(new).__name__, f"created in .{attr}")
        sf.reads(new, deep)
    if referrers:
        try:
            refs = []
            for (o, ra, _i) in model.find_references(obj):
                refs.append((o, ra))
                if len(refs) >= 12:
                    break
        except Exception:  # noqa: BLE001
            refs = []
        for o, ra in (rng.sample(refs, 2) if len(refs) > 2 else refs):
            sf.intro(o, "object:" + type(o).__name__, f"referrer via .{ra}", ("repr", "html", "short"))
    return sf


# ------------------------------------------------------------------ the phase


def choose(ctx, model, size: str) -> list[tuple[object, str]]:
    """(object, state) pairs: every class with instances x its applicable states (a seeded subset in quick)."""
    rng = ctx.rng
    by: dict = collections.defaultdict(list)
    for o in model.search():
        if type(o).__name__ == "Diagram" or not hasattr(o, "_element") or not getattr(o, "uuid", None):
            continue
        by[type(o)].append(o)
    pairs: list[tuple[object, str]] = []
    for cls in sorted(by, key=lambda c: (c.__module__, c.__name__)):
        objs = by[cls]
        states: list[str] = []
        cand: dict[str, list] = collections.defaultdict(list)
        for o in (objs if len(objs) <= 12 else rng.sample(objs, 12)):
            for s in applicable_states(o):
                cand[s].append(o)
        states = sorted(cand)
        if not states:
            continue
        spec = [s for s in states if "spec-" in s]
        rest = [s for s in states if "spec-" not in s]
        if ctx.thorough:
            k = min(len(rest), 4) if size == "small" else 2
        else:
            # the same ~40 skeleton classes occur in every small model: one state per (class, model), taken with p = 0.6
            k = 1 if rng.random() < (0.6 if size == "small" else 0.5) else 0
        sel = rng.sample(rest, min(k, len(rest)))
        # specification states are rare (one class family): always taken when applicable
        sel += spec if ctx.thorough or len(spec) <= 2 else rng.sample(spec, 3)
        used: set = set()
        for s in sel:
            pool = [o for o in cand[s] if o.uuid not in used] or cand[s]
            o = rng.choice(pool)
            used.add(o.uuid)
            pairs.append((o, s))
    rng.shuffle(pairs)
    return pairs


def run_states(ctx, out, label: str, size: str, H, corr: list | None = None) -> dict:
    """H = the c11 harness module (open_model, fast_snap, copy_roots, model_diff, report_mutation, full_snap)."""
    rng = ctx.rng
    m = H.open_model(ctx, label)
    pairs = choose(ctx, m, size)
    history: list[dict] = []
    stats: collections.Counter = collections.Counter()
    vclasses: collections.Counter = collections.Counter()
    classes_done: set = set()
    for obj, state in pairs:
        try:
            d = plan_state(m, obj, state, rng)
        except Exception:  # noqa: BLE001
            d = None
        if d is None:
            continue
        try:
            res = apply_state(m, d)
        except Exception as e:  # noqa: BLE001  (the edit itself was refused: not C11's business)
            out.hit(f"state:{state}:edit-raised:{type(e).__name__}")
            continue
        history.append(d)
        out.hit(f"state:{state}:{res['done']}")
        classes_done.add(d["cls"])
        snap = H.fast_snap(m)
        roots = H.copy_roots(m) if size == "small" else None
        sf = look(m, d, res, rng, deep=rng.random() < (0.5 if size == "small" or ctx.thorough else 0.2),
                  referrers=rng.random() < (0.5 if size == "small" else 0.15), corr=corr is not None)
        if corr is not None and sf.obj_type is not None:
            from capellambse.model import ModelElement

            crashed = {(fn, role) for _s, _w, fn, role in sf.crashes}
            for fn, meth, loop in (("html", "__html__", "ModelElement.__html__"), ("repr", "__repr__", "ModelElement.__repr__")):
                if inspect.getattr_static(sf.obj_type, meth, None) is not inspect.getattr_static(ModelElement, meth):
                    continue   # the class formats itself: not one of the modelled loops
                corr.append({"model": label, "state": d, "fn": loop, "vals": sf.table,
                             "impl_completes": (fn, "the object") not in crashed})
        stats["introspection_calls"] += sf.calls
        stats["states"] += 1
        vclasses.update(sf.value_classes)
        out.case((label, "state", d["cls"], state, d["u"]),
                 {"model": label, "state": d} if stats["states"] <= 1 else None, True)
        for k, v in sf.read_errors.items():
            out.hit("state-read-raised:" + k, v)
        if H.fast_snap(m) != snap:
            diffs = H.model_diff(roots, m) if roots is not None else []
            H.report_mutation(out, label, {"k": "introspect-state", "state": d, "history": history[:-1]}, diffs,
                              "unusual state")
        for sig, what, fn, role in sf.crashes:
            out.find(f"introspect|{sig}|state:{state}",
                     f"[{label}] after {d} : {what}",
                     {"kind": "introspect-state", "model": label, "state": d, "history": history[:-1], "sig": sig,
                      "fn": fn})
    out.extra.setdefault("element_states", {})[label] = dict(stats, classes=len(classes_done), pairs=len(pairs))
    vc = out.extra.setdefault("states_value_classes", {})
    for k, v in vclasses.items():
        vc[k] = vc.get(k, 0) + v
    out.traces_validated += 1
    return dict(stats)


def replay_state(ctx, case: dict, H) -> str | None:
    """Re-apply the recorded state on a fresh model (alone first, then with the recorded history before it)."""
    import random

    for hist in ([], case.get("history") or []):
        m = H.open_model(ctx, case["model"])
        for d in hist:
            try:
                apply_state(m, d)
            except Exception:  # noqa: BLE001
                pass
        try:
            res = apply_state(m, case["state"])
        except Exception:  # noqa: BLE001
            continue
        before = H.full_snap(m)
        sf = look(m, case["state"], res, random.Random(0), deep=True, referrers=True)
        if case.get("sig"):
            hits = [c for c in sf.crashes if c[0] == case["sig"]] or sf.crashes
            if hits:
                return hits[0][1]
        elif H.full_snap(m) != before:
            return f"introspection after {case['state']} changed what save() writes"
        if not case.get("history"):
            break
    return None
