"""Capella-style model fragmentation on disk — an implementation that is independent of capellambse.

Used by C05 (links across fragment layouts) and C06 (a fragmented model behaves like the monolithic one).

What Capella's "fragment" action does to the files, reproduced here with plain lxml / posixpath / urllib:

* the cut element becomes the root of a new ``*.capellafragment`` file; the root's tag is the
  namespace-qualified class name (``org.polarsys.capella.core.data.la:LogicalArchitecture``), it
  carries ``xmi:version``, the namespace declarations and all former attributes except ``xsi:type``;
* in the parent file a placeholder stays at the same position: the containment tag, ``xsi:type`` and
  ``href="<relative path>#<id>"``;
* references (``#id`` lists in attributes) whose owner and target no longer share a file become
  ``<type> <relative%20quoted/path>#<id>``; references that share a file again become ``#id``;
  existing cross-resource references of moved owners are re-relativised;
* the ``.aird`` gets one ``semanticResources`` entry per fragment (or, with ``airdfragments=True``, a
  ``referencedAnalysis`` to a new ``*.airdfragment`` whose own ``semanticResources`` list the fragment),
  and its ``href``s into the semantic model are re-pointed at the file that now owns the target.

Relative paths are computed with ``posixpath.relpath`` and quoted with ``urllib.parse.quote``
(RFC 3986, UTF-8); with ``raw_nonascii=True`` non-ASCII characters, with ``raw_subdelims=True`` the RFC 3986
sub-delims ``!$&'()*+,;=@`` are left unquoted (the other spellings the loader has to accept: EMF does not escape them).
"""

from __future__ import annotations

import dataclasses
import pathlib
import posixpath
import shutil
import urllib.parse

from lxml import etree

XSI = "http://www.w3.org/2001/XMLSchema-instance"
XMI = "http://www.omg.org/XMI"
XT = f"{{{XSI}}}type"
SEM_MAIN_EXT = (".capella", ".melodymodeller")


@dataclasses.dataclass
class Layout:
    root: pathlib.Path  # directory that holds the project dir and the library dirs
    project: str  # name of the project directory below root
    entry: str  # .aird, relative to the project dir
    main: str  # main semantic file, relative to the project dir
    fragments: dict[str, str]  # fragment file (project-relative) -> id of its root element
    owner: dict[str, str]  # semantic element id -> project-relative file that contains it
    resources: dict[str, str]  # library name -> directory (absolute)
    cuts: list[tuple[str, str]]

    @property
    def aird(self) -> pathlib.Path:
        return self.root / self.project / self.entry


SUBDELIMS = "!$&'()*+,;=@"


def _quote(path: str, raw) -> str:
    """raw = (raw_nonascii, raw_subdelims): which characters are left unquoted. urllib quotes both groups; EMF
    leaves RFC 3986 sub-delims (and, depending on the platform encoding, non-ASCII characters) as they are."""
    raw_nonascii, raw_subdelims = raw if isinstance(raw, tuple) else (bool(raw), False)
    if not raw_nonascii and not raw_subdelims:
        return urllib.parse.quote(path, safe="/")
    return "".join(ch if (raw_nonascii and ord(ch) > 127) or (raw_subdelims and ch in SUBDELIMS)
                   else urllib.parse.quote(ch, safe="/") for ch in path)


def _rel(target: str, from_file: str) -> str:
    """relative path from the directory of ``from_file`` to ``target`` (both project-relative, may start with '..')"""
    base = "/R/P"
    return posixpath.relpath(posixpath.normpath(f"{base}/{target}"), posixpath.normpath(posixpath.dirname(f"{base}/{from_file}")))


def _resolve(ref_path: str, from_file: str) -> str:
    """project-relative target of a (unquoted) relative reference found in ``from_file``"""
    if ref_path.startswith("platform:/resource/"):
        ref_path = "/R/" + ref_path[len("platform:/resource/"):]
        return posixpath.relpath(posixpath.normpath(ref_path), "/R/P")
    base = "/R/P"
    full = posixpath.normpath(posixpath.join(posixpath.dirname(f"{base}/{from_file}"), ref_path))
    return posixpath.relpath(full, base)


def split_link_tokens(value: str) -> list[tuple[str | None, str, str]] | None:
    """[(type|None, path, id)] if ``value`` is a space-separated list of links, else None"""
    out = []
    pending = None
    if not value:
        return None
    for tok in value.split(" "):
        if tok == "":
            return None
        if "#" in tok:
            path, _, ident = tok.partition("#")
            if "#" in ident or not ident or not all(c.isascii() and (c.isalnum() or c in "_-") for c in ident):
                return None
            if pending is not None and path == "":
                return None
            out.append((pending, path, ident))
            pending = None
        else:
            if pending is not None:
                return None
            pending = tok
    if pending is not None:
        return None
    return out


def _type_of(elem: etree._Element) -> str | None:
    xt = elem.get(XT)
    if xt:
        return xt
    q = etree.QName(elem)
    if q.namespace:
        for prefix, uri in elem.nsmap.items():
            if uri == q.namespace and prefix:
                return f"{prefix}:{q.localname}"
    return None


def _parse(path: pathlib.Path) -> etree._ElementTree:
    return etree.parse(str(path), etree.XMLParser(remove_blank_text=True, huge_tree=True))


def _write(tree: etree._ElementTree, path: pathlib.Path) -> None:
    path.parent.mkdir(parents=True, exist_ok=True)
    # not tree.write(filename): libxml2 would treat the name as a URI and escape '%' / '#'
    path.write_bytes(etree.tostring(tree, xml_declaration=True, encoding="UTF-8", pretty_print=True))


def candidate_cut_points(capella_file: pathlib.Path) -> list[tuple[str, int, int]]:
    """(id, depth, subtree size) of every element that can become a fragment root (has id, xsi:type, a parent)."""
    root = _parse(capella_file).getroot()
    out = []
    for e in root.iter():
        if not isinstance(e.tag, str) or e is root:
            continue
        if e.get("id") and e.get(XT) and e.get("href") is None:
            depth = sum(1 for _ in e.iterancestors())
            size = sum(1 for x in e.iter() if isinstance(x.tag, str))
            out.append((e.get("id"), depth, size))
    return out


def find_main(aird: pathlib.Path) -> tuple[str, list[str]]:
    """(main semantic file, all semanticResources entries) as unquoted aird-relative paths"""
    root = _parse(aird).getroot()
    res = [urllib.parse.unquote(x.text or "") for x in root.iter("semanticResources")]
    mains = [r for r in res if r.endswith(SEM_MAIN_EXT) and not r.startswith(("platform:", ".."))]
    if len(mains) != 1:
        raise ValueError(f"cannot determine the main semantic file of {aird}: {res}")
    return mains[0], res


def fragment(
    src_aird: pathlib.Path,
    dst: pathlib.Path,
    cuts: list[tuple[str, str]],
    *,
    main_rel: str | None = None,
    airdfragments: bool = False,
    raw_nonascii: bool = False,
    raw_subdelims: bool = False,
    resources: dict[str, pathlib.Path] | None = None,
    resource_rename: dict[str, dict[str, str]] | None = None,
    minimal_ns: bool = False,
) -> Layout:
    """Write a fragmented copy of the model at ``src_aird`` below ``dst``.

    cuts: (element id, project-relative fragment file) — nested cuts allowed (any order).
    main_rel: relocate the main semantic file (project-relative), default: keep its name.
    resource_rename: {library name: {old file: new file}} (library-relative): rename files inside a library
        resource (e.g. to the very name the project's own semantic file has) and re-point every reference.
    minimal_ns: a fragment root declares only the namespaces in use in its file (xmi, xsi, its own tag's, those of the
        xsi:type values inside) - what Capella writes - instead of every namespace of the main file (the default; a
        saving tool then has more to tidy up).
    """
    raw = (raw_nonascii, raw_subdelims)
    src_aird = pathlib.Path(src_aird)
    src_dir = src_aird.parent
    project = src_dir.name
    pdir = dst / project
    pdir.mkdir(parents=True, exist_ok=True)
    res_out: dict[str, str] = {}
    ext_map: dict[str, str] = {}  # project-relative path of a renamed library file -> its new path
    for name, d in (resources or {}).items():
        shutil.copytree(d, dst / name, dirs_exist_ok=True)
        res_out[name] = str(dst / name)
        for old, new in (resource_rename or {}).get(name, {}).items():
            (dst / name / new).parent.mkdir(parents=True, exist_ok=True)
            (dst / name / old).rename(dst / name / new)
            ext_map[posixpath.normpath(f"../{name}/{old}")] = posixpath.normpath(f"../{name}/{new}")

    old_main, sem_res = find_main(src_aird)
    new_main = main_rel or old_main
    aird_name = src_aird.name
    for f in src_dir.iterdir():
        if f.is_file() and f.suffix == ".afm":
            shutil.copy(f, pdir / f.name)

    main_tree = _parse(src_dir / old_main)
    main_root = main_tree.getroot()
    version_comment = None
    prev = main_root.getprevious()
    while prev is not None:
        if isinstance(prev, etree._Comment) and (prev.text or "").startswith("Capella_Version"):
            version_comment = prev.text
        prev = prev.getprevious()

    byid: dict[str, etree._Element] = {}
    for e in main_root.iter():
        if isinstance(e.tag, str) and e.get("id"):
            byid[e.get("id")] = e

    # ---- cut, deepest first so that nested fragment roots are detached before their ancestors
    def depth(i: str) -> int:
        return sum(1 for _ in byid[i].iterancestors())

    frag_files = [f for _, f in cuts]
    if len(set(frag_files)) != len(frag_files) or new_main in frag_files:
        raise ValueError("fragment file names must be distinct")
    trees: dict[str, etree._Element] = {new_main: main_root}
    placeholders: list[tuple[etree._Element, str, str]] = []
    fragments: dict[str, str] = {}
    for ident, frag_file in sorted(cuts, key=lambda c: -depth(c[0])):
        e = byid[ident]
        parent = e.getparent()
        xt = e.get(XT)
        if parent is None or not xt or ":" not in xt:
            raise ValueError(f"{ident} cannot be a fragment root")
        prefix, local = xt.split(":", 1)
        uri = main_root.nsmap[prefix]
        new_root = etree.Element(f"{{{uri}}}{local}", nsmap={k: v for k, v in main_root.nsmap.items() if k})
        new_root.set(f"{{{XMI}}}version", "2.0")
        for k, v in e.attrib.items():
            if k != XT:
                new_root.set(k, v)
        ph = etree.Element(e.tag)
        ph.set(XT, xt)
        ph.set("href", "")
        parent.replace(e, ph)
        for ch in list(e):
            new_root.append(ch)
        byid[ident] = new_root
        trees[frag_file] = new_root
        fragments[frag_file] = ident
        placeholders.append((ph, frag_file, ident))

    # ---- ownership
    owner: dict[str, str] = {}
    file_of_elem: dict[int, str] = {}
    for fname, root in trees.items():
        for e in root.iter():
            if isinstance(e.tag, str):
                file_of_elem[id(e)] = fname
                if e.get("id") and e.get("href") is None:
                    owner[e.get("id")] = fname

    for ph, frag_file, ident in placeholders:
        here = file_of_elem[id(ph)]
        ph.set("href", f"{_quote(_rel(frag_file, here), raw)}#{ident}")

    # ---- reference attributes in the semantic trees
    for fname, root in trees.items():
        for e in root.iter():
            if not isinstance(e.tag, str):
                continue
            for k, v in list(e.attrib.items()):
                if k in ("id", "href", XT) or "#" not in v:
                    continue
                links = split_link_tokens(v)
                if links is None:
                    continue
                new_parts = []
                ok = True
                for typ, path, ident in links:
                    if path == "":
                        tgt_old = old_main
                    else:
                        tgt_old = _resolve(urllib.parse.unquote(path), old_main)
                    if tgt_old == old_main:
                        if ident not in owner:
                            ok = False
                            break
                        tgt_new = owner[ident]
                        typ = _type_of(byid[ident])
                    else:
                        # another resource: path stays (unless renamed), relative spelling changes
                        tgt_new = ext_map.get(tgt_old, tgt_old)
                    if tgt_new == fname:
                        new_parts.append(f"#{ident}")
                    else:
                        q = _quote(_rel(tgt_new, fname), raw)
                        new_parts.append(f"{typ} {q}#{ident}" if typ else f"{q}#{ident}")
                if ok:
                    e.set(k, " ".join(new_parts))

    # ---- the .aird
    aird_tree = _parse(src_aird)
    aird_root = aird_tree.getroot()
    for e in aird_root.iter():
        if not isinstance(e.tag, str):
            continue
        href = e.get("href")
        if href and "#" in href and not href.startswith("platform:/plugin"):
            path, _, ident = href.partition("#")
            tgt = _resolve(urllib.parse.unquote(path), aird_name) if path else None
            if path and tgt == old_main and ident in owner:
                e.set("href", f"{_quote(_rel(owner[ident], aird_name), raw)}#{ident}")
            elif tgt in ext_map:
                e.set("href", f"{_quote(_rel(ext_map[tgt], aird_name), raw)}#{ident}")
    sem_elems = list(aird_root.iter("semanticResources"))
    last = sem_elems[-1]
    for se in sem_elems:
        text = urllib.parse.unquote(se.text or "")
        if text == old_main:
            se.text = _quote(_rel(new_main, aird_name), raw)
        elif text and _resolve(text, aird_name) in ext_map:
            new = ext_map[_resolve(text, aird_name)]
            if text.startswith("platform:/resource/"):
                se.text = "platform:/resource/" + _quote(new[len("../"):], raw)
            else:
                se.text = _quote(_rel(new, aird_name), raw)
    n = 0
    for frag_file in fragments:
        n += 1
        if airdfragments:
            af = posixpath.splitext(frag_file)[0] + ".airdfragment"
            uid = f"_verifFragAnalysis{n:04d}"
            nsmap = {k: v for k, v in aird_root.nsmap.items() if k}
            fr = etree.Element(aird_root.tag, nsmap=nsmap)
            fr.set(f"{{{XMI}}}version", "2.0")
            fr.set("uid", uid)
            if aird_root.get("version"):
                fr.set("version", aird_root.get("version"))
            for target in (new_main, frag_file):
                s = etree.SubElement(fr, "semanticResources")
                s.text = _quote(_rel(target, af), raw)
            _write(etree.ElementTree(fr), pdir / af)
            ra = etree.Element("referencedAnalysis")
            ra.set("href", f"{_quote(_rel(af, aird_name), raw)}#{uid}")
            last.addnext(ra)
            last = ra
        else:
            s = etree.Element("semanticResources")
            s.text = _quote(_rel(frag_file, aird_name), raw)
            last.addnext(s)
            last = s
    _write(aird_tree, pdir / aird_name)

    # ---- semantic files
    for fname, root in list(trees.items()):
        if fname == new_main:
            _write(main_tree, pdir / fname)
        else:
            if minimal_ns:
                used = {"xmi", "xsi", etree.QName(root).namespace and next(k for k, v in root.nsmap.items() if v == etree.QName(root).namespace)}
                for e in root.iter():
                    if isinstance(e.tag, str) and ":" in (e.get(XT) or "") and e.get(XT).split(":")[0] in root.nsmap:
                        used.add(e.get(XT).split(":")[0])
                slim = etree.Element(root.tag, nsmap={k: v for k, v in root.nsmap.items() if k in used})
                for k, v in root.attrib.items():
                    slim.set(k, v)
                for ch in list(root):
                    slim.append(ch)
                root = trees[fname] = slim
            if version_comment:
                root.addprevious(etree.Comment(version_comment))
            _write(etree.ElementTree(root), pdir / fname)

    return Layout(root=dst, project=project, entry=aird_name, main=new_main, fragments=fragments,
                  owner=owner, resources=res_out, cuts=list(cuts))


def monolithic_copy(src_aird: pathlib.Path, dst: pathlib.Path, resources: dict[str, pathlib.Path] | None = None) -> Layout:
    """the same writer, no cuts: the single-file twin that the fragmented layouts are compared with"""
    return fragment(src_aird, dst, [], resources=resources)
