"""C10 — `ElementList` operations (helper of harness/props/c10.py).

For real lists taken from a model this module
  * exports the slice of the object graph the operations look at (`World`: what `getattr(obj, name)` yields, attribute
    by attribute, with model elements numbered by the identity of their XML element) and a list of operations for the
    Lean driver `QueryList` (filter names, calls with every `single` mode, nested paths, the lowercase filter,
    `__iter__`/`__contains__` of filters, `filter`, `map` with dotted paths, `+`/`-` in both reflections, `in`,
    integer / slice / string indexing, `get`, `keys()`),
  * records what the implementation answers to the very same operations, and
  * checks each answer against an independent list-comprehension specification (the monitor).
"""

from __future__ import annotations

import collections.abc as cabc
import enum
import fractions
import math
import operator

MAXVAL = 40  # longest attribute value (list of model elements) that is exported as part of the world
ABSENT = "∅ no such value"
ERRS = ("AttributeError", "KeyError", "ValueError", "TypeError", "IndexError", "AssertionError")


class Unsupported(Exception):
    pass


def map_slots(lst) -> tuple:
    """(mapkey, mapvalue) of an `ElementList`: the two private slots that make it act as a mapping. The names of the
    pinned commit are tried first; after a harmless rename they are found among the private slots by shape (None or a
    dotted attribute path) and name. `common.BindingBroken` (a BaseException: not swallowed by the `except Exception`
    blocks that record what the IMPLEMENTATION raised) when they cannot be identified."""
    import common

    def pred(v):
        return v is None or isinstance(v, str)

    return (common.get_private(lst, "_ElementList__mapkey", pred, ("key",)),
            common.get_private(lst, "_ElementList__mapvalue", pred, ("val",)))


class World:
    """Recorder of `getattr` results; objects are numbered by element identity (classes by their own)."""

    def __init__(self) -> None:
        self.objs: list[dict] = []
        self.raw: list = []
        self.by_id: dict[int, int] = {}
        self.cache: dict = {}
        self.keep: list = []

    def reg(self, o) -> int:
        el = getattr(o, "_element", None)
        key = id(el) if el is not None else id(o)
        if key not in self.by_id:
            self.by_id[key] = len(self.objs)
            self.keep.append(el if el is not None else o)
            try:
                u = getattr(o, "uuid", None) if el is not None else None
            except Exception:  # noqa: BLE001
                u = None
            self.objs.append({"uuid": u if isinstance(u, str) else "", "attrs": []})
            self.raw.append(o)
        return self.by_id[key]

    def atom(self, v):
        from capellambse.model import _obj

        if isinstance(v, enum.Enum):
            v = v.name
        if v is None:
            return {"n": True}
        if isinstance(v, bool) or isinstance(v, int):
            return {"i": int(v)}
        if isinstance(v, float):
            if math.isnan(v) or math.isinf(v):
                raise Unsupported("nan/inf")
            if v.is_integer():
                return {"i": int(v)}
            fr = fractions.Fraction(v)
            return {"f": [fr.numerator, fr.denominator]}
        if isinstance(v, str):
            return {"s": str(v)}
        if isinstance(v, _obj.ModelElement):
            return {"o": self.reg(v)}
        raise Unsupported(type(v).__name__)

    def enc(self, v):
        from capellambse.model import _obj

        if isinstance(v, type):
            return {"o": self.reg(v)}
        if isinstance(v, _obj.ModelElement):
            return {"o": self.reg(v)}
        if isinstance(v, (str, int, float, bool, type(None), enum.Enum)):
            return {"a": self.atom(v)}
        if isinstance(v, _obj.ElementList):
            if len(v) > MAXVAL:
                raise Unsupported("long list")
            items = list(v)
            if any(getattr(x, "_element", None) is not e for x, e in zip(items, v._elements)):
                # a view list (reqif RelationsList) stores other elements than it hands out; its `in` is not iteration
                raise Unsupported("view list")
            if not all(isinstance(x, _obj.ModelElement) for x in items):
                raise Unsupported("list of non-elements")  # e.g. diagrams
            return {"os": [self.reg(x) for x in items]}
        if isinstance(v, (list, tuple)):
            if len(v) > MAXVAL:
                raise Unsupported("long list")
            if all(isinstance(x, _obj.ModelElement) for x in v) and v:
                return {"os": [self.reg(x) for x in v]}
            return {"as": [self.atom(x) for x in v]}
        raise Unsupported(type(v).__name__)

    def get(self, idx: int, attr: str):
        k = (idx, attr)
        if k in self.cache:
            return self.cache[k]
        o = self.raw[idx]
        try:
            v = getattr(o, attr)
        except AttributeError:
            res = ("attrerr", None)
        except Exception as e:  # noqa: BLE001
            res = ("skip", type(e).__name__)
        else:
            try:
                res = ("ok", (v, self.enc(v)))
            except Unsupported as e:
                res = ("skip", str(e))
        if res[0] == "ok":
            self.objs[idx]["attrs"].append([attr, res[1][1]])
        elif res[0] == "attrerr":
            self.objs[idx]["attrs"].append([attr, None])
        self.cache[k] = res
        return res

    def walk(self, idx: int, path: list[str]):
        """Evaluate a dotted path attribute by attribute; ("ok", value) / ("attrerr", None) / ("skip", why)."""
        from capellambse.model import _obj

        cur = idx
        for i, a in enumerate(path):
            kind, val = self.get(cur, a)
            if kind != "ok":
                return kind, val
            v = val[0]
            if i == len(path) - 1:
                return "ok", v
            if isinstance(v, (_obj.ModelElement, type)):
                cur = self.reg(v)
            elif hasattr(v, path[i + 1]):
                # a plain value that does have the next attribute (an Enum member's `name` / `value`, a str method):
                # outside the world the model describes (its plain values carry no attributes) - not compared
                return "skip", "attribute of a plain value"
            else:
                return "attrerr", None  # plain values and lists have none of the attributes the paths name
        return "ok", self.raw[idx]


def canon_exc(e: Exception) -> dict:
    n = type(e).__name__
    return {"err": n if n in ERRS else "other:" + n}


def elems(world: World, lst) -> list[int]:
    return [world.by_id.get(id(e), -1) for e in lst._elements]


def list_class(lst) -> str:
    from capellambse.model import _obj

    if isinstance(lst, _obj.MixedElementList) or lst._elemclass is _obj.ModelElement:
        return "mixed" if isinstance(lst, _obj.MixedElementList) else "ModelElement"
    return lst._elemclass.__name__


def candidate_paths(rng, lst, first) -> list[str]:
    from capellambse.model import _model

    base = ["name", "uuid", "xtype", "parent", "parent.name", "parent.parent.name", "parent.uuid", "layer",
            "layer.name", "__class__.__name__", "description", "nope", "parent.nope.x", "parent.layer.name"]
    try:
        rel = list(_model._reference_attributes(type(first)))
    except Exception:  # noqa: BLE001
        rel = []
    rng.shuffle(rel)
    extra = []
    for a in rel[:3]:
        extra += [a, a + ".name"]
    for a in ("kind", "is_abstract", "value", "type", "type.name", "source", "target", "source.owner.name", "min_card.value"):
        if hasattr(type(first), a.split(".")[0]):
            extra.append(a)
    return base + extra


def key_values(world: World, idxs: list[int], path: list[str]):
    """('ok', per-element (present, value)) or ('skip', why)"""
    out = []
    for i in idxs:
        kind, v = world.walk(i, path)
        if kind == "skip":
            return "skip", v
        out.append((kind == "ok", v))
    return "ok", out


def value_atoms(world: World, keyvals, rng, n: int) -> list:
    from capellambse.model import _obj

    vals: list = []
    for present, v in keyvals:
        if not present:
            continue
        if isinstance(v, enum.Enum):
            v = v.name
        if isinstance(v, str) or not isinstance(v, cabc.Iterable):
            cand = [v]
        else:
            try:
                cand = list(v)[:2]
            except Exception:  # noqa: BLE001
                cand = []
        for c in cand:
            if isinstance(c, (str, int, float, bool, type(None), _obj.ModelElement)) and not any(c is x or (type(c) is type(x) and c == x) for x in vals):
                vals.append(c)
    if len(vals) > n:
        vals = rng.sample(vals, n)
    return vals


def run_ops(ctx, out, world: World, lst, origin: dict, label: str, state: str, rng) -> dict | None:
    """Build the operation list for one real list, run it on the implementation, check the monitor specs.
    Returns the request for the Lean driver together with the implementation's answers."""
    from capellambse.model import _obj

    objs = list(lst)
    L = list(lst._elements)
    if not objs or any(getattr(o, "_element", None) is not e for o, e in zip(objs, L)):
        return None  # view lists (reqif RelationsList) hand out other objects than they store
    idxs = [world.reg(o) for o in objs]
    mixed = isinstance(lst, _obj.MixedElementList)
    ops: list[dict] = []
    impl: list = []
    pub = {k: v for k, v in origin.items() if not k.startswith("_")}
    rep = {"kind": "listop", "model": label, "state": state, "origin": pub}

    def bad(sig: str, what: str, **kw):
        out.find(f"list|{sig}", f"[{label}/{state}] {what} on {pub}", dict(rep, **kw))

    def res_list(r):
        return {"list": elems(world, r)}

    def spec_key(o, path):
        """what extract_key sees, by plain attribute access"""
        try:
            v = operator.attrgetter(path)(o)
        except AttributeError:
            return False, None
        if isinstance(v, enum.Enum):
            v = v.name
        return True, v

    def spec_match(o, path, values, lower=False):
        p, v = spec_key(o, path)
        if not p:
            return None
        if lower:
            v = v.lower()
            values = tuple(x.lower() for x in values)
        if isinstance(v, str) or not isinstance(v, cabc.Iterable):
            return v in values
        return any(x in v for x in values)

    paths = candidate_paths(rng, lst, objs[0])
    chosen = [p for p in paths[:14] if rng.random() < ctx.pick(45, 80) / 100] + rng.sample(paths[14:], min(len(paths) - 14, 2))
    if mixed and "__class__.__name__" not in chosen:
        chosen.append("__class__.__name__")
    for path in chosen:
        pl = path.split(".")
        st, keyvals = key_values(world, idxs, pl)
        if st == "skip":
            out.hit("listop:path-skipped:" + str(keyvals))
            continue
        if mixed and path == "type":
            continue  # on a mixed list `by_type` is the class-name filter (covered by the path `__class__.__name__`)
        lower = mixed and path == "__class__.__name__"
        by_name = "by_type" if lower else "by_" + path
        ex_name = "exclude_types" if lower else "exclude_" + path + "s"
        # --- names -> filter objects
        for nm in (by_name, ex_name):
            try:
                f = getattr(lst, nm)
                iv = {"path": f._attr.split("."), "positive": f._positive, "single": f._single,
                      "lower": isinstance(f, _obj._LowercaseListFilter)}
            except AttributeError:
                iv = "AttributeError"
            ops.append({"k": "name", "name": nm, "mixed": mixed})
            impl.append(iv)
            out.hit("listop:name")
        fb, fe = getattr(lst, by_name), getattr(lst, ex_name)
        if fb._attr != fe._attr or fb._positive is not True or fe._positive is not False:
            bad("names|not-complementary", f"{by_name} / {ex_name} do not denote one attribute with opposite polarity", attr=path)
        if len(pl) >= 2 and not lower and not any(p.startswith("_") for p in pl) and not (mixed and pl[0] == "type"):
            # nesting: lst.by_a.b is the filter getattr(lst, "by_a.b") (up to the default of `single`)
            f = getattr(lst, "by_" + pl[0])
            for a in pl[1:]:
                ops.append({"k": "nest", "path": f._attr.split("."), "positive": f._positive, "fsingle": f._single, "attr": a})
                try:
                    f = getattr(f, a)
                    impl.append({"path": f._attr.split("."), "positive": f._positive, "single": f._single, "lower": False})
                except AttributeError:
                    impl.append("AttributeError")
                    break
            else:
                if f._attr != path:
                    bad("nest|path-differs", f"lst.by_{path} walks {f._attr!r}", attr=path)
            out.hit("listop:nest")
        vals = value_atoms(world, keyvals, rng, ctx.pick(2, 4))
        if lower:
            vals = [v.upper() if i % 2 else v.lower() for i, v in enumerate(vals) if isinstance(v, str)]
        vals.append(ABSENT)
        if not lower:
            vals.append(7 if rng.random() < 0.5 else None)
        argsets = [(v,) for v in vals]
        if len(vals) >= 3:
            argsets.append((vals[0], vals[1]))
        argsets.append(())
        lacking = sum(1 for p, _ in keyvals if not p)
        for args in argsets:
            try:
                avals = [world.atom(a) for a in args]
            except Unsupported:
                continue
            if lower and not all(isinstance(a, str) for a in args):
                continue
            halves = {}
            for positive, fname in ((True, by_name), (False, ex_name)):
                for single in (None, False, True):
                    if single is None and positive is False and rng.random() < 0.5:
                        continue
                    flt = getattr(lst, fname)
                    try:
                        r = flt(*args) if single is None else flt(*args, single=single)
                        if isinstance(r, _obj.ElementList):
                            iv = res_list(r)
                            if single is False:
                                halves[positive] = list(r._elements)
                        else:
                            iv = {"one": world.by_id.get(id(getattr(r, "_element", None)), -1)}
                    except Exception as e:  # noqa: BLE001
                        iv = canon_exc(e)
                        if single is False:
                            halves[positive] = iv
                    ops.append({"k": "call", "path": pl, "positive": positive, "fsingle": flt._single, "lower": lower,
                                "vals": avals, "single": single})
                    impl.append(iv)
                    out.hit(f"listop:call:{'by' if positive else 'exclude'}:single={single}")
                    out.case((label, state, "listop", common_sha(origin), path, str(args), positive, single), None, True)
                    # monitor: the promise of a single result
                    eff = flt._single if single is None else single
                    if eff and "err" not in iv and "one" not in iv:
                        bad("single|returned-a-list", f"{fname}{args!r} single={single} returned a list", attr=path)
            # monitor: the two halves are complementary sub-sequences (or raise alike), also for nested paths
            b, e = halves.get(True), halves.get(False)
            if isinstance(b, list) and isinstance(e, list):
                ib = {id(x) for x in b}
                want_b = [x for x, o in zip(L, objs) if spec_match(o, path, args, lower) is True]
                want_e = [x for x, o in zip(L, objs) if spec_match(o, path, args, lower) in (False, None)]
                if [id(x) for x in b] != [id(x) for x in want_b] or [id(x) for x in e] != [id(x) for x in want_e]:
                    cls = "missing-attr" if lacking and len(b) + len(e) != len(L) else "differs"
                    bad(f"partition|{'nested' if len(pl) > 1 else 'plain'}|{cls}",
                        f"{by_name}{args!r} has {len(b)}, {ex_name}{args!r} has {len(e)} of {len(L)}; the comprehension gives {len(want_b)} / {len(want_e)}",
                        attr=path, value=[str(a) for a in args])
                del ib
            elif isinstance(b, dict) != isinstance(e, dict) or (isinstance(b, dict) and b != e):
                bad("partition|raise-differently", f"{by_name}{args!r} -> {b if isinstance(b, dict) else 'list'}, {ex_name}{args!r} -> {e if isinstance(e, dict) else 'list'}", attr=path)
        # --- __iter__ / __contains__ of the filter object
        flt = getattr(lst, by_name)
        try:
            ks = list(iter(flt))
            try:
                iv = {"keys": [world.atom(k) for k in ks]}
            except Unsupported:
                iv = None
            # monitor: docstring of __iter__
            for k in ks[:6]:
                if not flt(k, single=False):
                    bad("iter|value-gives-empty-list", f"iter({by_name}) yields {k!r} but filtering for it gives nothing", attr=path)
            if len(set(ks)) != len(ks):
                bad("iter|duplicates", f"iter({by_name}) yields a value twice", attr=path)
        except Exception as e:  # noqa: BLE001
            iv = canon_exc(e)
        if iv is not None:
            ops.append({"k": "iter", "path": pl, "lower": lower})
            impl.append(iv)
            out.hit("listop:iter:" + ("raises" if "err" in iv else "ok"))
        for v in vals[:3]:
            if lower and not isinstance(v, str):
                continue
            for positive, fname in ((True, by_name), (False, ex_name)):
                flt = getattr(lst, fname)
                try:
                    got = v in flt
                    iv = {"b": bool(got)}
                    try:
                        want = len(flt(v, single=False)) > 0
                        if bool(got) != want:
                            bad("contains|differs-from-call", f"({v!r} in {fname}) is {got}, the call gives {'some' if want else 'none'}", attr=path)
                    except Exception:  # noqa: BLE001
                        pass
                except Exception as e:  # noqa: BLE001
                    iv = canon_exc(e)
                try:
                    ops.append({"k": "contains", "path": pl, "positive": positive, "lower": lower, "val": world.atom(v)})
                    impl.append(iv)
                    out.hit("listop:contains")
                except Unsupported:
                    pass
        if lower:
            continue
        # --- filter(path)
        try:
            r = lst.filter(path)
            iv = res_list(r)
            want = [x for x, o in zip(L, objs) if operator.attrgetter(path)(o)]
            if [id(x) for x in r._elements] != [id(x) for x in want]:
                bad("filter-pred|differs", f"filter({path!r}) is not the comprehension over truthy values", attr=path)
            if map_slots(r) != map_slots(lst):
                bad("filter-pred|mapkey-lost", f"filter({path!r}) no longer acts as the same mapping", attr=path)
        except Exception as e:  # noqa: BLE001
            iv = canon_exc(e)
            if lacking == 0 and iv == {"err": "AttributeError"}:
                bad("filter-pred|raises", f"filter({path!r}) raised although every element has the attribute", attr=path)
        ops.append({"k": "pred", "path": pl})
        impl.append(iv)
        out.hit("listop:pred:" + ("raises" if "err" in iv else "ok"))
        # --- map(path)
        try:
            r = lst.map(path)
            iv = res_list(r)
        except Exception as e:  # noqa: BLE001
            r, iv = None, canon_exc(e)
        # the world must know every attribute along the way for every intermediate element
        complete = True
        layer_objs = list(objs)
        for a in pl:
            nxt = []
            for o in layer_objs:
                kind, val = world.get(world.reg(o), a)
                if kind == "skip":
                    complete = False
                    break
                if kind == "ok":
                    v = val[0]
                    if isinstance(v, _obj.ModelElement):
                        nxt.append(v)
                    elif isinstance(v, _obj.ElementList) or (isinstance(v, (list, tuple)) and v and all(isinstance(x, _obj.ModelElement) for x in v)):
                        nxt.extend(v)
            if not complete:
                break
            seen, ded = set(), []
            for o in nxt:
                if id(o._element) not in seen:
                    seen.add(id(o._element))
                    ded.append(o)
            layer_objs = ded
        if complete:
            ops.append({"k": "map", "path": pl})
            impl.append(iv)
            out.hit("listop:map:" + ("raises" if "err" in iv else "ok"))
            if r is not None:
                # monitor: ordered de-duplication (by uuid) of the flattened images, component by component
                cur = list(objs)
                ok = True
                for a in pl:
                    want, seenu = [], set()
                    for o in cur:
                        try:
                            v = getattr(o, a)
                        except AttributeError:
                            continue
                        for t_ in (v if isinstance(v, cabc.Iterable) else [v]):
                            if t_ is None:
                                continue
                            if not isinstance(t_, _obj.ModelElement):
                                ok = False
                                break
                            if t_.uuid in seenu:
                                continue
                            seenu.add(t_.uuid)
                            want.append(t_)
                    cur = want
                if ok and [id(x) for x in r._elements] != [id(o._element) for o in cur]:
                    bad("map|differs", f"map({path!r}) is not the ordered de-duplicated flattening", attr=path)
                if not ok:
                    bad("map|should-raise", f"map({path!r}) returned although an image is not a model element", attr=path)
    # --- list-level operations
    n = len(L)
    other = origin.get("_other")
    if other is not None and len(other):
        oidx = [world.reg(o) for o in other]
        for reflected in (False, True):
            try:
                r = (other + lst) if reflected else (lst + other)
                # `other + lst` is other.__add__(lst); the reflected method is reached with `lst.__radd__(other)`
                r2 = lst.__radd__(other) if reflected else r
                iv = {"cls": "mixed" if isinstance(r2, _obj.MixedElementList) else "plain", "list": elems(world, r2)}
                want = (list(other._elements) + L) if reflected else (L + list(other._elements))
                if [id(x) for x in r2._elements] != [id(x) for x in want] or [id(x) for x in r._elements] != [id(x) for x in want]:
                    bad("add|differs", "a + b is not the concatenation")
            except Exception as e:  # noqa: BLE001
                iv = canon_exc(e)
            ops.append({"k": "add", "other": oidx, "ocls": list_class(other), "reflected": reflected})
            impl.append(iv)
            out.hit("listop:add")
            try:
                r = lst.__rsub__(other) if reflected else (lst - other)
                iv = res_list(r)
                base, excl = (other, lst) if reflected else (lst, other)
                ex = {getattr(i, "uuid", None) for i in excl}
                want = [o._element for o in base if o.uuid not in ex]
                if [id(x) for x in r._elements] != [id(x) for x in want]:
                    bad("sub|differs", "a - b is not the order-preserving complement by uuid")
            except Exception as e:  # noqa: BLE001
                iv = canon_exc(e)
            ops.append({"k": "sub", "other": oidx, "reflected": reflected})
            impl.append(iv)
            out.hit("listop:sub")
        for o in [rng.choice(objs), rng.choice(list(other))]:
            got = o in lst
            want = any(o._element is e for e in L)
            if got != want:
                bad("contains|differs", f"`obj in lst` is {got}, a scan says {want}")
            ops.append({"k": "in", "obj": world.reg(o)})
            impl.append({"b": bool(got)})
            out.hit("listop:in")
    for _ in range(ctx.pick(4, 10)):
        i = rng.randint(-n - 2, n + 1)
        try:
            r = lst[i]
            iv = {"one": world.by_id.get(id(r._element), -1)}
            if r._element is not L[i]:
                bad("index|differs", f"lst[{i}] is not element {i}")
        except IndexError:
            iv = {"err": "IndexError"}
            if -n <= i < n:
                bad("index|raises", f"lst[{i}] raised IndexError with {n} elements")
        except Exception as e:  # noqa: BLE001
            iv = canon_exc(e)
        ops.append({"k": "index", "i": i})
        impl.append(iv)
        out.hit("listop:index")

    def bound():
        c = rng.random()
        if c < 0.25:
            return None
        if c < 0.35:
            return rng.choice([-10**9, 10**9, -n, n, -n - 1, n + 1, 0, -1])
        return rng.randint(-n - 3, n + 3)

    for _ in range(ctx.pick(8, 30)):
        s = slice(bound(), bound(), rng.choice([None, None, 1, 2, 3, -1, -2, -3, 0, n, -n, 10**9, -10**9]))
        try:
            r = lst[s]
            iv = res_list(r)
            want = [L[k] for k in range(*s.indices(n))]
            if [id(x) for x in r._elements] != [id(x) for x in want]:
                bad("slice|differs", f"lst[{s}] differs from the progression of slice.indices")
            if map_slots(r) != map_slots(lst):
                bad("slice|mapkey-lost", f"lst[{s}] no longer acts as the same mapping")
        except ValueError:
            iv = {"err": "ValueError"}
            if s.step != 0:
                bad("slice|raises", f"lst[{s}] raised ValueError")
        except Exception as e:  # noqa: BLE001
            iv = canon_exc(e)
        ops.append({"k": "slice", "start": s.start, "stop": s.stop, "step": s.step})
        impl.append(iv)
        out.hit("listop:slice:" + ("neg" if (s.step or 1) < 0 else "zero" if s.step == 0 else "pos"))
    # --- the list as a mapping
    mk, mv = map_slots(lst)
    mapping_ok = True
    if mk:
        st, keyvals = key_values(world, idxs, mk.split("."))
        if st == "skip":
            mapping_ok = False
        if mv and mapping_ok:
            st2, _vals = key_values(world, idxs, mv.split("."))
            mapping_ok = st2 != "skip"
    if mapping_ok:
        keys_py = None
        try:
            keys_py = list(lst.keys())
            iv = {"keys": [None if k is None else world.enc(k) for k in keys_py]}
        except Unsupported:
            iv = None
        except Exception as e:  # noqa: BLE001
            iv = canon_exc(e)
        if iv is not None:
            ops.append({"k": "keys"})
            impl.append(iv)
            out.hit("listop:keys:" + ("mapping" if mk else "not-a-mapping"))
        probe: list = [ABSENT]
        if keys_py:
            probe += [k for k in keys_py if isinstance(k, str)][:4]
        for k in probe:
            for kind in ("getstr", "get"):
                try:
                    # `get` with a private default: a stored value of None (e.g. an attribute without value) must not be
                    # mistaken for "no such key"
                    v = lst[k] if kind == "getstr" else lst.get(k, _NO_SUCH_KEY)
                    iv = {"v": None if v is _NO_SUCH_KEY else world.enc(v)}
                    if kind == "get" and (lst.get(k) is None) != (v is _NO_SUCH_KEY or v is None):
                        bad("mapping|get-default", f"get({k!r}) without default disagrees with get({k!r}, default)")
                except Unsupported:
                    continue
                except Exception as e:  # noqa: BLE001
                    iv = canon_exc(e)
                ops.append({"k": kind, "key": {"s": k}})
                impl.append(iv)
                out.hit(f"listop:{kind}:" + ("raises" if "err" in iv else "ok"))
                # monitor: lookups promise a single result
                if mk and keys_py is not None and all(p for p, _ in keyvals):
                    cnt = sum(1 for kk in keys_py if kk == k)
                    if cnt == 1 and "err" in iv:
                        bad("mapping|unique-key-raises", f"lst[{k!r}] raised {iv['err']} although exactly one element has that key")
                    if cnt == 0 and iv != ({"err": "KeyError"} if kind == "getstr" else {"v": None}):
                        bad("mapping|absent-key", f"{kind}({k!r}) with no such key gave {iv}")
                    if cnt > 1 and "err" not in iv:
                        bad("mapping|ambiguous-key-answers", f"{kind}({k!r}) answered although {cnt} elements have that key")
    req = {"op": "listops", "list": idxs, "cls": list_class(lst), "ops": ops}
    if mk:
        req["mapkey"] = mk.split(".")
    if mv:
        req["mapvalue"] = mv.split(".")
    return {"req": req, "impl": impl, "rep": rep}


_NO_SUCH_KEY = object()


def common_sha(obj) -> str:
    import common

    return common.sha({k: v for k, v in obj.items() if not k.startswith("_")})


def mapping_lists(model, rng, limit: int) -> list:
    """Real lists that act as mappings (accessors declared with mapkey=...), found by reflection."""
    from capellambse.model import _descriptors as D
    from capellambse.model import _obj

    found = []
    objs = [o for o in model.search() if type(o).__name__ != "Diagram"]
    rng.shuffle(objs)
    for o in objs:
        for n in dir(type(o)):
            acc = getattr(type(o), n, None)
            if not isinstance(acc, D.Accessor):
                continue
            if "mapkey" not in (getattr(acc, "list_extra_args", None) or {}):
                continue
            try:
                v = getattr(o, n)
            except Exception:  # noqa: BLE001
                continue
            if isinstance(v, _obj.ElementList) and len(v) >= 1:
                found.append((v, {"list": "attr", "of": o.uuid, "attr": n}))
                if len(found) >= limit:
                    return found
    return found


def check_lists(ctx, out, model, label: str, state: str, lreqs: list, only: dict | None = None) -> None:
    from capellambse.model import ElementList, _model

    rng = ctx.rng
    full = model.search()
    xts = sorted({e.get("{http://www.w3.org/2001/XMLSchema-instance}type") for e in full._elements} - {None})
    lists: list = []
    n = len(full)
    if n:
        k = rng.randrange(max(1, n - 30))
        lists.append((full[k:k + rng.randint(5, 30)], {"list": "search()", "slice": k}))
        lists.append((model.search(*rng.sample(xts, min(len(xts), 3)))[:25], {"list": "search-multi"}))
    for xt in rng.sample(xts, min(len(xts), ctx.pick(3, 10))):
        r = model.search(xt)
        if len(r):
            lists.append((r[:30], {"list": "search", "type": xt}))
    objs = [o for o in full if type(o).__name__ != "Diagram"]
    done = 0
    for o in rng.sample(objs, min(len(objs), ctx.pick(30, 200))):
        attrs = list(_model._reference_attributes(type(o)))
        rng.shuffle(attrs)
        for a in attrs[:3]:
            try:
                v = getattr(o, a)
            except Exception:  # noqa: BLE001
                continue
            if isinstance(v, ElementList) and 2 <= len(v) <= 40:
                lists.append((v, {"list": "attr", "of": o.uuid, "attr": a}))
                done += 1
        if done >= ctx.pick(4, 25):
            break
    lists += mapping_lists(model, rng, ctx.pick(3, 12))
    prev = None
    for lst, origin in lists:
        if len(lst) == 0:
            continue
        world = World()
        org = dict(origin)
        org["_other"] = prev if prev is not None and prev._model is lst._model else None
        res = run_ops(ctx, out, world, lst, org, label, state, rng)
        if res is None:
            # a view list (reqif RelationsList: stores relation elements, hands out the objects at their other end) is
            # not used as the right-hand operand of the next list's `+`/`-`/`in` either: its items are not its elements
            out.hit("listop:view-list-skipped")
            continue
        prev = lst
        res["req"]["objs"] = world.objs
        res["keep"] = world.keep
        res["rep"]["origin"] = {k: v for k, v in origin.items() if not k.startswith("_")}
        lreqs.append(res)
