"""Translator for the comparison sites of the diagram geometry code (property C17).

A small AST pass over the live sources under `common.REPO` (`capellambse/diagram/_diagram.py`, `_vector2d.py`,
`aird/_edge_factories.py`, `_box_factories.py`, `_common.py`): every comparison (`<`, `<=`, `>`, `>=`, `==`, `!=`, each link of a
chain separately), every `math.isclose(...)`, every `.closestaxis()`, every `min(...)`/`max(...)` and every truth test of a
bare expression (`if axis.x:`, `direction.x or direction.y`, `not axis.x`) is dumped with the function it occurs in, its
operands as source text and the tolerance it carries (none / the `isclose` defaults / the literal `tol` / `abs_tol`).
`coord` says whether an operand is a computed coordinate (syntactic test, see `COORD`); sites that are not are emitted too
(`coord := false`), never dropped.  Line numbers are NOT part of a row: the hand-written classification
(`Model/GeomSites.lean: classify`) keys on (function, operator, operands), so unrelated edits do not invalidate it, while a new
or changed comparison of coordinates has no class and fails the kernel-checked obligation `all_classified` below.
"""

from __future__ import annotations

import ast
import re

import common
from gen_tables import lean_str

FILES = [
    ("capellambse/diagram/_diagram.py", "diagram"),
    ("capellambse/diagram/_vector2d.py", "vector2d"),
    ("capellambse/aird/_edge_factories.py", "edge_factories"),
    ("capellambse/aird/_box_factories.py", "box_factories"),
    ("capellambse/aird/_common.py", "common"),
]
OPS = {ast.Lt: "<", ast.LtE: "<=", ast.Gt: ">", ast.GtE: ">=", ast.Eq: "==", ast.NotEq: "!="}
COORD = re.compile(
    r"(\.x\b|\.y\b|\bpos\b|size|point|angle|alpha|delta\b|\bdist\b|seglen|edist|min[xy]\b|max[xy]\b|width|height|length|direction|"
    r"center|endpoint|snapside|bendpoints\[|\bb\b|newsize|distance|half_length|bounds|\bd\b|\bi\.[xy]|\bi\[0\]|refpoint|new_length)")
NOT_COORD = re.compile(r"(\bNone\b|^['\"]|len\(|\.tag\b|\.get\(|attrib|isinstance|\.styleclass|xmt|_type\b|stacking_mode|\bnumpoints\b|features|\.value\b)")


def tol_of(call: ast.Call) -> str:
    kw = {k.arg: ast.unparse(k.value) for k in call.keywords}
    return "rel=" + kw.get("rel_tol", "1e-09") + ",abs=" + kw.get("abs_tol", "0")


def sites_of(path: str, short: str) -> list[dict]:
    tree = ast.parse((common.REPO / path).read_text())
    rows: list[dict] = []

    def is_coord(*texts: str) -> bool:
        if any(NOT_COORD.search(t) for t in texts):
            return False
        return any(COORD.search(t) for t in texts)

    def add(func: str, op: str, lhs: str, rhs: str, tol: str = "none") -> None:
        lhs, rhs = " ".join(lhs.split()), " ".join(rhs.split())
        row = {"file": short, "func": func, "op": op, "lhs": lhs, "rhs": rhs, "tol": tol, "coord": is_coord(lhs, rhs)}
        if row not in rows:
            rows.append(row)

    def truth(func: str, node: ast.AST) -> None:
        """a bare attribute / name / subscript used as a condition"""
        if isinstance(node, ast.BoolOp):
            for v in node.values:
                truth(func, v)
        elif isinstance(node, ast.UnaryOp) and isinstance(node.op, ast.Not):
            truth(func, node.operand)
        elif isinstance(node, (ast.Attribute, ast.Subscript)):
            add(func, "truthy", ast.unparse(node), "")

    def visit(node: ast.AST, func: str) -> None:
        for child in ast.iter_child_nodes(node):
            name = func
            if isinstance(child, (ast.FunctionDef, ast.AsyncFunctionDef, ast.ClassDef)):
                name = f"{func}.{child.name}" if func else child.name
            if isinstance(child, ast.Compare):
                left = child.left
                for op, right in zip(child.ops, child.comparators):
                    if type(op) in OPS:
                        lt, rt = ast.unparse(left), ast.unparse(right)
                        tol = "none"
                        m = re.search(r"[-+] (tol|1e-0?\d+)\b", lt + " " + rt)
                        if m or re.fullmatch(r"1e-0?\d+", rt):
                            tol = "abs=" + (m.group(1) if m else rt)
                        add(func, OPS[type(op)], lt, rt, tol)
                    left = right
            elif isinstance(child, ast.Call):
                fn = ast.unparse(child.func)
                if fn == "math.isclose" and len(child.args) >= 2:
                    add(func, "isclose", ast.unparse(child.args[0]), ast.unparse(child.args[1]), tol_of(child))
                elif fn.endswith(".closestaxis"):
                    add(func, "closestaxis", fn[: -len(".closestaxis")], "")
                elif fn in ("min", "max") and child.args:
                    add(func, fn, ast.unparse(child.args[0]), ", ".join(ast.unparse(a) for a in child.args[1:]) +
                        ("" if not child.keywords else " key=" + ast.unparse(child.keywords[0].value)))
            elif isinstance(child, (ast.If, ast.IfExp, ast.While, ast.Assert)):
                truth(func, child.test)
            visit(child, name)

    visit(tree, "")
    return rows


def generate():
    rows: list[dict] = []
    for path, short in FILES:
        rows += sites_of(path, short)
    chunks = [rows[i:i + 60] for i in range(0, len(rows), 60)]
    out = ["/- GENERATED by harness/gen_geomcmp.py from the live sources of /repo — do not edit. -/",
           "import Capella.Model.GeomSites",
           "namespace Capella.Gen.GeomCmp",
           "open Capella.Geom",
           ""]
    for k, ch in enumerate(chunks):
        out.append(f"def sites{k} : List CmpSite := [")
        out.append(",\n".join(
            f"  ⟨{lean_str(r['file'])}, {lean_str(r['func'])}, {lean_str(r['op'])}, {lean_str(r['lhs'])}, {lean_str(r['rhs'])}, "
            f"{lean_str(r['tol'])}, {'true' if r['coord'] else 'false'}⟩" for r in ch))
        out.append("]")
        out.append(f"/-- every comparison of computed coordinates in this chunk has a class in `Model/GeomSites.lean` -/")
        out.append(f"theorem classified{k} : sites{k}.all (fun s => !s.coord || classified s) = true := by decide +kernel")
        out.append("")
    out.append("def sites : List CmpSite := " + " ++ ".join(f"sites{k}" for k in range(len(chunks))))
    out.append("")
    out.append("theorem all_classified' : sites.all (fun s => !s.coord || classified s) = true := by")
    out.append("  unfold sites")
    out.append("  simp only [List.all_append, " + ", ".join(f"classified{k}" for k in range(len(chunks))) + ", Bool.and_self]")
    out.append("")
    out.append("/-- every comparison of computed coordinates in the five source files has a class -/")
    out.append("theorem all_classified : ∀ s ∈ sites, s.coord = true → classified s = true := by")
    out.append("  intro s hs hc")
    out.append("  have := List.all_eq_true.mp all_classified' s hs")
    out.append("  simpa [hc] using this")
    out.append("")
    out.append("/-- the declared ties of the robustness statement, computed from the live table -/")
    out.append("def declaredJumps : List String := jumpNames sites")
    out.append("")
    out.append("end Capella.Gen.GeomCmp")
    info = {"sites": len(rows), "coordinate_sites": sum(1 for r in rows if r["coord"]),
            "by_file": {short: sum(1 for r in rows if r["file"] == short and r["coord"]) for _, short in FILES}}
    return [("GeomCmp.lean", "\n".join(out) + "\n", info)]


if __name__ == "__main__":
    import json
    import sys

    for _, content, info in generate():
        print(json.dumps(info))
        if "-v" in sys.argv:
            for r in [r for p, s in FILES for r in sites_of(p, s)]:
                if r["coord"]:
                    print(f"{r['file']:15} {r['func']:40} {r['op']:11} {r['lhs'][:50]:50} | {r['rhs'][:50]:50} {r['tol']}")
