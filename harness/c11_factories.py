"""C11 — correspondence stream `parse`: the element loop of `aird.parse_diagram` on corpus diagrams vs. the Lean
programs of `Capella/Model/Factories.lean` (helper of harness/props/c11.py).

The exporter contains no factory logic: it writes the complete subtree of the diagram (diagram elements and the
notation data), the semantic elements the diagram references with their descendants to a fixed depth, and whatever
those link to (two hops), as one arena of nodes.  The implementation side is `aird.parse_diagram` with the filter
phase (`_filters.applyfilters`) switched off, observed element by element (`hidden` is the flag the factory set,
`_hidden`; the public property also looks at parents and edge ends, which is diagram-object logic).
"""

from __future__ import annotations

import re

XMI = "{http://www.omg.org/XMI}"
XSI = "{http://www.w3.org/2001/XMLSchema-instance}"
LINK = re.compile(r"#?([0-9a-fA-F]{8}-[0-9a-fA-F]{4}-[0-9a-fA-F]{4}-[0-9a-fA-F]{4}-[0-9a-fA-F]{12}|_[A-Za-z0-9_-]{20,})")


def key(k: str) -> str:
    if k.startswith(XMI):
        return "xmi:" + k[len(XMI):]
    if k.startswith(XSI):
        return "xsi:" + k[len(XSI):]
    return k.split("}")[-1]


class Arena:
    def __init__(self, loader):
        self.loader = loader
        self.nodes: list[dict] = []
        self.index: dict[int, int] = {}
        self.keep: list = []          # keeps the lxml proxies alive (id() is the identity used here)

    def add(self, e, depth: int) -> int:
        """Add `e` and its descendants down to `depth` (None = all). Returns its index."""
        if id(e) in self.index:
            i = self.index[id(e)]
            if depth is None or depth > self.nodes[i]["_depth"]:
                self.nodes[i]["_depth"] = 10 ** 6 if depth is None else depth
                self._kids(e, i, depth)
            return i
        i = len(self.nodes)
        self.index[id(e)] = i
        self.keep.append(e)
        par = e.getparent()
        self.nodes.append({
            "tag": e.tag if isinstance(e.tag, str) else "#comment",
            "attrs": [[key(k), v] for k, v in e.attrib.items()],
            "kids": [], "parent": None, "text": e.text, "_depth": -1, "_par": par,
        })
        self.nodes[i]["_depth"] = 10 ** 6 if depth is None else depth
        self._kids(e, i, depth)
        return i

    def _kids(self, e, i: int, depth) -> None:
        if depth is not None and depth <= 0:
            return
        kids = []
        for c in e:
            if not isinstance(c.tag, str):
                continue
            kids.append(self.add(c, None if depth is None else depth - 1))
        self.nodes[i]["kids"] = kids

    def finish(self) -> list[dict]:
        for n in self.nodes:
            par = n.pop("_par")
            n.pop("_depth")
            n["parent"] = self.index.get(id(par)) if par is not None else None
        return self.nodes

    def links_of(self, i: int) -> list[str]:
        out = []
        for k, v in self.nodes[i]["attrs"]:
            if k in ("id", "uid", "xmi:id", "name", "description", "summary"):
                continue
            for m in LINK.finditer(v):
                out.append(m.group(1))
        t_ = self.nodes[i]["text"]
        if t_ and "href=" in t_:
            for m in LINK.finditer(t_):
                out.append(m.group(1))
        return out


def export_diagram(loader, descriptor) -> dict | None:
    """The request for the Lean driver: arena, index of the diagram tree, indices of the data elements in document order."""
    from capellambse import aird, helpers
    from capellambse.aird import _common as C

    dd = aird._build_descriptor(loader, descriptor)
    dgtree = loader.follow_link(loader.trees[dd.fragment].root, dd.uid)
    treedata = helpers.xpath_fetch_unique(C.XP_ANNOTATION_ENTRIES, dgtree, "data", dgtree.attrib["uid"])
    ar = Arena(loader)
    dt = ar.add(dgtree, None)
    data = [ar.index[id(e)] for e in treedata.iterdescendants("children", "edges")]
    # semantic closure: hop 0 = referenced by the diagram (depth 3), hop 1 (depth 2), hop 2 (attributes only)
    frontier = list(range(len(ar.nodes)))
    for depth in (3, 2, 0):
        todo = []
        for i in frontier:
            todo += ar.links_of(i)
        before = len(ar.nodes)
        for ident in dict.fromkeys(todo):
            try:
                e = loader[ident] if not ident.startswith("#") else loader[ident]
            except Exception:  # noqa: BLE001  (dangling link: the model answers `none` as well)
                continue
            if id(e) in ar.index and ar.nodes[ar.index[id(e)]]["_depth"] >= depth:
                continue
            ar.add(e, depth)
        frontier = list(range(before, len(ar.nodes)))
    return {"op": "parse", "nodes": ar.finish(), "dtree": dt, "data": data}


def observe(loader, descriptor) -> dict:
    """`aird.parse_diagram` without the filter phase, element by element."""
    from capellambse import aird, diagram
    from capellambse.aird import _filters

    saved = _filters.applyfilters
    aird._filters.applyfilters = lambda args: None
    try:
        try:
            dg = aird.parse_diagram(loader, descriptor)
        except Exception as e:  # noqa: BLE001
            return {"error": type(e).__name__, "elems": []}
    finally:
        aird._filters.applyfilters = saved
    elems = []
    for el in dg:
        if isinstance(el, diagram.Box):
            feats = el.features
            elems.append({
                "uid": el.uuid, "box": True, "sc": el.styleclass,
                "label": el.label if isinstance(el.label, str) else None,
                "labels": [b.label for b in el.floating_labels],
                "features": None if feats is None else [str(x) for x in feats],
                "symbol": getattr(el, "JSON_TYPE", "box") in ("symbol", "box_symbol"),
                "port": bool(el.port), "hidden": bool(el._hidden), "hidelabel": bool(getattr(el, "hidelabel", False)),
                "parent": el.parent.uuid if el.parent is not None else None,
            })
        else:
            elems.append({
                "uid": el.uuid, "box": False, "sc": el.styleclass, "label": "",
                "labels": [b.label for b in el.labels], "features": None, "symbol": False, "port": False,
                "hidden": bool(el._hidden), "hidelabel": bool(getattr(el, "hidelabel", False)), "parent": None,
            })
    return {"error": None, "elems": elems}


MARKUP = re.compile(r"[<>&]")


def canon_model(results: list[dict]) -> dict:
    """Model answer in the shape of `observe`: drawn elements in order, `feats` applied to the parent drawn earlier."""
    elems: list[dict] = []
    err = None
    for r in results:
        if r["r"] == "drawn":
            elems.append({k: r[k] for k in ("uid", "box", "sc", "label", "labels", "features", "symbol", "port", "hidden",
                                            "hidelabel", "parent")})
        elif r["r"] == "feats":
            for e in elems:
                if e["uid"] == r["parent"]:
                    e["features"] = r["features"]
        elif r["r"] == "error":
            err = r["why"]
    return {"error": err, "elems": elems}


def compare(out, label: str, duid: str, impl: dict, mod: dict) -> None:
    """Element by element; texts that go through libxml2's HTML parser in the implementation (specification bodies,
    ReqIFText) are compared only when they contain no markup."""
    if (impl["error"] is None) != (mod["error"] is None):
        out.disagree("parse", {"model": label, "diagram": duid}, {"error": impl["error"]}, {"error": mod["error"]})
        return
    if impl["error"] is not None:
        out.hit("parse:both-error")
        return
    iu = [e["uid"] for e in impl["elems"]]
    mu = [e["uid"] for e in mod["elems"]]
    if iu != mu:
        only_i = [u for u in iu if u not in mu][:3]
        only_m = [u for u in mu if u not in iu][:3]
        out.disagree("parse", {"model": label, "diagram": duid, "what": "drawn elements"},
                     {"n": len(iu), "only_impl": only_i}, {"n": len(mu), "only_model": only_m})
        return
    for a, b in zip(impl["elems"], mod["elems"]):
        out.hit("parse:" + ("box" if a["box"] else "edge") + ":" + str(a["sc"]))
        for k in ("box", "sc", "symbol", "port", "hidden", "hidelabel", "parent", "label", "labels", "features"):
            va, vb = a[k], b[k]
            if k in ("label", "labels", "features") and va != vb:
                txt = " ".join([vb] if isinstance(vb, str) else (vb or []))
                if MARKUP.search(txt) or "\n" in txt:
                    out.hit("parse:text-through-html-parser-not-compared")
                    continue
            if va != vb:
                out.disagree("parse", {"model": label, "diagram": duid, "uid": a["uid"], "field": k, "sc": a["sc"]}, va, vb)
                break
