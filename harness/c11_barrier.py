"""C11 — run-time write barrier and access recorder for lxml model trees (helper of harness/props/c11.py).

`install()` makes every model loaded afterwards use a Python subclass of `lxml.etree.ElementBase` for its
elements (through the `XMLParser` the loader instantiates), whose mutators (`set`, `append`, `insert`, `remove`,
`extend`, `clear`, `addnext`, `addprevious`, `replace`, item assignment/deletion, `text`/`tail` assignment, and
every mutator of the `attrib` mapping) append to `WRITES` before delegating to lxml.  A write that is undone
before the next digest is therefore seen as well.

With `RECORD["on"]` the read accessors are recorded too, attributed to the innermost function of the
`capellambse.aird` package on the call stack: `(function id, receiver kind, operation, key)` in the vocabulary
of `harness/gen_effects.py`, so that what the parser *does* can be compared with what the generated effect
table *says* it does.
"""

from __future__ import annotations

import sys

from lxml import etree

WRITES: list[tuple[str, object, object]] = []     # (operation, element, key)
ACCESSES: dict[tuple, int] = {}                    # (fid, recv, op, key) -> count
RECORD = {"on": False}

_E = etree._Element
_attrib_get = _E.attrib.__get__
_text = _E.text
_tail = _E.tail
_tag = _E.tag
_AIRD = "/capellambse/aird/"
_LOADER = "/capellambse/loader/"


def _fid(code) -> str:
    fn = code.co_filename
    rel = fn[fn.index(_AIRD) + len(_AIRD):]
    mod = rel[:-3].replace("/", ".")
    if mod == "__init__":
        mod = "aird"
    elif mod.endswith(".__init__"):
        mod = mod[:-9]
    q = getattr(code, "co_qualname", code.co_name).replace(".<locals>", "")
    for suffix in (".<genexpr>", ".<listcomp>", ".<setcomp>", ".<dictcomp>", ".<lambda>"):
        while q.endswith(suffix):
            q = q[: -len(suffix)]
    return f"{mod}:{q}"


def _note(recv: str, op: str, key) -> None:
    """Attribute a read to the innermost aird function on the stack (if any)."""
    f = sys._getframe(2)
    below = None   # the frame directly called by the aird frame, if the access did not come from aird itself
    depth = 0
    while f is not None and depth < 60:
        fn = f.f_code.co_filename
        if _AIRD in fn:
            fid = _fid(f.f_code)
            if below is None:
                k = (fid, recv, op, "*" if key is None else str(key))
            else:
                bfn = below.f_code.co_filename
                name = below.f_code.co_name
                if _LOADER in bfn:
                    k = (fid, "loader", "follow", "[]" if name == "__getitem__" else name)
                elif bfn.endswith("/capellambse/helpers.py"):
                    k = (fid, "*", "escape", "helpers." + name)
                else:
                    k = (fid, "*", "escape", bfn.rsplit("/", 1)[-1][:-3] + "." + name)
            ACCESSES[k] = ACCESSES.get(k, 0) + 1
            return
        below = f
        f = f.f_back
        depth += 1


class AttribProxy:
    """Stands in for `elem.attrib`: same reads, logged writes."""

    __slots__ = ("_a", "_e")

    def __init__(self, a, e):
        self._a = a
        self._e = e

    # reads
    def __getitem__(self, k):
        if RECORD["on"]:
            _note("attrib", "index", k)
        return self._a[k]

    def get(self, k, d=None):
        if RECORD["on"]:
            _note("attrib", "get", k)
        return self._a.get(k, d)

    def __contains__(self, k):
        if RECORD["on"]:
            _note("attrib", "get", k)
        return k in self._a

    def __iter__(self):
        if RECORD["on"]:
            _note("attrib", "iter", None)
        return iter(self._a)

    def __len__(self):
        return len(self._a)

    def __bool__(self):
        return len(self._a) > 0

    def keys(self):
        if RECORD["on"]:
            _note("attrib", "iter", None)
        return self._a.keys()

    def values(self):
        if RECORD["on"]:
            _note("attrib", "iter", None)
        return self._a.values()

    def items(self):
        if RECORD["on"]:
            _note("attrib", "iter", None)
        return self._a.items()

    def has_key(self, k):
        return k in self._a

    def iterkeys(self):
        return self._a.iterkeys()

    def itervalues(self):
        return self._a.itervalues()

    def iteritems(self):
        return self._a.iteritems()

    def __eq__(self, o):
        return dict(self._a) == dict(o)

    def __ne__(self, o):
        return not self.__eq__(o)

    def __repr__(self):
        return repr(self._a)

    def __copy__(self):
        return dict(self._a)

    def __deepcopy__(self, memo):
        return dict(self._a)

    # writes
    def __setitem__(self, k, v):
        WRITES.append(("attrib.store", self._e, k))
        self._a[k] = v

    def __delitem__(self, k):
        WRITES.append(("attrib.del", self._e, k))
        del self._a[k]

    def pop(self, *a):
        WRITES.append(("attrib.pop", self._e, a[0] if a else None))
        return self._a.pop(*a)

    def update(self, *a, **k):
        WRITES.append(("attrib.update", self._e, None))
        return self._a.update(*a, **k)

    def clear(self):
        WRITES.append(("attrib.clear", self._e, None))
        return self._a.clear()


class Traced(etree.ElementBase):
    # ---- writes
    @property
    def attrib(self):
        return AttribProxy(_attrib_get(self), self)

    def set(self, k, v):
        WRITES.append(("set", self, k))
        return _E.set(self, k, v)

    def append(self, c):
        WRITES.append(("append", self, getattr(c, "tag", None)))
        return _E.append(self, c)

    def insert(self, i, c):
        WRITES.append(("insert", self, getattr(c, "tag", None)))
        return _E.insert(self, i, c)

    def remove(self, c):
        WRITES.append(("remove", self, getattr(c, "tag", None)))
        return _E.remove(self, c)

    def extend(self, c):
        WRITES.append(("extend", self, None))
        return _E.extend(self, c)

    def clear(self, *a, **k):
        WRITES.append(("clear", self, None))
        return _E.clear(self, *a, **k)

    def addnext(self, c):
        WRITES.append(("addnext", self, getattr(c, "tag", None)))
        return _E.addnext(self, c)

    def addprevious(self, c):
        WRITES.append(("addprevious", self, getattr(c, "tag", None)))
        return _E.addprevious(self, c)

    def replace(self, a, b):
        WRITES.append(("replace", self, getattr(b, "tag", None)))
        return _E.replace(self, a, b)

    def __setitem__(self, i, v):
        WRITES.append(("setitem", self, None))
        return _E.__setitem__(self, i, v)

    def __delitem__(self, i):
        WRITES.append(("delitem", self, None))
        return _E.__delitem__(self, i)

    def _set_text(self, v):
        WRITES.append(("text", self, None))
        _text.__set__(self, v)

    def _get_text(self):
        if RECORD["on"]:
            _note("xml", "field", "text")
        return _text.__get__(self)

    text = property(_get_text, _set_text)

    def _set_tail(self, v):
        WRITES.append(("tail", self, None))
        _tail.__set__(self, v)

    tail = property(lambda self: _tail.__get__(self), _set_tail)

    def _set_tag(self, v):
        WRITES.append(("tag", self, None))
        _tag.__set__(self, v)

    def _get_tag(self):
        if RECORD["on"]:
            _note("xml", "field", "tag")
        return _tag.__get__(self)

    tag = property(_get_tag, _set_tag)

    # ---- reads (recorded only on request)
    def get(self, k, d=None):
        if RECORD["on"]:
            _note("xml", "get", k)
        return _E.get(self, k, d)

    def iterchildren(self, *a, **k):
        if RECORD["on"]:
            _note("xml", "iter", a[0] if a else k.get("tag"))
        return _E.iterchildren(self, *a, **k)

    def iterdescendants(self, *a, **k):
        if RECORD["on"]:
            _note("xml", "iter", a[0] if a else k.get("tag"))
        return _E.iterdescendants(self, *a, **k)

    def iter(self, *a, **k):
        if RECORD["on"]:
            _note("xml", "iter", a[0] if a else k.get("tag"))
        return _E.iter(self, *a, **k)

    def getparent(self):
        if RECORD["on"]:
            _note("xml", "parent", "getparent")
        return _E.getparent(self)

    def xpath(self, path, **k):
        if RECORD["on"]:
            _note("xml", "xpath", path)
        return _E.xpath(self, path, **k)

    def __iter__(self):
        if RECORD["on"]:
            _note("xml", "iter", None)
        return _E.__iter__(self)

    def __len__(self):
        if RECORD["on"]:
            _note("xml", "iter", None)
        return _E.__len__(self)

    def __getitem__(self, i):
        if RECORD["on"]:
            _note("xml", "index", None if isinstance(i, slice) else i)
        return _E.__getitem__(self, i)


_XMLParser = etree.XMLParser


class TracingXMLParser(_XMLParser):
    def __init__(self, *a, **k):
        super().__init__(*a, **k)
        self.set_element_class_lookup(etree.ElementDefaultClassLookup(element=Traced))


def install() -> None:
    """From now on `etree.XMLParser(...)` (as the loader calls it) yields traced elements."""
    etree.XMLParser = TracingXMLParser


def uninstall() -> None:
    etree.XMLParser = _XMLParser


def describe(w: tuple) -> dict:
    op, e, key = w
    xt = ""
    ident = ""
    try:
        raw = _attrib_get(e)
        t_ = raw.get("{http://www.w3.org/2001/XMLSchema-instance}type") or raw.get("{http://www.omg.org/XMI}type") or ""
        xt = t_.split(":")[-1] if t_ else str(_tag.__get__(e))
        ident = raw.get("id") or raw.get("{http://www.omg.org/XMI}id") or raw.get("uid") or ""
    except Exception:  # noqa: BLE001
        pass
    k = str(key).split("}")[-1] if key is not None else ""
    return {"op": op, "elem": xt, "id": ident, "key": k}
