"""Judge one independently seeded change of a seeding round and keep it under /verif/seeded/<id>/ when confirmed.

usage: judge_round.py <Cnn> <m1|m2> [--src /tmp/s4/out] [--round 4] [--rejudge]

Runs harness/seedtest.py (scratch worktree of /repo HEAD; demo on clean and mutated tree; pinned suite on the
mutated tree; the property's quick check, then the thorough one when quick misses). A change is kept only if the demo
passed on the clean tree, failed on the mutated tree and the suite passed. `--rejudge` re-runs the checks for a change
that is already kept (skips the suite) and updates its meta.json, keeping `first_pass`.
"""
import json
import pathlib
import shutil
import subprocess
import sys

VERIF = pathlib.Path(__file__).resolve().parent.parent


def main():
    args = [a for a in sys.argv[1:] if not a.startswith("--")]
    opts = {}
    argv = sys.argv[1:]
    for i, a in enumerate(argv):
        if a in ("--src", "--round"):
            opts[a] = argv[i + 1]
    args = [a for a in args if a not in opts.values()]
    prop, mi = args[0], args[1]
    rnd = int(opts.get("--round", 4))
    name = f"{prop}-r{rnd}{mi}"
    dst = VERIF / "seeded" / name
    rejudge = "--rejudge" in sys.argv
    src = dst if rejudge else pathlib.Path(opts.get("--src", "/tmp/s4/out")) / prop / mi
    patch, demo = src / "patch.diff", src / "demo.py"
    if not patch.exists() or not demo.exists():
        print(json.dumps({"id": name, "error": "no patch/demo"}))
        return 1
    cmd = ["/venv/bin/python", str(VERIF / "harness" / "seedtest.py"), prop, str(patch), str(demo), "--thorough"]
    if rejudge:
        cmd.append("--skip-suite")
    p = subprocess.run(cmd, capture_output=True, text=True, cwd=VERIF)
    try:
        r = json.loads(p.stdout)
    except ValueError:
        print(json.dumps({"id": name, "error": "seedtest: " + (p.stdout + p.stderr)[-800:]}))
        return 1
    ok = (r.get("demo_clean", {}).get("rc") == 0 and r.get("demo_mutated", {}).get("rc") not in (0, None)
          and r.get("suite", {}).get("rc", 0) == 0 and not r.get("error"))
    checks = {}
    for k, v in r.get("checks", {}).items():
        checks[k] = {"exit": v["rc"], "wall_s": v["wall_s"],
                     "signatures": [x.get("signature") or ("no-failing-input-found: " + str(x.get("broken_correspondence_streams") or x.get("broken_proof_obligations")))
                                    for x in v.get("replays", [])][:3]}
        if v["rc"] not in (0, 1):
            checks[k]["tail"] = v.get("tail", "")[-600:]
    caught = [k for k, v in r.get("checks", {}).items() if v["rc"] == 1]
    summary = {"id": name, "confirmed": ok, "caught_by": caught[0] if caught else None, "checks": checks,
               "demo": [r.get("demo_clean", {}).get("rc"), r.get("demo_mutated", {}).get("rc")], "suite": r.get("suite", {}).get("rc"),
               "error": r.get("error"), "rebased": r.get("rebased")}
    if not ok:
        summary["detail"] = {k: r.get(k) for k in ("demo_clean", "demo_mutated", "suite")}
        print(json.dumps(summary, indent=1))
        return 1
    if rejudge:
        meta = json.loads((dst / "meta.json").read_text())
        meta["checks"] = checks
        meta["caught_by"] = caught[0] if caught else None
    else:
        dst.mkdir(parents=True, exist_ok=True)
        shutil.copy(patch, dst / "patch.diff")
        shutil.copy(demo, dst / "demo.py")
        try:
            seeder = json.loads((src / "meta.json").read_text())
        except Exception:  # noqa: BLE001
            seeder = {}
        meta = {
            "id": name, "property": prop, "round": rnd,
            "title": seeder.get("title"), "files": seeder.get("files"),
            "what_it_breaks": seeder.get("what_it_breaks"),
            "needs_to_manifest": seeder.get("needs_to_manifest"),
            "why_tests_miss_it": seeder.get("why_tests_miss_it"),
            "confirmed": {"demo_on_clean_tree": "PASS (exit 0)", "demo_on_mutated_tree": f"FAIL (exit {r['demo_mutated']['rc']})",
                          "pinned_suite_on_mutated_tree": "818/818 stable tests pass"},
            "what_i_ran": f"harness/judge_round.py {prop} {mi} -> harness/seedtest.py {prop} patch.diff demo.py --thorough (scratch worktree of /repo HEAD, VERIF_REPO/VERIF_LEAN/VERIF_OUT)",
            "checks": checks,
            "caught_by": caught[0] if caught else None,
            "first_pass": caught[0] if caught else "missed",
        }
    (dst / "meta.json").write_text(json.dumps(meta, indent=1) + "\n")
    print(json.dumps(summary, indent=1))
    return 0


if __name__ == "__main__":
    sys.exit(main())
