"""Shared machinery of the /verif checks.

Flow of one check (DESIGN.md §2.4):
  1. regenerate Gen/ tables from /repo, `lake build` the property's theorems, audit axioms/tokens
  2. run the property module: cases -> implementation vs. Lean model (correspondence) and the
     implementation-side monitor (direct encoding of the property; the failing-input search)
  3. verdict: known findings are announced, unknown failing inputs are VIOLATIONs with a replay,
     a broken proof/correspondence without failing input is a VIOLATION ... no-failing-input-found
"""

from __future__ import annotations

import dataclasses
import hashlib
import json
import os
import pathlib
import random
import re
import shutil
import subprocess
import sys
import tempfile
import time
import typing as t

VERIF = pathlib.Path(__file__).resolve().parent.parent
LEAN = pathlib.Path(os.environ.get("VERIF_LEAN") or (VERIF / "lean"))  # VERIF_LEAN: scratch copy used when judging a mutated tree
REPO = pathlib.Path(os.environ.get("VERIF_REPO", "/repo"))
PY = "/venv/bin/python"

ALLOWED_AXIOMS = {"propext", "Classical.choice", "Quot.sound"}
FORBIDDEN = re.compile(
    r"\b(sorry|admit|native_decide|bv_decide|implemented_by|unsafe)\b|^\s*axiom\s|maxHeartbeats\s+0\b"
)

TRUSTED_BASE = [
    "Lean 4.33.0 kernel (re-checked by leanchecker in the thorough tier)",
    "axioms: subset of {propext, Classical.choice, Quot.sound}, audited with #print axioms on every run; no native_decide, no bv_decide, no sorry",
    "correspondence harness + translator under /verif/harness (differential runs model vs /repo code; generated tables re-read)",
    "CPython, lxml and the other third-party libraries behave as exercised (modelled as parameters, not verified)",
]


class InfraError(Exception):
    """Infrastructure failure -> exit 2, never a VIOLATION."""


class BindingBroken(BaseException):   # not an `Exception`: the broad `except Exception` blocks that record what the
    # IMPLEMENTATION raised must never swallow a problem of the harness's own bindings
    """The harness can no longer observe a piece of the implementation it is bound to (a private attribute, a private
    function, a module layout).  The implementation may be perfectly right (a harmless refactoring), but the
    correspondence that used the binding no longer checks: by the verdict rule (DESIGN §2.4) that is a broken
    correspondence - searched for a failing input, reported as `no-failing-input-found` when none is found - never a
    crash of the check."""


def find_private(obj, mangled: str, pred=None, hints: tuple[str, ...] = ()) -> str:
    """Name of a private attribute of an implementation object the harness is bound to.

    `mangled` is the name as of the pinned commit (e.g. `_ZipFileHandler__file`).  When it no longer exists (a harmless
    rename), the attribute is looked for among the object's other private attributes (instance `__dict__`, `__slots__`,
    and - for callables - the class namespaces): exactly one whose value satisfies `pred`, narrowed by `hints`
    (substrings of the new name) when several do.  Raises `BindingBroken` when it cannot be identified."""
    if hasattr(obj, mangled):
        return mangled
    names: list[str] = []
    seen = set()
    spaces = [getattr(obj, "__dict__", {})]
    klass = obj if isinstance(obj, type) else type(obj)
    for k in klass.__mro__:
        spaces.append({n: None for n in (getattr(k, "__slots__", ()) or ()) if isinstance(n, str)})
        spaces.append(vars(k))
    for sp in spaces:
        for n in sp:
            if n in seen or not n.startswith("_") or n.startswith("__") and n.endswith("__"):
                continue
            seen.add(n)
            try:
                v = getattr(obj, n)
            except Exception:  # noqa: BLE001 - unset slot
                continue
            if pred is None or pred(v):
                names.append(n)
    if len(names) > 1 and hints:
        narrowed = [n for n in names if any(h in n.lower() for h in hints)]
        if narrowed:
            names = narrowed
    if len(names) == 1:
        return names[0]
    raise BindingBroken(f"{klass.__module__}.{klass.__qualname__}: private attribute {mangled!r} not found "
                        f"(candidates by shape: {names[:6]})")


def get_private(obj, mangled: str, pred=None, hints: tuple[str, ...] = ()):
    return getattr(obj, find_private(obj, mangled, pred, hints))


def set_private(obj, mangled: str, value, pred=None, hints: tuple[str, ...] = ()) -> None:
    setattr(obj, find_private(obj, mangled, pred, hints), value)


def find_function(module, name: str, hints: tuple[str, ...] = ()):
    """a module-private function by its pinned name, else the only callable of the module whose name contains a hint"""
    f = getattr(module, name, None)
    if f is not None:
        return f
    c = [n for n, v in vars(module).items() if callable(v) and any(h in n.lower() for h in hints)]
    if len(c) == 1:
        return getattr(module, c[0])
    raise BindingBroken(f"{module.__name__}: function {name!r} not found (candidates: {c[:6]})")


def binding_error(e: BaseException) -> str | None:
    """If `e` (raised inside HARNESS code) says that an object of the implementation no longer has the shape the
    harness is bound to, describe the binding; else None."""
    if isinstance(e, BindingBroken):
        return str(e)
    if isinstance(e, AttributeError):
        obj = getattr(e, "obj", None)
        mod = getattr(obj, "__module__", None) if isinstance(obj, type) or callable(obj) else type(obj).__module__
        if isinstance(obj, type(sys)):
            mod = obj.__name__
        if isinstance(mod, str) and mod.split(".")[0] == "capellambse":
            what = obj.__name__ if isinstance(obj, type(sys)) else (obj.__qualname__ if isinstance(obj, type) else type(obj).__qualname__)
            return f"{mod}: {what} has no attribute {getattr(e, 'name', '?')!r}"
    if isinstance(e, ImportError) and str(getattr(e, "name", "") or "").split(".")[0] == "capellambse":
        return f"cannot import {e.name}: {e}"
    return None


@dataclasses.dataclass
class Finding:
    """A concrete failing input/history against the real implementation."""

    signature: str  # stable class of failure, matched against known_findings.jsonl
    what: str  # one line for humans
    replay: dict  # self-contained description of the failing case


@dataclasses.dataclass
class Outcome:
    evaluations: int = 0
    distinct: set = dataclasses.field(default_factory=set)
    samples: list = dataclasses.field(default_factory=list)
    disagreements: list = dataclasses.field(default_factory=list)  # model vs impl
    findings: list = dataclasses.field(default_factory=list)  # list[Finding]
    traces_validated: int = 0
    branches: dict = dataclasses.field(default_factory=dict)
    extra: dict = dataclasses.field(default_factory=dict)
    rule: str = ""
    exhaustive: bool = False
    assumptions: list = dataclasses.field(default_factory=list)
    table_obligations: int = 0  # generated-table obligations used (counted by module)

    def case(self, key: t.Any, sample: t.Any = None, nontrivial: bool = True) -> None:
        self.evaluations += 1
        if nontrivial:
            self.distinct.add(
                key if isinstance(key, (str, int, tuple)) else json.dumps(key, sort_keys=True, default=str)
            )
        if sample is not None and len(self.samples) < 6:
            self.samples.append(sample)

    def hit(self, branch: str, n: int = 1) -> None:
        self.branches[branch] = self.branches.get(branch, 0) + n

    def disagree(self, stream: str, case: t.Any, impl: t.Any, model: t.Any) -> None:
        if len(self.disagreements) < 50:
            self.disagreements.append({"stream": stream, "case": case, "impl": impl, "model": model})
        else:
            self.extra["disagreements_dropped"] = self.extra.get("disagreements_dropped", 0) + 1

    def find(self, signature: str, what: str, replay: dict) -> None:
        # keep one (the first = usually smallest) replay per signature, count the rest
        for f in self.findings:
            if f.signature == signature:
                self.extra.setdefault("finding_counts", {})
                self.extra["finding_counts"][signature] = self.extra["finding_counts"].get(signature, 1) + 1
                return
        self.findings.append(Finding(signature, what, replay))


class Ctx:
    def __init__(self, prop: str, tier: str, seed: int):
        self.prop = prop
        self.tier = tier
        self.seed = seed
        self.rng = random.Random(f"{prop}:{seed}")
        self.t0 = time.time()
        self._scratch: pathlib.Path | None = None

    @property
    def thorough(self) -> bool:
        return self.tier == "thorough"

    def pick(self, quick: int, thorough: int) -> int:
        return thorough if self.thorough else quick

    @property
    def scratch(self) -> pathlib.Path:
        if self._scratch is None:
            self._scratch = pathlib.Path(tempfile.mkdtemp(prefix=f"verif-{self.prop}-"))
        return self._scratch

    def cleanup(self) -> None:
        if self._scratch is not None:
            shutil.rmtree(self._scratch, ignore_errors=True)
            self._scratch = None


# --------------------------------------------------------------------------- Lean side


def _run(cmd: list[str], cwd: pathlib.Path, timeout: int = 3600, input: str | None = None) -> subprocess.CompletedProcess:
    env = dict(os.environ)
    env.pop("PYTHONPATH", None)
    return subprocess.run(cmd, cwd=cwd, capture_output=True, text=True, timeout=timeout, input=input, env=env)


_BUILD_LOCK = LEAN / ".build.lock"


def lake_build(targets: list[str]) -> tuple[bool, str]:
    """Incremental build of the given modules (and the driver). Serialised across processes."""
    import fcntl

    with open(_BUILD_LOCK, "w") as lk:
        fcntl.flock(lk, fcntl.LOCK_EX)
        try:
            p = _run(["lake", "build", *targets], LEAN, timeout=3000)
        except subprocess.TimeoutExpired as e:
            raise InfraError(f"lake build timed out: {e}") from None
    log = p.stdout + p.stderr
    return p.returncode == 0, log


def props_file(prop: str) -> pathlib.Path:
    return LEAN / "Capella" / "Props" / f"{prop}.lean"


def strip_comments(src: str) -> str:
    """Remove `--` line comments and (nested) `/- -/` block comments."""
    out = []
    i, depth, n = 0, 0, len(src)
    while i < n:
        if src.startswith("/-", i):
            depth += 1
            i += 2
        elif depth and src.startswith("-/", i):
            depth -= 1
            i += 2
        elif depth:
            if src[i] == "\n":
                out.append("\n")
            i += 1
        elif src.startswith("--", i):
            while i < n and src[i] != "\n":
                i += 1
        else:
            out.append(src[i])
            i += 1
    return "".join(out)


def theorems_in(path: pathlib.Path) -> list[str]:
    """Fully qualified names of the theorems declared in a Props file."""
    src = strip_comments(path.read_text())
    ns: list[str] = []
    names = []
    for line in src.splitlines():
        m = re.match(r"\s*namespace\s+(\S+)", line)
        if m:
            ns.append(m.group(1))
            continue
        m = re.match(r"\s*end\s+(\S+)", line)
        if m and ns and ns[-1] == m.group(1):
            ns.pop()
            continue
        m = re.match(r"\s*(?:@\[[^\]]*\]\s*)?(?:private\s+|protected\s+)?theorem\s+(\S+)", line)
        if m:
            names.append(".".join(ns + [m.group(1)]))
    return names


def imported_modules(prop: str) -> list[pathlib.Path]:
    """Transitive closure of `import Capella.*` from the property file."""
    seen: dict[str, pathlib.Path] = {}
    todo = [f"Capella.Props.{prop}"]
    while todo:
        mod = todo.pop()
        if mod in seen:
            continue
        p = LEAN / (mod.replace(".", "/") + ".lean")
        if not p.exists():
            continue
        seen[mod] = p
        for m in re.finditer(r"^import\s+(Capella\.\S+)", p.read_text(), re.M):
            todo.append(m.group(1))
    return list(seen.values())


def audit(prop: str, scratch: pathlib.Path) -> dict:
    """Forbidden-token grep over the import closure + #print axioms on every property theorem."""
    bad_tokens = []
    files = imported_modules(prop)
    for f in files:
        for ln, line in enumerate(strip_comments(f.read_text()).splitlines(), 1):
            if FORBIDDEN.search(line):
                bad_tokens.append(f"{f.relative_to(LEAN)}:{ln}: {line.strip()[:80]}")
    thms = theorems_in(props_file(prop))
    src = f"import Capella.Props.{prop}\n" + "".join(f"#print axioms {n}\n" for n in thms)
    tmp = scratch / f"axioms_{prop}.lean"
    tmp.write_text(src)
    p = _run(["lake", "env", "lean", str(tmp)], LEAN, timeout=1200)
    out = p.stdout + p.stderr
    axioms: dict[str, list[str]] = {}
    for m in re.finditer(r"'([^']+)' depends on axioms: \[([^\]]*)\]", out):
        axioms[m.group(1)] = [a.strip() for a in m.group(2).replace("\n", " ").split(",") if a.strip()]
    for m in re.finditer(r"'([^']+)' does not depend on any axioms", out):
        axioms[m.group(1)] = []
    bad_axioms = {n: [a for a in ax if a not in ALLOWED_AXIOMS] for n, ax in axioms.items()}
    bad_axioms = {n: a for n, a in bad_axioms.items() if a}
    missing = [n for n in thms if n not in axioms]
    return {
        "theorems": thms,
        "axioms": axioms,
        "bad_axioms": bad_axioms,
        "missing": missing,
        "bad_tokens": bad_tokens,
        "files": [str(f.relative_to(LEAN)) for f in files],
        "raw": out if (missing or p.returncode != 0) else "",
    }


def failing_theorems(log: str) -> list[str]:
    """Names/locations from a failed build log, most specific first."""
    locs = []
    for m in re.finditer(r"error: (Capella/[\w/]+\.lean):(\d+):\d+: (.*)", log):
        path, line, msg = m.group(1), int(m.group(2)), m.group(3)
        name = None
        try:
            src = (LEAN / path).read_text().splitlines()
            for k in range(min(line, len(src)) - 1, -1, -1):
                mm = re.match(r"\s*(?:theorem|def|example|lemma)\s+(\S+)", src[k])
                if mm:
                    name = mm.group(1)
                    break
        except OSError:
            pass
        locs.append(f"{path}:{line} ({name or '?'}) {msg[:120]}")
    return locs


_DRIVER_CACHE: dict[str, t.Any] = {}


def model(lines: list[dict], driver: str = "Path", timeout: int = 3000) -> list[t.Any]:
    """Run the Lean model driver on a batch of protocol lines; returns the decoded answers.

    `driver` names the file Capella/Driver/<driver>.lean (each has its own `main`).
    Answer i is {"ok": value} or {"err": msg}."""
    if not lines:
        return []
    payload = "\n".join(json.dumps(l, ensure_ascii=False, separators=(",", ":")) for l in lines) + "\n"
    try:
        p = _run(["lake", "env", "lean", "--run", f"Capella/Driver/{driver}.lean"], LEAN, timeout=timeout, input=payload)
    except subprocess.TimeoutExpired:
        raise InfraError("model driver timed out") from None
    if p.returncode != 0:
        raise InfraError(f"model driver failed: {p.stderr[-2000:]}")
    outs = [json.loads(l) for l in p.stdout.split("\n") if l.strip()]  # not splitlines(): U+2028/U+0085 may occur inside strings
    if len(outs) != len(lines):
        raise InfraError(f"model driver answered {len(outs)} lines for {len(lines)} requests: {p.stderr[-500:]}")
    return outs


# --------------------------------------------------------------------------- known findings


def load_known() -> list[dict]:
    p = VERIF / "known_findings.jsonl"
    out = []
    if p.exists():
        for line in p.read_text().splitlines():
            line = line.strip()
            if line and not line.startswith("#"):
                out.append(json.loads(line))
    return out


# --------------------------------------------------------------------------- evidence / verdict


def sha(obj: t.Any) -> str:
    return hashlib.sha256(json.dumps(obj, sort_keys=True, default=str).encode()).hexdigest()[:12]


def write_json(path: pathlib.Path, obj: t.Any) -> None:
    path.parent.mkdir(parents=True, exist_ok=True)
    tmp = path.with_suffix(path.suffix + ".tmp")
    tmp.write_text(json.dumps(obj, indent=1, ensure_ascii=False, default=str) + "\n")
    tmp.replace(path)


def source_fingerprint(relpath: str, names: list[str]) -> dict[str, str]:
    """sha of ast.dump (docstrings removed) of the named top-level functions/classes/methods."""
    import ast

    src = (REPO / relpath).read_text()
    tree = ast.parse(src)
    out = {}

    def visit(node, prefix=""):
        for ch in ast.iter_child_nodes(node):
            if isinstance(ch, (ast.FunctionDef, ast.AsyncFunctionDef, ast.ClassDef)):
                q = prefix + ch.name
                if q in names:
                    body = ch.body
                    if body and isinstance(body[0], ast.Expr) and isinstance(getattr(body[0], "value", None), ast.Constant) and isinstance(body[0].value.value, str):
                        ch.body = body[1:] or [ast.Pass()]
                    out[q] = hashlib.sha256(ast.dump(ch).encode()).hexdigest()[:16]
                if isinstance(ch, ast.ClassDef):
                    visit(ch, q + ".")

    visit(tree)
    return out
