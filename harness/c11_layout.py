"""C11, round 4 — schema-legal `.aird` LAYOUT variations for the render-purity monitor.

The shipped test models were all laid out by hand: every `notation:Bounds` has explicit positive sizes, every node is
visible, no compartment is collapsed.  Models saved by Capella routinely contain the GMF sentinels instead.  This module
writes such values into a few nodes of copied corpus diagrams:

* `notation:Bounds` / `notation:Location` of box nodes, ports, notes and edge labels: `width`/`height` = -1 ("preferred
  size"), 0, missing; `x`/`y` = -1, missing; all four missing;
* `visible="false"` on the diagram element, a `HideLabelFilter`, an empty diagram-side `name`;
* collapsed compartments (`notation:DrawerStyle collapsed="true"`, created when the compartment has none);
* empty label text (semantic `name` removed / empty, empty note `description`).

What is picked is decided by `ctx.rng`; WHICH elements are boxes / ports / notes is read off the XML the same way the
parser does (`children` with `element` -> diagram element by `uid`; tag `ownedBorderedNodes` = port; `type="Note"`).
A variation is a small replayable descriptor; `apply_variation` performs it on the lxml tree of a loaded model.
"""

from __future__ import annotations

XMI = "{http://www.omg.org/XMI}"
XMI_ID = XMI + "id"
XMI_TYPE = XMI + "type"

BOUNDS_VARIANTS = {
    "size=-1": {"width": "-1", "height": "-1"},
    "width=-1": {"width": "-1"},
    "height=-1": {"height": "-1"},
    "size=0": {"width": "0", "height": "0"},
    "no-size": {"width": None, "height": None},
    "no-pos": {"x": None, "y": None},
    "pos=-1": {"x": "-1", "y": "-1"},
    "no-bounds-attrs": {"x": None, "y": None, "width": None, "height": None},
}
ELEM_VARIANTS = ("invisible", "hide-label", "dname-empty", "collapsed", "sem-name-removed", "sem-name-empty")
NOTE_VARIANTS = ("note-description-empty", "note-description-removed")


def gmf_root(model, dg):
    """`<data xmi:type="notation:Diagram">` of a diagram (the subtree `parse_diagram` iterates)."""
    ld = model._loader
    root = ld.follow_link(dg._element, dg._element.attrib["repPath"])
    for ann in root.iterchildren("ownedAnnotationEntries"):
        if ann.get("source") == "GMF_DIAGRAMS":
            for data in ann.iterchildren("data"):
                if data.get(XMI_TYPE) == "notation:Diagram":
                    return root, data
    return root, None


def classify(model, dg) -> dict[str, list]:
    """Nodes of the diagram by kind: box / port / note / edge-label, each as (data element, diagram element or None)."""
    ld = model._loader
    out: dict[str, list] = {"box": [], "port": [], "note": [], "edge-label": [], "other": []}
    _root, data = gmf_root(model, dg)
    if data is None:
        return out
    for ch in data.iterdescendants("children"):
        if not ch.get(XMI_ID):
            continue
        lc = next(ch.iterchildren("layoutConstraint"), None)
        par = ch.getparent()
        if par is not None and par.tag == "edges":
            if lc is not None:
                out["edge-label"].append((ch, None))
            continue
        if lc is None:
            continue
        uid = ch.get("element")
        if uid is None:
            out["note" if ch.get("type") in ("Note", "Text") else "other"].append((ch, None))
            continue
        try:
            de = ld.follow_link(ch, uid)
        except Exception:  # noqa: BLE001
            continue
        if de.tag == "ownedBorderedNodes":
            out["port"].append((ch, de))
        elif de.tag in ("ownedDiagramElements", "ownedElements"):
            out["box"].append((ch, de))
        else:
            out["other"].append((ch, de))
    return out


def plan(ctx, model, dg, per_kind: int) -> list[dict]:
    """Variations for one diagram: every variant at least once per node kind where nodes exist (stratified), the nodes
    chosen by ctx.rng; at most one variation per node."""
    rng = ctx.rng
    nodes = classify(model, dg)
    edits: list[dict] = []
    used: set = set()

    def take(kind: str, variant: str = ""):
        pool = [n for n in nodes[kind] if n[0].get(XMI_ID) not in used]
        if variant == "collapsed":   # needs a compartment (GMF type 7002) to collapse
            pool = [n for n in pool if any(c.get("type") == "7002" for c in n[0].iterchildren("children"))] or pool
        if not pool:
            return None
        n = rng.choice(pool)
        used.add(n[0].get(XMI_ID))
        return n

    for kind, variants in (("box", list(BOUNDS_VARIANTS) + list(ELEM_VARIANTS)),
                           ("port", list(BOUNDS_VARIANTS) + ["invisible", "sem-name-removed"]),
                           ("note", list(BOUNDS_VARIANTS) + list(NOTE_VARIANTS)),
                           ("edge-label", ["no-pos", "pos=-1", "no-bounds-attrs", "size=-1"])):
        for _ in range(per_kind):
            rng.shuffle(variants)
            for v in variants:
                n = take(kind, v)
                if n is None:
                    break
                edits.append({"e": "layout", "v": v, "kind": kind, "diagram": dg.uuid, "data": n[0].get(XMI_ID)})
    return edits


def _find(model, dg, xmi_id: str):
    _root, data = gmf_root(model, dg)
    if data is None:
        return None
    for ch in data.iterdescendants("children"):
        if ch.get(XMI_ID) == xmi_id:
            return ch
    return None


def apply_variation(model, ed: dict, rng=None) -> str:
    """Perform one variation on the loaded trees. Returns what happened."""
    ld = model._loader
    dg = model.diagrams.by_uuid(ed["diagram"])
    ch = _find(model, dg, ed["data"])
    if ch is None:
        return "node-gone"
    v = ed["v"]
    if v in BOUNDS_VARIANTS:
        lc = next(ch.iterchildren("layoutConstraint"), None)
        if lc is None:
            return "no-layout"
        for k, val in BOUNDS_VARIANTS[v].items():
            if val is None:
                lc.attrib.pop(k, None)
            else:
                lc.set(k, val)
        return "ok"
    if v in NOTE_VARIANTS:
        if v.endswith("empty"):
            ch.set("description", "")
        else:
            ch.attrib.pop("description", None)
        return "ok"
    uid = ch.get("element")
    de = ld.follow_link(ch, uid) if uid else None
    if de is None:
        return "no-diagram-element"
    if v == "invisible":
        de.set("visible", "false")
    elif v == "hide-label":
        if any(f.get(XMI_TYPE) == "diagram:HideLabelFilter" for f in de.iterchildren("graphicalFilters")):
            return "already"
        f = de.makeelement("graphicalFilters", {XMI_TYPE: "diagram:HideLabelFilter", "uid": "_" + ed["data"][-20:] + "HL"})
        de.insert(0, f)
    elif v == "dname-empty":
        de.set("name", "")
    elif v == "collapsed":
        comp = next((c for c in ch.iterchildren("children") if c.get("type") == "7002"), None)
        if comp is None:
            return "no-compartment"
        ds = next((s for s in comp.iterchildren("styles") if s.get(XMI_TYPE) == "notation:DrawerStyle"), None)
        if ds is None:
            ds = comp.makeelement("styles", {XMI_TYPE: "notation:DrawerStyle", XMI_ID: "_" + ed["data"][-20:] + "DS"})
            comp.insert(0, ds)
        ds.set("collapsed", "true")
    elif v in ("sem-name-removed", "sem-name-empty"):
        sems = list(de.iterchildren("semanticElements")) or list(de.iterchildren("target"))
        if not sems:
            return "no-semantic-element"
        try:
            sem = ld.follow_link(sems[0], sems[0].attrib["href"])
        except Exception:  # noqa: BLE001
            return "dangling"
        if v.endswith("removed"):
            sem.attrib.pop("name", None)
        else:
            sem.set("name", "")
    else:
        return "unknown-variant"
    return "ok"
