"""Regenerate /verif/MANIFEST.json from harness/registry.py."""
import json, pathlib, sys
HERE = pathlib.Path(__file__).resolve().parent
sys.path.insert(0, str(HERE))
import importlib
import registry

def main():
    checks = []
    for pid in registry.ALL:
        try:
            c = getattr(importlib.import_module(f"props.{pid.lower()}"), "MANIFEST", None)
        except ModuleNotFoundError as e:
            if e.name != f"props.{pid.lower()}":
                raise SystemExit(f"cannot import props.{pid.lower()}: {e} - run with /venv/bin/python")
            c = None
        if not c:
            continue
        checks.append({
            "property_id": pid,
            "quick_cmd": f"./check {pid} --tier quick",
            "thorough_cmd": f"./check {pid} --tier thorough",
            "evidence_file": f"/verif/evidence/{pid}.json",
            "replay_cmd_template": f"./check {pid} --replay {{path}}",
            "engine": "lean4-capella",
            "level_claimed": {"category": c.get("category", "proof"), "text": c["text"], "design_ref": c["design_ref"]},
            "level_note": c["note"],
            "technique": c["technique"],
        })
    na = [{"property_id": pid, "reason": registry.NA.get(pid, registry.NOT_YET) if hasattr(registry, "NA") else registry.NOT_YET}
          for pid in registry.ALL if pid not in {c["property_id"] for c in checks}]
    man = {
        "version": 1,
        "setup_cmd": "./check --setup",
        "hooks": {
            "guard": "CAPELLAMBSE_VERIF",
            "enable": "none needed: no hooks are committed to /repo; the checks observe private state through the pinned name-mangled names (falling back to recognition by shape when a private attribute was renamed) and inject faults from the harness process (the check wrapper exports CAPELLAMBSE_VERIF=1, which nothing in /repo reads)",
            "baseline_off_cmd": "/venv/bin/python harness/baseline.py",
            "source_commits": [],
            "add_only": True,
        },
        "engines": [{
            "name": "lean4-capella",
            "path": "/verif/lean",
            "serves_properties": [c["property_id"] for c in checks],
            "kind_free_text": "Lean 4.33 library `Capella` (models, lemmas, property theorems, protocol driver) + Python correspondence harness under /verif/harness",
        }],
        "checks": checks,
        "not_applicable": na,
        "notes": "Every check: regenerate Gen/ tables from /repo, lake build the property's theorems, audit axioms, run model-vs-implementation correspondence and the implementation-side monitor; see DESIGN.md §2.4 for the verdict rule. The check itself runs in a supervised child interpreter: a child killed by SIGSEGV/SIGABRT while exercising the implementation, and a binding of the harness to private state that no longer exists, end as a broken-correspondence verdict (VIOLATION … no-failing-input-found, streams interpreter-crash / harness-binding). Exit 2 = infrastructure error (never a VIOLATION). seeded/ holds 140 independently seeded property-breaking changes with what catches them, refactors/ 30 behaviour-preserving rewrites the checks must not alarm on (DESIGN.md §12.5, §12.8; design/STATUS.md).",
    }
    (HERE.parent / "MANIFEST.json").write_text(json.dumps(man, indent=1) + "\n")
    print(f"{len(checks)} checks, {len(na)} not_applicable")

if __name__ == "__main__":
    main()
