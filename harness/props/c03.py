"""C03 — UUID and type lookups always agree with the actual model tree.

Model: Capella.Index (per-fragment id/type indexes over the pre-order scan; index protocol
attach/detach/reserve/unreserve/rebuild/reorder/swapRoot). Theorems: Props/C03.lean.
Tie: after every API operation the implementation's private indexes are compared with the model's
after the protocol instructions that the observed tree change calls for. Monitor: raw lxml scan vs
by_uuid / search for every UUID ever seen and every type touched.
"""

from __future__ import annotations

import random

import common
import objlayer as ol
import objsession as S
from common import Ctx, Outcome

DRIVERS = ["Index", "Accessor"]
TABLES = True
RULE = ("seeded edit histories (create / delete with purging / move between parents / relation edits / attribute sets / "
        "save) over the coupled relations of the corpus models; after every step every UUID ever seen is looked up "
        "and every touched xsi:type searched; distinct = distinct (model, relation kind, op, outcome, step effect); "
        "non-trivial = the step changed the tree or was rejected")
ASSUMPTIONS = [
    "lxml's Element.iter() order is the pre-order scan the model works on",
    "the translation of an observed tree change into protocol instructions (objsession.diff_ops) is part of the trusted harness",
]
TRUSTED = ["C03: python id() of lxml proxies is stable while the harness keeps references to all elements (it does)"]
MANIFEST = dict(
    text=("Lean theorems over a model of the three hand-maintained per-fragment indexes: each instruction of the index "
          "protocol that mutation sites issue (attach+index, unindex+detach, reserve, unreserve, rebuild, reorder, root swap) "
          "preserves `Consistent` (index = scan of the tree), lifted by induction to every finite history; with globally "
          "unique ids a lookup returns exactly the element carrying the id and fails for absent ones. The model is tied to "
          "/repo by comparing, after every step of seeded API edit histories on the corpus models, the implementation's "
          "private indexes with the model's, and an independent raw-scan monitor checks by_uuid/search directly."
          ' The object layer above the index is modelled too (Model/Accessor.lean: every mutation method of the accessors over a real tree state, parameterised by the generated accessor-parameter table); every API call and every finite session of calls is proved to keep the invariant, and an interactive correspondence stream predicts error class, touched tree, instruction list and fresh view of every API step.'),
    design_ref="§6 C03",
    note=("Trusted: Lean kernel; the diff-to-protocol translation in harness/objsession.py; the API-call translation in harness/accsession.py; lxml iteration order. That the accessor model's instruction guard never fires on reachable states is validated by correspondence, not proved."),
    technique="Lean 4 proof (inductive invariant over an index-protocol state machine) + per-step differential correspondence on API histories",
)

QUICK_MODELS = [("write", 2, 40), ("write+frag", 2, 40), ("empty52", 2, 25), ("libproj", 1, 25), ("t52", 1, 30)]
THOROUGH_MODELS = [("write", 6, 80), ("write+frag", 5, 80), ("t52+frag", 2, 60), ("empty52", 4, 50), ("libproj", 3, 50), ("filtering", 2, 40), ("pvmt", 2, 40),
                   ("t50", 2, 60), ("t52", 3, 80), ("t60", 2, 60)]


ROOT_MOVED = "fragment-root-moved-into-another-file"


def roots_inside_other_trees(loader) -> list[str]:
    """fragment files whose root element hangs inside ANOTHER file's tree.

    Never the case after a load, and no index instruction produces it: it is the post-state of the known defect
    `fragment-root-moved-into-another-file|…` (C08; DESIGN §12.7) - an object that is the root of its own fragment file was
    moved through the list API, lxml took the root element out of its document and put it below the new owner, the
    ModelFile still calls it its root. From then on ONE element sequence is iterated by TWO ModelFiles, which neither
    "the elements currently contained in a loaded fragment" (each of them is contained in two) nor the per-fragment index
    model can express."""
    return [str(f) for f, tr in loader.trees.items() if tr.root.getparent() is not None]


class Monitor:
    """by_uuid / search must agree with a raw scan, after every step, for every UUID ever seen."""

    def __init__(self, out: Outcome, ctx: Ctx):
        self.out, self.ctx = out, ctx
        self.ever: dict[str, None] = {}
        self.hist: list[dict] = []
        self.broken: dict | None = None   # set by the step that moved a fragment root into another file's tree
        self.nsteps: int | None = None    # length of the history being run (recorded in replay cases)

    def start(self, model, scan, key, hist_id):
        self.key, self.hist_id = key, hist_id
        self.ever = {}
        self.hist = []
        self.seen_bad = set()
        self.broken = None
        ids = [k for rows in scan.values() for r in rows for k in r["ids"]]
        rng = random.Random(f"ever:{key}:{hist_id}:{self.ctx.seed}")
        for k in (ids if len(ids) < 400 else rng.sample(ids, 400)):
            self.ever[k] = None
        self.check(model, scan, -1, None)

    def check(self, model, scan, i, rec):
        loader = model._loader
        where: dict[str, list] = {}
        for f, rows in scan.items():
            for r in rows:
                for k in r["ids"]:
                    where.setdefault(k, []).append(r)
        for k in list(self.ever):
            rows = where.get(k, [])
            try:
                e = loader[k]
                got = id(e)
            except KeyError:
                got = None
            except Exception as ex:  # noqa: BLE001
                got = f"!{type(ex).__name__}"
            if len(rows) == 0 and got is not None:
                self.report("stale-lookup", k, i, rec, f"by_uuid({k}) returns an element that is in no loaded fragment")
            elif len(rows) == 1 and got != rows[0]["nid"]:
                self.report("missing-or-wrong-lookup" if got is None else "wrong-element", k, i, rec,
                            f"by_uuid({k}) -> {got}, but the tree holds exactly one element with that id")
        # type search vs raw scan, for the types touched in this step (all types at start/end)
        xts = None
        if rec is not None:
            xts = {r["xt"] for f in rec.after for r in rec.after[f] if r["xt"]} ^ {r["xt"] for f in rec.before for r in rec.before[f] if r["xt"]}
            nb = {r["nid"] for f in rec.before for r in rec.before[f]}
            na = {r["nid"] for f in rec.after for r in rec.after[f]}
            for f in rec.after:
                xts |= {r["xt"] for r in rec.after[f] if r["nid"] not in nb and r["xt"]}
            for f in rec.before:
                xts |= {r["xt"] for r in rec.before[f] if r["nid"] not in na and r["xt"]}
        by_xt: dict[str, set] = {}
        for f, rows in scan.items():
            for r in rows:
                if r["xt"]:
                    by_xt.setdefault(r["xt"], set()).add(r["nid"])
        for x in (xts if xts is not None else list(by_xt)):
            want = by_xt.get(x, set())
            got = {id(e) for tr in loader.trees.values() for e in tr.iterall_xt({x})}
            if got != want:
                kind = "stale-type-entry" if got - want else "missing-type-entry"
                self.report(kind, x, i, rec, f"type search for {x}: {len(got - want)} stale, {len(want - got)} missing")

    def report(self, kind, what, i, rec, msg):
        if (kind, what) in self.seen_bad:   # a stale entry persists; report it at the step that caused it
            return
        self.seen_bad.add((kind, what))
        op = S.describe(rec.step) if rec is not None else {"op": "load"}
        rk = op.get("relation", "-").split("[")[-1].rstrip("]") if "relation" in op else "-"
        sig = f"{kind}|{op['op']}|{rk}"
        self.out.find(sig, f"{self.key} step {i} {op}: {msg}", self.case(i, what, kind))

    def case(self, i, what, kind) -> dict:
        # seed and tier are part of the case: the generated history (and the cut points of a fragmented copy) depend on them
        return {"kind": "history", "model": self.key, "hist": self.hist_id, "step": i, "what": what,
                "ops": self.hist[-6:], "failure": kind, "seed": self.ctx.seed, "tier": self.ctx.tier, "nsteps": self.nsteps}

    def root_moved(self, rec, model, moved: list[str]):
        """The step put the root of a fragment file into another file's tree: name the root cause once, under its own
        signature (same classes as C08's: accessor kind | list method), and end the history - see design/C03.md."""
        op = S.describe(rec.step)
        kind = rec.step.rel.kind if rec.step.rel is not None else "-"
        self.broken = {"step": rec.i, "files": moved}
        self.out.hit("history.ended-at-fragment-root-move")
        self.out.find(f"{ROOT_MOVED}|{kind}|{rec.step.op}",
                      f"{self.key} step {rec.i} {op}: after {rec.step.op} the root element of fragment {moved} hangs inside another "
                      f"file's tree (an object that is the root of its own fragment file was moved through the list API; the "
                      f"known C08 defect of the same signature). One element sequence is now iterated by two ModelFiles; what "
                      f"follows for C03 (e.g. save() failing half-way in update_namespaces, after which by_uuid/search serve "
                      f"elements that are in no fragment) is a consequence, so this history ends here",
                      self.case(rec.i, moved[0], ROOT_MOVED))
        model._verif_broken_roots = True
        model._verif_stop = True   # objsession.run_history ends the history after this step

    def step(self, rec, model):
        if self.broken is not None:
            return
        self.hist.append(dict(S.describe(rec.step), outcome=rec.outcome))
        moved = roots_inside_other_trees(model._loader)
        if moved:
            self.root_moved(rec, model, moved)
        for f in rec.after:
            for r in rec.after[f]:
                for k in r["ids"]:
                    if k not in self.ever and len(self.ever) < 3000:
                        nb = True
                        self.ever[k] = None
        for k in (rec.step.args.get("uuid"), (rec.step.args.get("kw") or {}).get("uuid")):
            if isinstance(k, str):
                self.ever[k] = None
        # the step that moved a fragment root is still judged: the raw-scan comparison is by element identity, which stays
        # well defined (an id carried by one element that two files iterate has two rows and is not judged)
        self.check(model, rec.after, rec.i, rec)
        changed = rec.before.keys() != rec.after.keys() or any(
            [r["nid"] for r in rec.before[f]] != [r["nid"] for r in rec.after[f]] for f in rec.after)
        self.out.case((self.key, rec.step.op, rec.step.rel.kind if rec.step.rel else "-", rec.outcome, changed, rec.i if changed else 0),
                      dict(S.describe(rec.step), outcome=rec.outcome) if changed else None,
                      nontrivial=changed or rec.outcome != "ok")

    def end(self, model):
        pass


class TieObserver:
    def __init__(self, out: Outcome, tie: S.IndexTie, monitor: Monitor):
        self.out, self.tie, self.mon = out, tie, monitor

    def start(self, model, scan, key, hist_id):
        self.key = key
        self.tie.load(model._loader, scan)
        self.tie.dump((key, hist_id, "load"), model._loader)

    def step(self, rec, model):
        if self.mon.broken is not None:
            # a fragment root sits inside another file's tree (Monitor.root_moved has named the root cause): the tree
            # diff of this step has no translation into index instructions - the moved subtree is un-indexed in its own
            # file although that file's scan still shows it - so the tie ends with the previous step
            self.out.hit("index.tie-ended-at-fragment-root-move")
            return
        ops = S.diff_ops(S.scan_rows(rec.before), S.scan_rows(rec.after), self.tie.frag_index)
        self.tie.apply((self.key, rec.i, rec.step.op), ops)
        keys = list(self.mon.ever)[-60:]
        for k in (rec.step.args.get("uuid"), (rec.step.args.get("kw") or {}).get("uuid")):
            if isinstance(k, str) and k not in keys:
                keys.append(k)
        xts = sorted({r["xt"] for o in ops for r in o.get("seg", []) if r.get("xt")})
        self.tie.query((self.key, rec.i, rec.step.op), model._loader, keys, xts)
        self.out.traces_validated += 1
        if rec.i % 10 == 9:
            self.tie.dump((self.key, rec.i), model._loader)

    def end(self, model):
        if self.mon.broken is not None:
            return
        self.tie.dump((self.key, "end"), model._loader)


def save_and_check(ctx, out, model, mon: Monitor, tie: S.IndexTie, key):
    """save (root replacement when a namespace was added), then look everything up again"""
    loader = model._loader
    before = ol.raw_scan(loader)
    try:
        model.save()
        outcome = "ok"
    except Exception as e:  # noqa: BLE001
        outcome = type(e).__name__
    after = ol.raw_scan(loader)
    import objops
    rec = S.StepRecord(10**6, objops.Step("save", None, {}, lambda: None), outcome, before, after)
    out.hit(f"op.save.{outcome}")
    roots_changed = [f for f in after if before[f] and after[f] and before[f][0]["nid"] != after[f][0]["nid"]]
    out.hit("save.root-replaced", len(roots_changed))
    ops = []
    for f in roots_changed:
        ops.append({"k": "swapRoot", "fi": tie.frag_index[f], "nid": after[f][0]["nid"]})
    tie.apply((key, "save"), ops)
    mon.step(rec, model)
    tie.dump((key, "after-save"), loader)


def one_history(ctx: Ctx, out: Outcome, key: str, h: int, nsteps: int):
    mon = Monitor(out, ctx)
    mon.nsteps = nsteps
    tie = S.IndexTie()
    import accsession
    obs = [mon, TieObserver(out, tie, mon), accsession.AccessorTie(out)]
    model = S.run_history(ctx, out, key, nsteps, obs, hist_id=h, weights={"assign": 2})
    if mon.broken is not None:
        # ended by a fragment-root move (known defect, reported by the monitor): everything up to the step before is
        # compared with the model as usual; the closing phases (rejected assignments, viewpoint, save) need a sound state
        import os
        if os.environ.get("VERIF_NO_MODEL") != "1":
            tie.compare(out, f"index.{key}")
        return mon.broken["step"]
    # a rejected assignment to a uniqueness-enforcing link relation (the roll-back restores the old link
    # elements: they must be findable again)
    import objops as _oo
    import random as _r
    rng2 = _r.Random(f"c03u:{ctx.seed}:{key}:{h}")
    urels = [r for r in _oo.discover(model, rng2, max_objs=ctx.pick(250, 600))
             if type(r.acc).__name__ == "LinkAccessor" and getattr(r.acc, "unique", False) and getattr(r.acc, "tag", None)]
    done = 0
    for r in urels:
        try:
            members = list(r.get())
        except Exception:  # noqa: BLE001
            continue
        if not members:
            continue
        before = ol.raw_scan(model._loader)
        try:
            setattr(r.owner, r.attr, [*members, members[0]])
            outcome = "ok"
        except Exception as e:  # noqa: BLE001
            outcome = type(e).__name__
        after = ol.raw_scan(model._loader)
        rec = S.StepRecord(10**6 - 3 - done, _oo.Step("assign_dup", r, {"new_uuids": [m.uuid for m in members] + [members[0].uuid]}, lambda: None), outcome, before, after)
        out.hit(f"op.assign_dup.{outcome}")
        tie.apply((key, "assign_dup", done), S.diff_ops(S.scan_rows(before), S.scan_rows(after), tie.frag_index))
        mon.step(rec, model)
        tie.dump((key, "after-assign-dup", done), model._loader)
        done += 1
        if done >= 2:
            break
    # viewpoint activation (writes a viewpointReferences element into the .afm, whose ids are not indexed)
    if h % 2 == 1:
        import objops
        before = ol.raw_scan(model._loader)
        try:
            model.activate_viewpoint("org.polarsys.capella.vp.verif", "1.0.0")
            outcome = "ok"
        except Exception as e:  # noqa: BLE001
            outcome = type(e).__name__
        after = ol.raw_scan(model._loader)
        rec = S.StepRecord(10**6 - 2, objops.Step("activate_viewpoint", None, {}, lambda: None), outcome, before, after)
        out.hit(f"op.activate_viewpoint.{outcome}")
        tie.apply((key, "activate_viewpoint"), S.diff_ops(S.scan_rows(before), S.scan_rows(after), tie.frag_index))
        mon.step(rec, model)
        tie.dump((key, "after-activate"), model._loader)
    # make sure a namespace-adding creation happened before the save in some histories
    if h % 2 == 0:
        import objops
        before = ol.raw_scan(model._loader)
        try:
            model.la.requirement_modules.create(name="verif-module")
            outcome = "ok"
        except Exception as e:  # noqa: BLE001  (e.g. the history deleted the logical architecture)
            outcome = type(e).__name__
        after = ol.raw_scan(model._loader)
        rec = S.StepRecord(10**6 - 1, objops.Step("create", None, {"kw": {"name": "verif-module"}}, lambda: None), outcome, before, after)
        tie.apply((key, "reqmod"), S.diff_ops(S.scan_rows(before), S.scan_rows(after), tie.frag_index))
        mon.step(rec, model)
    save_and_check(ctx, out, model, mon, tie, key)
    import os
    if os.environ.get("VERIF_NO_MODEL") != "1":
        tie.compare(out, f"index.{key}")
    return None


REPLACEMENT = 1000   # history id offset of the history that makes up for one ended early (same parity: same closing phases)


def run(ctx: Ctx) -> Outcome:
    out = Outcome(rule=RULE)
    plan = THOROUGH_MODELS if ctx.thorough else QUICK_MODELS
    for key, nh, ns in plan:
        for h in range(nh):
            ended = one_history(ctx, out, key, h, ns)
            if ended is not None and ns - (ended + 1) >= 10:
                # the history was ended by a fragment-root move: spend the steps it did not get on one other history of
                # the same model (with its own closing phases), so that the known defect does not cost coverage
                out.hit("history.replacement")
                one_history(ctx, out, key, h + REPLACEMENT, ns - (ended + 1))
    out.extra["models"] = [p[0] for p in plan]
    # refused moves: an object into a list of itself / of one of its own descendants
    from props import c03_moves

    c03_moves.self_move_cases(ctx, out, Monitor)
    return out


def replay(ctx: Ctx, case: dict):
    out = Outcome()
    if "seed" in case and (case["seed"], case.get("tier", ctx.tier)) != (ctx.seed, ctx.tier):
        # check.py replays in a quick / seed-0 context, but the history is a function of seed and tier
        mine = Ctx("C03", case.get("tier", ctx.tier), case["seed"])
        try:
            return replay(mine, case)
        finally:
            mine.cleanup()
    plan = dict((k, (nh, ns)) for k, nh, ns in (QUICK_MODELS + THOROUGH_MODELS if ctx.thorough else THOROUGH_MODELS + QUICK_MODELS))
    nh, ns = plan.get(case["model"], (1, 40))
    ns = case.get("nsteps", ns)   # the closing phases (save, …) see the state after exactly this many steps
    one_history(ctx, out, case["model"], case["hist"], max(ns, case.get("step", 0) + 1 if isinstance(case.get("step"), int) and case["step"] < 10**5 else ns))
    for f in out.findings:
        if f.replay.get("failure") == case.get("failure"):
            return f.what
    return None
