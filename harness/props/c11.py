"""C11 — reading and rendering never change the model; introspection never crashes.

Monitor (the main part): on scratch copies of every corpus model, a seeded random sequence (with
repetition) of read-only operations — every object x every public attribute from dir(), dir/repr/
_repr_html_ of objects, lists and diagrams, every diagram x every output format (cairosvg stubbed),
validation, metrics, ReqIF export, search, find_references — with a digest of every fragment taken
before and after (per operation for the heavy ones, per batch for attribute reads, bisected by replay on
a fresh copy), the real `ModelFile.write_xml` bytes at check points, and a save()-level comparison at
the end.  Exceptions escaping dir()/repr()/_repr_html_() are violations.  PVMT access is the documented
exception: it is run separately and checked to be additive and idempotent.

Correspondence: the Lean model `Capella.Reads` (label computation of the three special diagram
factories as coded and as repaired, PVMT group application, raw-store reads) is run on the same cases
that are produced on the implementation by editing the real XML of every corpus occurrence.
"""

from __future__ import annotations

import collections
import hashlib
import io
import itertools
import logging
import os
import pathlib
import shutil
import sys
import time
import types

import common
from common import Ctx, Outcome

import c11_barrier as barrier
import c11_factories as factories
import c11_layout as layout
import c11_states as states

DRIVERS = ["Reads", "Factories"]
TABLES = True
LEVEL = "proof"
RULE = ("operations are enumerated from the live model: (object, public attribute from dir()) pairs, "
        "dir/repr/html of objects, lists and diagrams, (diagram, format) pairs, validation/metrics/ReqIF/"
        "search/find_references calls; executed in a seeded shuffle with ~10% repetitions. distinct = distinct "
        "(model, operation) descriptor; non-trivial = the operation executed real accessor/renderer code on a "
        "loaded corpus model (every case is; constant-only cases are not generated). Factory cases: every corpus "
        "occurrence of the three special factories x every combination of the attributes they read. Edited states: a "
        "seeded API history (delete / rename / move of objects picked from the diagrams' own semanticElements/target "
        "references, requirement data made inconsistent-but-legal) followed by the read surface, every op under an lxml "
        "write barrier. parse: corpus diagrams (all in thorough) exported as node arenas; cache: seeded render/invalidate "
        "histories incl. failing parameter sets; effects: every distinct (function, receiver, operation, key) access the "
        "parser performs while all diagrams are parsed and queried. Unusual states (round 4): per model, every registered class "
        "with instances x the states its live descriptors allow (optional attributes deleted / present but empty / all gone, "
        "unknown enum literal, specification emptied through the API, without bodies, without languages, one language more "
        "than bodies, empty texts, created empty, link lists cleared, objects created with no attributes in every containment "
        "list), object per (class, state) by rng; distinct = (model, class, state, object). Layout variations: per diagram, "
        "every GMF sentinel variant (size -1 / 0 / missing, position -1 / missing, no attributes) x node kind (box, port, "
        "note, edge label) + invisible / hide-label / empty diagram-side name / collapsed compartment / empty semantic name, "
        "nodes by rng, written to a scratch copy, saved and loaded again.")
ASSUMPTIONS = [
    "etree.tostring equality of every fragment (fast screen used between check points) implies equality of "
    "ModelFile.write_xml output: write_xml is a function of the tree only; the real write_xml bytes are compared at "
    "check points, at the end of every model run, and a save() into a scratch copy is compared with the save() of an untouched copy",
    "cairosvg is not installed offline: svg2png is stubbed (png/termgraphics converters run on the stub's bytes)",
    "bound methods found among public attributes are read (getattr) but not called, except the read-only entry points "
    "named in the property (validate, search, find_references, render, save-to-buffer of diagrams, ReqIF export)",
    "PVMT (model.pvmt, obj.pvmt[...]/repr/html) is the documented exception; checked separately: additive + idempotent",
    "write barrier: model elements are instances of a Python subclass of lxml.etree.ElementBase injected through the XMLParser "
    "the loader instantiates; C-level writes that bypass the element API (none known in lxml's public surface) would be invisible to "
    "the barrier, not to the digests",
    "effect table: receiver kinds are inferred syntactically from annotations and obvious data flow; its soundness on executed "
    "paths is checked by the `effects` stream (every access the parser performs must be a row); unexecuted paths rest on the analyser",
    "unusual states are produced by API edits and by lxml edits of the loaded tree that a schema-valid input file could contain "
    "(EMF: every attribute optional, unknown enumeration literal tolerated by the reader); the layout variations are saved and "
    "re-loaded, so there they ARE an input file",
    "representation-loop table (gen_introspect.py): the sites are found syntactically in the five loops of _obj.py (a use of the "
    "value the analyser does not know is `.other`, fails closed); `partialOn` of a value class is measured on ONE canonical state (an "
    "instance over an empty element through the class' own (model, element) constructor) and only for classes that can be so "
    "instantiated; that a value raises at most where the table says is the hypothesis of live_repr_loops_total, checked on the "
    "observed values by the `intro.conforms` stream",
    "a mutator call during a read-only operation whose effect is undone within the same operation is reported "
    "(`writes-transient|...`) although save() would write the same bytes afterwards: between write and undo the model is changed, "
    "and an exception in between leaves it changed",
]
TRUSTED = ["C11: lxml's etree.tostring is a faithful rendering of an element tree (used only as a screen)"]
MANIFEST = dict(
    text=("Representation loops (round 4): the five loops of the object layer that format attribute values (ModelElement.__repr__ / "
          "__html__ / _short_html_, ElementList.__repr__ / __html__) as a total-or-raising fold over a table of getattr outcomes "
          "{value, AttributeError, other error}; theorems: failed reads never matter, a loop completes on every table iff every "
          "formatter it reaches completes on every value, the loops of the live code (generated sites: formatter + guarding tests + "
          "try-guard; generated value classes: representation methods they define, which raise on an empty instance) complete "
          "(kernel-checked obligation sites_total), and a loop that lets values render themselves through escape(value) is not total "
          "(witness: a specification with no body). Monitor: introspection surface on objects of every class in unusual-but-legal "
          "states; render purity on schema-legal layout variations of the .aird (GMF sentinels). "
          "Effect model: every element factory / filter named by the live dispatch tables of the diagram parser (generated: "
          "STYLECLASS_LOOKUP + fallback, VISUAL_TYPES, COMPOSITE_FILTERS, GLOBAL_FILTERS) is a program over the model trees "
          "in which write requests exist; theorems: a program with no reachable write returns the tree unchanged (frame rule, "
          "also from the run's trace), every factory of the live tables does (factory_pure), the element loop of parse_diagram "
          "does for any number of elements (parse_diagram_pure), the factories as formerly coded do not, an unknown factory "
          "cannot be proved pure; generated effect table of the aird package (every access site of every function, receiver "
          "kind, call graph) with the kernel-checked obligation that every site reachable from a read-only entry point or a "
          "registered table entry is harmless (parser_effects_pure). Render cache as a state machine: transparent if keyed by "
          "parameters, not transparent as coded (witness replayed), transparent on single-parameter histories. Older part: "
          "Lean model of the read surface as functions State -> Out and of diagram rendering as a fold of element "
          "factories State -> State x Picture, in two variants: the three label-computing factories as they were coded "
          "(writing `name` / `workspacePath` into the XML) and as repaired. Theorems: any sequence of read operations "
          "(with the repaired renderer) leaves save(state) unchanged; the repaired factories return the tree unchanged "
          "and draw the same picture as the coded ones; the coded ones do not have the property (witness); PVMT group "
          "application is additive and idempotent after first use. The purity theorem is a frame condition that holds by "
          "construction for the plain reads; the weight is carried by the implementation-side monitor: every object x "
          "public attribute, dir/repr/html of objects, lists, diagrams, every diagram x format, validation, metrics, "
          "ReqIF export, search, find_references in seeded random order with repetition, with a digest of every "
          "fragment's serialisation before and after, bisected to the first mutating call; the same read surface on EDITED "
          "states under an lxml write barrier (every mutator call during a read-only operation is attributed to it)."),
    design_ref="§6 C11",
    note=("Partial by nature (DESIGN §9): the purity theorem is a by-construction frame condition for plain reads; real "
          "detection is the before/after byte comparison on all corpus models. Trusted: Lean kernel; lxml tostring as screen; "
          "cairosvg stubbed; methods other than the named read-only entry points are not called."),
    technique="Lean 4 proof (effect-typed programs + frame rule, fold induction, simulation between coded and repaired renderer, cache invariant) + generated effect/dispatch tables with kernel-checked obligations + exhaustive read-surface monitor with byte comparison of every fragment and an lxml write barrier",
)

DATA = "tests/data"
#           label         entry point (relative to tests/data)                    resources               size class
MODELS = [
    ("writemodel", "writemodel/WriteTestModel.aird", {}, "small"),
    ("empty52", "decl/empty_project_52/empty_project_52.aird", {}, "small"),
    ("filtering", "filtering/Filtered Project.aird", {}, "small"),
    ("parser", "parser/TestItems.aird", {}, "small"),
    ("pvmt", "pvmt/PVMTTest.aird", {}, "small"),
    ("libtest", "Library Test/Library Test.aird", {}, "small"),
    ("libproj", "Library Project/Library Project.aird", {"Library Test": "Library Test"}, "small"),
    ("mm52", "melodymodel/5_2/Melody Model Test.aird", {}, "big"),
    ("mm50", "melodymodel/5_0/Melody Model Test.aird", {}, "big"),
    ("mm60", "melodymodel/6_0/Melody Model Test.aird", {}, "big"),
]
FORMATS_FALLBACK = ["svgdiagram", "svg", "png", "svg_confluence", "datauri_svg", "html_img", "termgraphics"]
PNG_STUB = b"\x89PNG\r\n\x1a\n" + b"\0" * 16

_ENV: dict = {}


# ------------------------------------------------------------------ environment


def setup(ctx: Ctx):
    """Import capellambse from the repo under test, stub cairosvg, copy the corpus to scratch."""
    if _ENV.get("ctx") is ctx:
        return _ENV
    os.environ["XDG_CACHE_HOME"] = str(ctx.scratch / "xdg")
    if str(common.REPO) not in sys.path:
        sys.path.insert(0, str(common.REPO))
    if "cairosvg" not in sys.modules:
        try:
            import cairosvg  # noqa: F401
        except Exception:
            stub = types.ModuleType("cairosvg")
            stub.svg2png = lambda *a, **k: PNG_STUB  # type: ignore[attr-defined]
            sys.modules["cairosvg"] = stub
    import capellambse  # noqa: F401

    logging.disable(logging.CRITICAL)
    data = ctx.scratch / "data"
    if not data.exists():
        shutil.copytree(common.REPO / DATA, data)
    _ENV.clear()
    _ENV.update(ctx=ctx, data=data, capellambse=capellambse)
    return _ENV


def open_model(ctx: Ctx, label: str, copy: str | None = None):
    env = setup(ctx)
    _, entry, res, _ = next(m for m in MODELS if m[0] == label)
    base = env["data"]
    if copy is not None:
        base = ctx.scratch / f"copy-{copy}"
        if base.exists():
            shutil.rmtree(base)
        shutil.copytree(env["data"], base)
    kw = {}
    if res:
        kw["resources"] = {k: str(base / v) for k, v in res.items()}
    return env["capellambse"].MelodyModel(str(base / entry), **kw)


# ------------------------------------------------------------------ snapshots and diffs


def fast_snap(model) -> tuple:
    from lxml import etree

    return tuple(
        hashlib.md5(etree.tostring(f.root.getroottree())).hexdigest() for f in model._loader.trees.values()
    )


def full_snap(model) -> dict[str, str]:
    """The observation point named by the property: ModelFile.write_xml of every fragment."""
    out = {}
    for name, frag in model._loader.trees.items():
        buf = io.BytesIO()
        frag.write_xml(buf)
        out[str(name).replace("\0", "~")] = hashlib.sha256(buf.getvalue()).hexdigest()
    return out


def copy_roots(model) -> dict:
    import copy

    return {str(k): copy.deepcopy(f.root) for k, f in model._loader.trees.items()}


def _eid(e) -> str:
    for k in ("id", "{http://www.omg.org/XMI}id", "uid"):
        v = e.get(k)
        if v:
            return v
    return ""


def _xt(e) -> str:
    t_ = e.get("{http://www.w3.org/2001/XMLSchema-instance}type") or e.get("{http://www.omg.org/XMI}type") or ""
    return t_.split(":")[-1] if t_ else (e.tag if isinstance(e.tag, str) else "?")


def tree_diff(old, new, frag: str, acc: list, limit: int = 12) -> None:
    """Structural diff old -> new (both lxml elements): attribute writes and child insert/remove."""
    if len(acc) >= limit:
        return
    if old.tag != new.tag:
        acc.append({"frag": frag, "kind": "tag", "elem": _xt(new), "id": _eid(new)})
        return
    oa, na = dict(old.attrib), dict(new.attrib)
    for k in sorted(set(oa) | set(na)):
        if oa.get(k) != na.get(k):
            acc.append({"frag": frag, "kind": "attr+" if k not in oa else ("attr-" if k not in na else "attr~"),
                        "elem": _xt(new), "tag": new.tag if isinstance(new.tag, str) else "?", "id": _eid(new),
                        "attr": k.split("}")[-1], "old": oa.get(k), "new": na.get(k)})
    if (old.text or "") != (new.text or ""):
        acc.append({"frag": frag, "kind": "text", "elem": _xt(new), "id": _eid(new)})
    oc, nc = list(old), list(new)
    if len(oc) == len(nc):
        for a, b in zip(oc, nc):
            tree_diff(a, b, frag, acc, limit)
        return
    # different child count: align by id
    okeys = [(_eid(c), c.tag) for c in oc]
    nkeys = [(_eid(c), c.tag) for c in nc]
    for c, k in zip(nc, nkeys):
        if k not in okeys:
            acc.append({"frag": frag, "kind": "child+", "elem": _xt(c), "tag": c.tag if isinstance(c.tag, str) else "?",
                        "id": _eid(c), "parent": _xt(new), "parent_id": _eid(new)})
    for c, k in zip(oc, okeys):
        if k not in nkeys:
            acc.append({"frag": frag, "kind": "child-", "elem": _xt(c), "id": _eid(c), "parent": _xt(new)})
    omap = {k: c for c, k in zip(oc, okeys)}
    for c, k in zip(nc, nkeys):
        if k in omap:
            tree_diff(omap[k], c, frag, acc, limit)


def model_diff(before: dict, model) -> list:
    acc: list = []
    for k, f in model._loader.trees.items():
        kind = f.fragment_type.name.lower()
        if str(k) in before:
            tree_diff(before[str(k)], f.root, kind, acc)
        else:
            acc.append({"frag": kind, "kind": "fragment+", "elem": str(k)})
    return acc


def diff_class(d: dict) -> str:
    if d["kind"].startswith("attr"):
        return f"{d['frag']}:{d['elem']}@{d['attr']}{d['kind'][4:]}"
    return f"{d['frag']}:{d['elem']}:{d['kind']}"


# ------------------------------------------------------------------ operations


def formats() -> list[str]:
    import importlib.metadata as imm

    try:
        names = sorted(ep.name for ep in imm.entry_points(group="capellambse.diagram.formats"))
    except Exception:
        names = []
    return names or FORMATS_FALLBACK


def is_pvmt_value(v) -> bool:
    return type(v).__module__.startswith("capellambse.extensions.pvmt._objects")


class Exec:
    """Executes operation descriptors on one model; records introspection crashes."""

    def __init__(self, model, label: str, out: Outcome | None):
        self.m = model
        self.label = label
        self.out = out
        self.crashes: list[tuple[str, dict, str]] = []
        self.errors: collections.Counter = collections.Counter()  # exceptions from plain reads (allowed)

    def obj(self, u: str):
        return self.m.by_uuid(u)

    def dg(self, u: str):
        return self.m.diagrams.by_uuid(u)

    def _intro(self, fn: str, target, what: str, op: dict) -> None:
        """dir()/repr()/html of `target`; an escaping exception is a violation."""
        try:
            if fn == "dir":
                r = dir(target)
                if not isinstance(r, list):
                    raise TypeError("dir() did not return a list")
            elif fn == "repr":
                r = repr(target)
                if not isinstance(r, str):
                    raise TypeError("repr() did not return a str")
            elif fn == "html":
                if hasattr(target, "_repr_html_"):
                    target._repr_html_()
                elif hasattr(target, "__html__"):
                    target.__html__()
            elif fn == "mime":
                if hasattr(target, "_repr_mimebundle_"):
                    target._repr_mimebundle_()
            elif fn == "short":
                if hasattr(target, "_short_repr_"):
                    target._short_repr_()
                if hasattr(target, "_short_html_"):
                    target._short_html_()
        except Exception as e:  # noqa: BLE001
            self.crashes.append((f"{fn}|{what}|{type(e).__name__}", op,
                                 f"{fn}() of {what} raised {type(e).__name__}: {str(e)[:120]}"))

    def run(self, op: dict) -> None:
        k = op["k"]
        m = self.m
        if k == "attr":
            o = self.obj(op["u"])
            try:
                v = getattr(o, op["a"])
            except Exception as e:  # noqa: BLE001  (reading may fail; it must not mutate)
                self.errors[type(e).__name__] += 1
                return
            self._touch(v, op, type(o).__name__)
        elif k in ("dir", "repr", "html", "short"):
            o = self.obj(op["u"])
            self._intro(k, o, "object:" + type(o).__name__, op)
        elif k == "model.attr":
            try:
                v = getattr(m, op["a"])
            except Exception as e:  # noqa: BLE001
                self.errors[type(e).__name__] += 1
                return
            self._touch(v, op, "MelodyModel")
        elif k == "search":
            below = self.obj(op["below"]) if op.get("below") else None
            try:
                v = m.search(*op["args"], below=below)
            except ValueError:
                self.errors["ValueError"] += 1
                return
            self._touch(v, dict(op, deep=op.get("deep")), "search")
        elif k == "findrefs":
            try:
                for (o, a, i) in m.find_references(self.obj(op["u"])):
                    pass
            except ValueError:
                self.errors["ValueError"] += 1
        elif k == "validate":
            if op.get("u"):
                self.obj(op["u"]).validation.validate()
            else:
                res = m.validation.validate()
                for r in itertools.islice(res.iter_results(), 50):
                    repr(r)
        elif k == "metrics":
            from capellambse.extensions import metrics

            metrics.quantify_model_layers(m)
            metrics.get_summary_badge(m)
        elif k == "reqif":
            from capellambse.extensions.reqif import exporter

            buf = io.BytesIO()
            try:
                exporter.export_module(self.obj(op["u"]), buf, pretty=bool(op.get("pretty")),
                                       compress=bool(op.get("compress")))
            except Exception as e:  # noqa: BLE001  (export problems are C20's business)
                self.errors["reqif:" + type(e).__name__] += 1
        elif k == "dg.render":
            d = self.dg(op["d"])
            try:
                if op["fmt"] is None:
                    d.render(None)
                else:
                    d.render(op["fmt"], pretty_print=bool(op.get("pretty")))
            except Exception as e:  # noqa: BLE001
                self.errors["render:" + type(e).__name__] += 1
        elif k == "dg.save":
            d = self.dg(op["d"])
            try:
                d.save(io.BytesIO(), op["fmt"])
            except Exception as e:  # noqa: BLE001
                self.errors["dgsave:" + type(e).__name__] += 1
        elif k == "dg.invalidate":
            self.dg(op["d"]).invalidate_cache()
        elif k == "dg.attr":
            d = self.dg(op["d"])
            try:
                v = getattr(d, op["a"])
            except Exception as e:  # noqa: BLE001
                self.errors["dgattr:" + type(e).__name__] += 1
                return
            self._touch(v, op, "Diagram")
        elif k in ("dg.dir", "dg.repr", "dg.html", "dg.mime", "dg.short"):
            d = self.dg(op["d"])
            self._intro(k[3:], d, "diagram:" + type(d).__name__, op)
        elif k == "dglist":
            lst = m.diagrams
            for fn in ("dir", "repr", "html"):
                self._intro(fn, lst, "list:" + type(lst).__name__ + "[Diagram]", op)
        else:
            raise common.InfraError(f"unknown op {op}")

    def _touch(self, v, op: dict, owner: str) -> None:
        """Consume a read value the way a user would: iterate lists; optionally introspect them."""
        from capellambse.model import ElementList

        if isinstance(v, ElementList):
            n = 0
            for _ in v:
                n += 1
                if n > 200:
                    break
            if op.get("deep"):
                what = f"list:{type(v).__name__}"
                for fn in ("dir", "repr", "html"):
                    self._intro(fn, v, what, op)
        elif callable(v) or is_pvmt_value(v):
            return
        elif op.get("deep"):
            try:
                repr(v)
            except Exception as e:  # noqa: BLE001
                self.crashes.append((f"repr|value:{type(v).__name__}|{type(e).__name__}", op,
                                     f"repr of {owner}.{op.get('a')} value raised {type(e).__name__}: {str(e)[:100]}"))


HEAVY = {"validate", "metrics", "reqif", "dg.render", "dg.save", "dg.html", "dg.mime", "dglist"}


def is_heavy(op: dict) -> bool:
    """Operations checked individually (digest before/after); the rest is checked per batch and bisected."""
    return op["k"] in HEAVY or (op["k"] == "dg.attr" and (op["a"].startswith("as_") or op["a"] in ("nodes", "semantic_nodes")))


def gen_ops(ctx: Ctx, model, label: str, size: str, crashes: list) -> list[dict]:
    """Enumerate the read surface of one model, then sample/shuffle it."""
    rng = ctx.rng
    big = size == "big"
    objs = list(model.search())
    ops_attr: list[dict] = []
    ops_obj: list[dict] = []
    seen_dir_crash = set()
    for o in objs:
        u = getattr(o, "uuid", None)
        if not u or not hasattr(o, "_element"):
            continue
        if type(o).__name__ == "Diagram":
            continue  # diagrams are handled through model.diagrams below
        try:
            names = dir(o)
        except Exception as e:  # noqa: BLE001
            key = (type(o).__name__, type(e).__name__)
            if key not in seen_dir_crash:
                seen_dir_crash.add(key)
                crashes.append((f"dir|object:{type(o).__name__}|{type(e).__name__}", {"k": "dir", "u": u, "model": label},
                                f"dir() of object:{type(o).__name__} raised {type(e).__name__}: {str(e)[:120]}"))
            continue
        for a in names:
            if a.startswith("_"):
                continue
            ops_attr.append({"k": "attr", "u": u, "a": a})
        for k in ("dir", "repr", "html", "short"):
            ops_obj.append({"k": k, "u": u})

    # sampling fractions
    if ctx.thorough:
        f_attr, f_obj, f_deep = (1.0, 1.0, 0.25) if not big else (1.0, 0.5, 0.1)
    else:
        f_attr, f_obj, f_deep = (0.5, 0.5, 0.15) if not big else (0.06, 0.04, 0.03)
    if os.environ.get("VERIF_WIDEN") == "1":
        f_attr, f_obj = 1.0, 1.0
    ops: list[dict] = []
    for op in ops_attr:
        if rng.random() < f_attr:
            if rng.random() < f_deep:
                op = dict(op, deep=True)
            ops.append(op)
    ops += [op for op in ops_obj if rng.random() < f_obj]

    # model-level reads
    for a in dir(model):
        if a.startswith("_") or a in ("pvmt", "save", "update_diagram_cache", "activate_viewpoint"):
            continue
        ops.append({"k": "model.attr", "a": a, "deep": a not in ("diagrams",)})
    # searches
    xts = sorted({_xt(o._element) for o in objs if hasattr(o, "_element")})
    full = sorted({o._element.get("{http://www.w3.org/2001/XMLSchema-instance}type") for o in objs
                   if hasattr(o, "_element") and o._element.get("{http://www.w3.org/2001/XMLSchema-instance}type")})
    withkids = [o.uuid for o in objs if hasattr(o, "_element") and len(o._element) and getattr(o, "uuid", None)
                and type(o).__name__ != "Diagram"]
    nsearch = ctx.pick(6, 40) if not big else ctx.pick(6, 60)
    for _ in range(nsearch):
        kind = rng.choice(["short", "full", "none", "multi"])
        args = {"short": [rng.choice(xts)] if xts else [], "full": [rng.choice(full)] if full else [], "none": [],
                "multi": rng.sample(xts, min(3, len(xts)))}[kind]
        below = rng.choice(withkids) if withkids and rng.random() < 0.5 else None
        ops.append({"k": "search", "args": args, "below": below, "deep": rng.random() < (0.3 if not big or ctx.thorough else 0.15)})
    uu = [o.uuid for o in objs if getattr(o, "uuid", None) and type(o).__name__ != "Diagram"]
    for u in rng.sample(uu, min(len(uu), ctx.pick(8, 120) if not big else ctx.pick(5, 150))):
        ops.append({"k": "findrefs", "u": u})
    # validation / metrics / reqif
    ops.append({"k": "validate"})
    for u in rng.sample(uu, min(len(uu), ctx.pick(5, 60))):
        ops.append({"k": "validate", "u": u})
    ops.append({"k": "metrics"})
    try:
        mods = [o.uuid for o in model.search("CapellaModule")]
    except Exception:  # noqa: BLE001
        mods = []
    for u in mods:
        ops.append({"k": "reqif", "u": u})
        ops.append({"k": "reqif", "u": u, "pretty": True})
        ops.append({"k": "reqif", "u": u, "compress": True})

    # diagrams
    fmts = formats()
    dgs = [d.uuid for d in model.diagrams]
    if dgs:
        ops.append({"k": "dglist"})
    for d in dgs:
        ops.append({"k": "dg.render", "d": d, "fmt": None})
        for k in ("dg.dir", "dg.repr", "dg.short"):
            ops.append({"k": k, "d": d})
        try:
            dnames = [a for a in dir(model.diagrams.by_uuid(d)) if not a.startswith("_")]
        except Exception:  # noqa: BLE001  (reported by the dg.dir op)
            dnames = ["nodes", "semantic_nodes", "target", "type", "filters", "viewpoint", "name", "uuid",
                      "description", "representation_path", "xtype"]
        light = [a for a in dnames if not a.startswith("as_") and a not in ("save", "render", "invalidate_cache")]
        heavy = [a for a in dnames if a.startswith("as_")]
        for a in light:
            # dir() of a node list evaluates every attribute of every member: sampled on the big models
            deep = True if (ctx.thorough or not big or a not in ("nodes", "semantic_nodes")) else rng.random() < 0.2
            ops.append({"k": "dg.attr", "d": d, "a": a, "deep": deep})
        if ctx.thorough:
            sel_f, sel_a, extra = fmts, heavy, True
        elif not big:
            sel_f = [f for f in fmts if rng.random() < 0.5]
            sel_a = [a for a in heavy if rng.random() < 0.25]
            extra = rng.random() < 0.5
        else:  # quick, big model: a fixed small number of conversions (see below), none here
            sel_f, sel_a, extra = [], [], False
        for f in sel_f:
            ops.append({"k": "dg.render", "d": d, "fmt": f, "pretty": rng.random() < 0.3})
        for a in sel_a:
            ops.append({"k": "dg.attr", "d": d, "a": a})
        if extra:
            ops.append({"k": "dg.html", "d": d})
            ops.append({"k": "dg.mime", "d": d})
            ops.append({"k": "dg.save", "d": d, "fmt": rng.choice([f for f in fmts if f in ("svg", "png", "svg_confluence", "datauri_svg")] or ["svg"])})
        if rng.random() < 0.5:
            ops.append({"k": "dg.invalidate", "d": d})
            ops.append({"k": "dg.render", "d": d, "fmt": None})

    if big and not ctx.thorough and dgs:
        # every diagram is parsed above (render(None)); the format converters never see the model, so a
        # fixed handful of conversions keeps the quick tier's time stable
        for _ in range(4):
            ops.append({"k": "dg.render", "d": rng.choice(dgs), "fmt": rng.choice(fmts), "pretty": rng.random() < 0.3})
        for _ in range(2):
            ops.append({"k": "dg.attr", "d": rng.choice(dgs), "a": "as_" + rng.choice(fmts)})
        d = rng.choice(dgs)
        ops += [{"k": "dg.html", "d": d}, {"k": "dg.mime", "d": d}, {"k": "dg.save", "d": d, "fmt": "svg"}]

    # repetition + order
    reps = [dict(rng.choice(ops)) for _ in range(len(ops) // 10)] if ops else []
    ops += reps
    rng.shuffle(ops)
    return ops


# ------------------------------------------------------------------ running one model


def op_class(op: dict) -> str:
    k = op.get("k", "?")
    if k.startswith("dg.") or k == "dglist":
        return "render"
    if k == "attr":
        return "attr:" + op.get("a", "?")
    if k == "model.attr":
        return "model." + op.get("a", "?")
    return k


def report_mutation(out: Outcome, label: str, op: dict, diffs: list, how: str) -> None:
    classes = sorted({diff_class(d) for d in diffs}) or ["unknown"]
    for c in classes:
        sig = f"mutates|{op_class(op)}|{c}"
        ex = next((d for d in diffs if diff_class(d) == c), {})
        out.find(sig, f"[{label}] {how}: read-only operation {op} changed what save() writes: {c} "
                      f"(element id {ex.get('id')}, {ex.get('old')!r} -> {ex.get('new')!r})",
                 {"kind": "mutation", "model": label, "op": op, "diff": [d for d in diffs if diff_class(d) == c][:3]})
    out.extra.setdefault("mutated_models", [])
    if label not in out.extra["mutated_models"]:
        out.extra["mutated_models"].append(label)


def bisect_batch(ctx: Ctx, label: str, history: list[dict], lo: int, hi: int) -> tuple[dict, list] | None:
    """Replay history[:lo] on a fresh model unchecked, then history[lo:hi] one by one."""
    m = open_model(ctx, label)
    ex = Exec(m, label, None)
    for op in history[:lo]:
        try:
            ex.run(op)
        except Exception:  # noqa: BLE001
            pass
    for op in history[lo:hi]:
        before = fast_snap(m)
        roots = copy_roots(m)
        try:
            ex.run(op)
        except Exception:  # noqa: BLE001
            pass
        if fast_snap(m) != before:
            return op, model_diff(roots, m)
    return None


def run_reads(ctx: Ctx, out: Outcome, label: str, size: str) -> dict:
    """The pure-read phase on one model. Returns stats."""
    m = open_model(ctx, label)
    crashes: list = []
    ops = gen_ops(ctx, m, label, size, crashes)
    ex = Exec(m, label, out)
    ex.crashes = crashes
    full0 = full_snap(m)
    snap = fast_snap(m)
    roots = copy_roots(m)
    batch_start = 0
    BATCH = 64
    stats = collections.Counter()
    checkpoints = max(1, len(ops) // ctx.pick(4, 8))
    for i, op in enumerate(ops):
        heavy = is_heavy(op)
        if heavy and batch_start < i:
            # close the pending light batch first
            s = fast_snap(m)
            if s != snap:
                found = bisect_batch(ctx, label, ops, batch_start, i)
                diffs = model_diff(roots, m)
                report_mutation(out, label, found[0] if found else {"k": "batch", "ops": ops[batch_start:i][:5]},
                                found[1] if found else diffs, "bisected" if found else "batch (not reproduced on replay)")
                snap, roots = s, copy_roots(m)
            batch_start = i
        t_op = time.time()
        try:
            ex.run(op)
        except common.InfraError:
            raise
        except Exception as e:  # noqa: BLE001  — an entry point itself blew up (validate/metrics/...): not a C11 matter
            ex.errors[f"{op['k']}:{type(e).__name__}"] += 1
        stats[op["k"]] += 1
        tb = out.extra.setdefault("seconds_by_op", {})
        tb[op["k"]] = round(tb.get(op["k"], 0.0) + time.time() - t_op, 3)
        out.case((label, common.sha(op)), {"model": label, "op": op} if i < 1 else None, True)
        if heavy or (i + 1 - batch_start) >= BATCH or i == len(ops) - 1:
            s = fast_snap(m)
            if s != snap:
                if heavy or batch_start == i:
                    report_mutation(out, label, op, model_diff(roots, m), "direct")
                else:
                    found = bisect_batch(ctx, label, ops, batch_start, i + 1)
                    report_mutation(out, label, found[0] if found else {"k": "batch", "ops": ops[batch_start:i + 1][:5]},
                                    found[1] if found else model_diff(roots, m),
                                    "bisected" if found else "batch (not reproduced on replay)")
                snap, roots = s, copy_roots(m)
            batch_start = i + 1
        if (i + 1) % checkpoints == 0:
            out.traces_validated += 1
    # the observation point itself
    full1 = full_snap(m)
    changed = sorted(k for k in full0 if full0[k] != full1.get(k))
    out.traces_validated += 1
    mutated = label in out.extra.get("mutated_models", [])
    if changed and not mutated:
        out.find("mutates|sequence|write_xml-differs",
                 f"[{label}] write_xml output of {changed} differs after the read sequence although no single operation was caught",
                 {"kind": "sequence", "model": label, "fragments": changed})
    if not changed and mutated:
        out.extra.setdefault("notes", []).append(f"{label}: per-op digest changed but write_xml bytes are equal at the end")
    for sig, op, what in ex.crashes:
        out.find("introspect|" + sig, f"[{label}] {what}", {"kind": "introspect", "model": label, "op": op, "sig": sig})
    for k, v in stats.items():
        out.hit("op:" + k, v)
    for k, v in ex.errors.items():
        out.hit("read-raised:" + k, v)
    return {"ops": len(ops), "objects": len(m.search()), "diagrams": len(m.diagrams), "model": m, "changed": changed}


def run_save_level(ctx: Ctx, out: Outcome, label: str, size: str) -> None:
    """save() after a read sequence == save() of an untouched copy, byte for byte."""
    a = open_model(ctx, label, copy="A")
    ex = Exec(a, label, None)
    rng = ctx.rng
    objs = [o for o in a.search() if getattr(o, "uuid", None) and type(o).__name__ != "Diagram"]
    for o in rng.sample(objs, min(len(objs), 60 if size == "small" else 40)):
        for n in dir(o):
            if not n.startswith("_"):
                ex.run({"k": "attr", "u": o.uuid, "a": n, "deep": rng.random() < 0.1})
        ex.run({"k": "repr", "u": o.uuid})
    for d in list(a.diagrams):
        ex.run({"k": "dg.render", "d": d.uuid, "fmt": None})
    ex.run({"k": "validate"})
    ex.run({"k": "metrics"})
    a.save()
    dir_a = ctx.scratch / "copy-A"
    files_a = {p.relative_to(dir_a): hashlib.sha256(p.read_bytes()).hexdigest() for p in dir_a.rglob("*") if p.is_file()}
    del a
    b = open_model(ctx, label, copy="B")
    b.save()
    dir_b = ctx.scratch / "copy-B"
    files_b = {p.relative_to(dir_b): hashlib.sha256(p.read_bytes()).hexdigest() for p in dir_b.rglob("*") if p.is_file()}
    bad = sorted(str(k) for k in set(files_a) | set(files_b) if files_a.get(k) != files_b.get(k))
    out.case((label, "save-level"), None, True)
    out.traces_validated += 1
    out.hit("save-level")
    if bad:
        out.find("mutates|save-level|files-differ",
                 f"[{label}] save() after reads/renders wrote different bytes than save() of an untouched copy: {bad}",
                 {"kind": "save-level", "model": label, "files": bad})
    shutil.rmtree(dir_a, ignore_errors=True)
    shutil.rmtree(dir_b, ignore_errors=True)


# ------------------------------------------------------------------ parse correspondence (cases)


def collect_parse_cases(ctx: Ctx, model, label: str, size: str, acc: list) -> None:
    """Export diagrams (all in thorough, a seeded sample in quick) and observe the implementation on them."""
    dgs = list(model.diagrams)
    if not dgs:
        return
    if not ctx.thorough:
        dgs = ctx.rng.sample(dgs, min(len(dgs), 1 if size == "small" else 3))
    for d in dgs:
        d.invalidate_cache()
        try:
            rq = factories.export_diagram(model._loader, d._element)
        except Exception as e:  # noqa: BLE001
            acc.append((label, d.uuid, None, {"export_error": repr(e)}))
            continue
        obs = factories.observe(model._loader, d._element)
        acc.append((label, d.uuid, rq, obs))


# ------------------------------------------------------------------ write barrier + effect-table tie


def open_model_traced(ctx: Ctx, label: str):
    """Load a corpus model whose elements log every mutator call (c11_barrier)."""
    setup(ctx)
    barrier.install()
    try:
        return open_model(ctx, label)
    finally:
        barrier.uninstall()


def static_effects() -> dict:
    """The generated effect table, as {function id: {(recv, op, key)}} (+ escape / follow rows)."""
    if "static_effects" not in _ENV:
        import gen_effects

        d = gen_effects.collect()
        idx: dict = {}
        for f, effs in d["effects"].items():
            idx[f] = {(r if isinstance(r, str) else "localv", o, k) for r, o, k, _ln in effs}
        _ENV["static_effects"] = idx
        _ENV["static_tables"] = d["tables"]
    return _ENV["static_effects"]


def covered(static: dict, acc: tuple) -> bool:
    fid, recv, op, key = acc
    rows = static.get(fid)
    if rows is None:
        return False
    if op == "escape":
        return any(o == "escape" and k == key for _r, o, k in rows)
    if recv == "loader":
        return any(r == "loader" and o in ("follow", "field") for r, o, _k in rows)
    for r, o, k in rows:
        if r != recv:
            continue
        same_op = o == op or {o, op} <= {"get", "index"} and recv == "attrib" and False
        if same_op and (k == key or k == "*"):
            return True
    return False


def run_effects_tie(ctx: Ctx, out: Outcome, label: str, m) -> None:
    """Record what the parser reads while every diagram of the model is parsed and queried; every recorded access must
    be a row of the generated effect table (the table is what the Lean obligations are about)."""
    static = static_effects()
    barrier.ACCESSES.clear()
    barrier.WRITES.clear()
    from capellambse import aird

    barrier.RECORD["on"] = True
    try:
        for d in list(m.diagrams):
            for params in ({}, {"sorted_exchangedItems": True}):
                d.invalidate_cache()
                try:
                    aird.parse_diagram(m._loader, d._element, **params)
                except Exception as e:  # noqa: BLE001
                    out.hit("effects:parse-raised:" + type(e).__name__)
            for a in ("nodes", "viewpoint", "target", "type", "representation_path"):
                try:
                    v = getattr(d, a)
                    if a == "nodes":
                        len(v)
                except Exception as e:  # noqa: BLE001
                    out.hit("effects:attr-raised:" + type(e).__name__)
            try:
                flt = d.filters
                list(flt)
                len(flt)
                "x" in flt
            except Exception as e:  # noqa: BLE001
                out.hit("effects:filters-raised:" + type(e).__name__)
        list(aird.enumerate_descriptors(m._loader))
    finally:
        barrier.RECORD["on"] = False
    for acc, n in sorted(barrier.ACCESSES.items()):
        out.case(("effects",) + acc, {"effect": list(acc), "times": n} if len(out.samples) < 5 else None, True)
        out.hit("effects:" + acc[2], 1)
        if not covered(static, acc):
            out.disagree("effects", {"model": label, "access": list(acc), "times": n}, "performed by the implementation",
                         "no such row in the generated effect table")
    out.extra.setdefault("effects_functions_exercised", set()).update(a[0] for a in barrier.ACCESSES)
    if barrier.WRITES:
        for w in barrier.WRITES[:3]:
            dsc = barrier.describe(w)
            out.find(f"writes|render|{dsc['elem']}@{dsc['key']}|{dsc['op']}",
                     f"[{label}] parsing/querying the diagrams called a mutator on a model tree: {dsc}",
                     {"kind": "barrier-render", "model": label})
    out.traces_validated += 1


def barrier_loop(out: Outcome, label: str, m, ops: list[dict], edits: list | None) -> dict:
    """Run `ops` one by one on a traced model; every mutator call on a model tree during an op is a finding: a net change
    as `mutates|…` (with the structural diff), a change that is undone within the op as `writes-transient|…`."""
    ex = Exec(m, label, None)
    snap = fast_snap(m)
    roots = copy_roots(m)
    stats = {"ops": 0, "ops_with_writes": 0, "mutator_calls": 0}
    for op in ops:
        barrier.WRITES.clear()
        try:
            ex.run(op)
        except common.InfraError:
            raise
        except Exception:  # noqa: BLE001
            pass
        stats["ops"] += 1
        out.case((label, "barrier" if edits is None else "edited", common.sha(op)), None, True)
        if not barrier.WRITES:
            continue
        writes = [barrier.describe(w) for w in barrier.WRITES[:20]]
        stats["ops_with_writes"] += 1
        stats["mutator_calls"] += len(barrier.WRITES)
        s2 = fast_snap(m)
        rop = op if edits is None else dict(op, edits=edits)
        if s2 != snap:
            report_mutation(out, label, rop, model_diff(roots, m), "write barrier" + ("" if edits is None else " (edited state)"))
            snap, roots = s2, copy_roots(m)
        else:
            for dsc in writes[:3]:
                out.find(f"writes-transient|{op_class(op)}|{dsc['elem']}@{dsc['key']}|{dsc['op']}",
                         f"[{label}] read-only operation {op} called a mutator on a model tree ({dsc}); the serialisation is "
                         f"unchanged afterwards (undone or idempotent), so only the barrier sees it",
                         {"kind": "transient", "model": label, "op": rop, "writes": writes[:5]})
    for k, v in ex.errors.items():
        out.hit(("barrier" if edits is None else "edited") + "-read-raised:" + k, v)
    for sig, op, what in ex.crashes:
        out.find("introspect|" + sig, f"[{label}] (edited state) {what}",
                 {"kind": "introspect", "model": label, "op": op if edits is None else dict(op, edits=edits), "sig": sig})
    return stats


# ------------------------------------------------------------------ read surface on EDITED states

HREF_ID = __import__("re").compile(r"#([0-9a-fA-F-]{36})")


def drawn_uuids(model) -> list[str]:
    """ids of the semantic elements the diagrams reference (`target` / `semanticElements` hrefs of the .aird)."""
    seen: dict[str, None] = {}
    for f in model._loader.trees.values():
        if f.fragment_type.name != "VISUAL":
            continue
        for e in f.root.iter("semanticElements", "target"):
            mm = HREF_ID.search(e.get("href") or "")
            if mm:
                seen.setdefault(mm.group(1))
    return list(seen)


def api_delete(obj) -> str | None:
    """Delete `obj` through the API: remove it from the containment list of its parent that holds it."""
    import inspect

    from capellambse.model import ElementList

    par = obj.parent
    for a in dir(type(par)):
        if a.startswith("_"):
            continue
        acc = inspect.getattr_static(type(par), a, None)
        if type(acc).__name__ not in ("DirectProxyAccessor", "Containment", "RoleTagAccessor"):
            continue
        try:
            lst = getattr(par, a)
        except Exception:  # noqa: BLE001
            continue
        if isinstance(lst, ElementList) and any(x._element is obj._element for x in lst):
            try:
                lst.remove(obj)
            except Exception:  # noqa: BLE001
                continue
            if obj._element.getparent() is None:
                return a
    return None


def gen_edits(ctx: Ctx, model) -> list[dict]:
    """A seeded edit history: delete / rename / move objects that are drawn on diagrams, and bring requirement data
    into inconsistent-but-legal states. Descriptors only; `apply_edits` performs them."""
    rng = ctx.rng
    edits: list[dict] = []
    drawn = []
    for u in drawn_uuids(model):
        try:
            o = model.by_uuid(u)
        except Exception:  # noqa: BLE001
            continue
        if type(o).__name__ in ("Diagram",) or not hasattr(o, "_element"):
            continue
        drawn.append(u)
    rng.shuffle(drawn)
    nd, nr, nm = ctx.pick(5, 14), ctx.pick(3, 8), ctx.pick(2, 6)
    for u in drawn[:nd]:
        edits.append({"e": "delete", "u": u})
    for u in drawn[nd:nd + nr]:
        edits.append({"e": "rename", "u": u, "v": rng.choice(["", "Renamed <&> ✓", "x" * 40])})
    for u in drawn[nd + nr:nd + nr + nm]:
        edits.append({"e": "move", "u": u, "pick": rng.randrange(1 << 16)})
    # requirement data
    try:
        enums = [o.uuid for o in model.search("EnumerationValueAttribute")]
        attrs = [o.uuid for o in model.search() if type(o).__name__.endswith("ValueAttribute")]
        defs = [o.uuid for o in model.search("AttributeDefinitionEnumeration")]
        adefs = [o.uuid for o in model.search("AttributeDefinition", "AttributeDefinitionEnumeration")]
        mods = [o.uuid for o in model.search("CapellaModule")]
        reqs = [o.uuid for o in model.search("Requirement")]
    except Exception:  # noqa: BLE001
        enums, attrs, defs, adefs, mods, reqs = [], [], [], [], [], []
    for u in enums:
        edits.append({"e": "enum-add-values", "u": u})
    for u in defs:
        edits.append({"e": "set", "u": u, "a": "multi_valued", "v": False})
    for u in rng.sample(attrs, min(len(attrs), 2)):
        edits.append({"e": "set", "u": u, "a": "definition", "v": None})
    for u in rng.sample(adefs, min(len(adefs), 1)):
        edits.append({"e": "set", "u": u, "a": "data_type", "v": None})
    for u in rng.sample(reqs, min(len(reqs), 2)):
        edits.append({"e": "set", "u": u, "a": "type", "v": None})
    for u in mods[:1]:
        edits.append({"e": "empty-module", "u": u})
    rng.shuffle(edits)
    return edits


def apply_edits(model, edits: list[dict]) -> collections.Counter:
    done: collections.Counter = collections.Counter()
    for ed in edits:
        if ed["e"] == "layout":   # a schema-legal .aird variation (c11_layout), not an API edit
            try:
                done[f"layout:{ed['v']}:" + layout.apply_variation(model, ed)] += 1
            except Exception as e:  # noqa: BLE001
                done[f"layout:{ed['v']}:raised:{type(e).__name__}"] += 1
            continue
        try:
            o = model.by_uuid(ed["u"])
        except Exception:  # noqa: BLE001
            done[ed["e"] + ":gone"] += 1
            continue
        try:
            if ed["e"] == "delete":
                done["delete:" + ("ok" if api_delete(o) else "no-containment-list")] += 1
            elif ed["e"] == "rename":
                o.name = ed["v"]
                done["rename:ok"] += 1
            elif ed["e"] == "move":
                par = o.parent
                sibs = [p for p in model.search(type(par).__name__) if p._element is not par._element
                        and not any(a is o._element for a in p._element.iterancestors()) and p._element is not o._element]
                if not sibs:
                    done["move:no-destination"] += 1
                    continue
                dest = sibs[ed["pick"] % len(sibs)]
                import inspect

                moved = False
                for a in dir(type(par)):
                    acc = inspect.getattr_static(type(par), a, None)
                    if a.startswith("_") or type(acc).__name__ not in ("DirectProxyAccessor", "Containment"):
                        continue
                    try:
                        if any(x._element is o._element for x in getattr(par, a)):
                            getattr(dest, a).append(o)
                            moved = True
                            break
                    except Exception:  # noqa: BLE001
                        continue
                done["move:" + ("ok" if moved else "failed")] += 1
            elif ed["e"] == "enum-add-values":
                d = o.definition
                pool = list(d.data_type.values) if d is not None and d.data_type is not None else []
                have = {v.uuid for v in o.values}
                for v in pool:
                    if v.uuid not in have:
                        o.values.append(v)
                done["enum-add-values:" + str(min(len(o.values), 3))] += 1
            elif ed["e"] == "set":
                setattr(o, ed["a"], ed["v"])
                done[f"set:{ed['a']}"] += 1
            elif ed["e"] == "empty-module":
                lst = o.parent.requirement_modules
                lst.create(long_name="empty module")
                done["empty-module:ok"] += 1
        except Exception as e:  # noqa: BLE001
            done[f"{ed['e']}:raised:{type(e).__name__}"] += 1
    return done


def edited_ops(ctx: Ctx, model, edits: list[dict]) -> list[dict]:
    """The read surface that matters after an edit: every diagram in several formats and its introspection, requirement
    export of every module in every mode, validation, metrics, and reads around the edited objects."""
    rng = ctx.rng
    ops: list[dict] = []
    fmts = formats()
    for d in [d.uuid for d in model.diagrams]:
        ops.append({"k": "dg.render", "d": d, "fmt": None})
        ops.append({"k": "dg.render", "d": d, "fmt": "svg", "pretty": rng.random() < 0.5})
        for k in ("dg.html", "dg.mime", "dg.repr", "dg.dir", "dg.short"):
            ops.append({"k": k, "d": d})
        for a in ("nodes", "semantic_nodes", "as_svg", "as_html_img", "target", "filters", "viewpoint", "type"):
            ops.append({"k": "dg.attr", "d": d, "a": a, "deep": a in ("nodes",) and rng.random() < 0.3})
        if ctx.thorough:
            for f in fmts:
                ops.append({"k": "dg.render", "d": d, "fmt": f})
    if list(model.diagrams):
        ops.append({"k": "dglist"})
    try:
        mods = [o.uuid for o in model.search("CapellaModule")]
    except Exception:  # noqa: BLE001
        mods = []
    for u in mods:
        for kw in ({}, {"pretty": True}, {"compress": True}):
            ops.append(dict({"k": "reqif", "u": u}, **kw))
    ops.append({"k": "validate"})
    ops.append({"k": "metrics"})
    # reads around the edited objects (the objects themselves, their parents, requirement objects)
    focus: list[str] = []
    for ed in edits:
        try:
            o = model.by_uuid(ed["u"])
            focus.append(o.uuid)
            focus.append(o.parent.uuid)
        except Exception:  # noqa: BLE001
            continue
    try:
        focus += [o.uuid for o in model.search("Requirement", "EnumerationValueAttribute", "CapellaModule",
                                               "AttributeDefinitionEnumeration")][:ctx.pick(40, 400)]
    except Exception:  # noqa: BLE001
        pass
    for u in dict.fromkeys(focus):
        try:
            o = model.by_uuid(u)
            names = [a for a in dir(o) if not a.startswith("_")]
        except Exception:  # noqa: BLE001
            continue
        for a in names:
            ops.append({"k": "attr", "u": u, "a": a, "deep": rng.random() < 0.2})
        for k in ("repr", "html", "short", "dir"):
            ops.append({"k": k, "u": u})
    reps = [dict(rng.choice(ops)) for _ in range(len(ops) // 10)]
    ops += reps
    rng.shuffle(ops)
    return ops


def run_edited(ctx: Ctx, out: Outcome, label: str, size: str) -> None:
    """Edit first (through the API), then nothing but reads, with the write barrier and the digest after every op."""
    m = open_model_traced(ctx, label)
    edits = gen_edits(ctx, m)
    done = apply_edits(m, edits)
    for k, v in done.items():
        out.hit("edit:" + k, v)
    ops = edited_ops(ctx, m, edits)
    if not ctx.thorough and len(ops) > 2500:
        heavy = [op for op in ops if op["k"] in ("dg.render", "dg.html", "dg.mime", "reqif", "validate", "metrics")]
        rest = [op for op in ops if op not in heavy]
        ops = heavy + ctx.rng.sample(rest, 2500 - min(2500, len(heavy)))
        ctx.rng.shuffle(ops)
    stats = barrier_loop(out, label, m, ops, edits)
    # the dangling visual references the deletes were meant to produce
    dangling = 0
    for u in drawn_uuids(m):
        try:
            m._loader[u]
        except KeyError:
            dangling += 1
    out.hit("edited:dangling-diagram-references", dangling)
    out.hit("edited:ops", stats["ops"])
    out.extra.setdefault("edited", {})[label] = dict(stats, edits=len(edits), done=dict(done), dangling_diagram_refs=dangling)
    out.traces_validated += 1


def run_barrier(ctx: Ctx, out: Outcome, label: str, size: str) -> None:
    """Write barrier: a seeded sample of the read surface on a model whose lxml mutators are wrapped. A write that is
    undone before the next digest is seen here (and only here)."""
    m = open_model_traced(ctx, label)
    run_effects_tie(ctx, out, label, m)
    rng = ctx.rng
    crashes: list = []
    allops = gen_ops(ctx, m, label, size, crashes)
    keep = [op for op in allops if op["k"].startswith("dg.") or op["k"] in ("validate", "metrics", "reqif", "dglist", "search", "findrefs")]
    rest = [op for op in allops if op not in keep]
    n = ctx.pick(250, 4000) if size == "small" else ctx.pick(400, 6000)
    if not ctx.thorough and size == "big":
        keep = [op for op in keep if op["k"] != "dg.attr" or not op.get("deep")] or keep
    ops = keep + rng.sample(rest, min(len(rest), n))
    rng.shuffle(ops)
    stats = barrier_loop(out, label, m, ops, None)
    out.hit("barrier:ops", stats["ops"])
    out.hit("barrier:ops-with-mutator-calls", stats["ops_with_writes"])
    out.extra.setdefault("barrier", {})[label] = stats
    out.traces_validated += 1


# ------------------------------------------------------------------ .aird layout variations (round 4)


def copy_model_dir(ctx: Ctx, label: str, tag: str) -> tuple[pathlib.Path, pathlib.Path, dict]:
    """A scratch copy of one corpus model (its directory + its resource directories). Returns (base, entry, kwargs)."""
    env = setup(ctx)
    _, entry, res, _ = next(m for m in MODELS if m[0] == label)
    base = ctx.scratch / f"copy-{tag}"
    if base.exists():
        shutil.rmtree(base)
    rel = pathlib.PurePosixPath(entry)
    shutil.copytree(env["data"] / rel.parent, base / rel.parent)
    kw = {}
    if res:
        for v in res.values():
            if not (base / v).exists():
                shutil.copytree(env["data"] / v, base / v)
        kw["resources"] = {k: str(base / v) for k, v in res.items()}
    return base, base / rel, kw


def dir_bytes(base: pathlib.Path) -> dict[str, str]:
    return {str(p.relative_to(base)): hashlib.sha256(p.read_bytes()).hexdigest() for p in sorted(base.rglob("*")) if p.is_file()}


def layout_ops(ctx: Ctx, dgs: list[str]) -> list[dict]:
    rng = ctx.rng
    ops: list[dict] = []
    for d in dgs:
        ops.append({"k": "dg.render", "d": d, "fmt": None})
        ops.append({"k": "dg.render", "d": d, "fmt": "svg", "pretty": rng.random() < 0.5})
        for k in ("dg.html", "dg.mime", "dg.repr", "dg.dir", "dg.short"):
            ops.append({"k": k, "d": d})
        for a in ("nodes", "semantic_nodes", "as_svg", "filters"):
            ops.append({"k": "dg.attr", "d": d, "a": a, "deep": a == "nodes" and rng.random() < 0.3})
        ops.append({"k": "dg.save", "d": d, "fmt": "svg"})
        ops.append({"k": "dg.invalidate", "d": d})
        ops.append({"k": "dg.render", "d": d, "fmt": None})
    rng.shuffle(ops)
    return ops


def run_layout(ctx: Ctx, out: Outcome, label: str, size: str) -> None:
    """Schema-legal layout variations are written into a few nodes of a scratch copy of the model and saved; the copy is
    loaded again (so the variation is an input FILE), the varied diagrams are rendered / displayed / queried under the
    write barrier with a digest after every op, then save() must write what was loaded, byte for byte."""
    env = setup(ctx)
    rng = ctx.rng
    base, entry, kw = copy_model_dir(ctx, label, "L")
    a = env["capellambse"].MelodyModel(str(entry), **kw)
    dgs = list(a.diagrams)
    if not dgs:
        shutil.rmtree(base, ignore_errors=True)
        return
    nd = (len(dgs) if size == "small" else min(len(dgs), 12)) if ctx.thorough else (min(len(dgs), 2) if size == "small" else 4)
    sel = rng.sample(dgs, nd)
    edits: list[dict] = []
    for d in sel:
        edits += layout.plan(ctx, a, d, ctx.pick(1, 2))
    done = apply_edits(a, edits)
    for k, v in done.items():
        out.hit("vary:" + k, v)
    a.save()
    del a
    before = dir_bytes(base)
    barrier.install()
    try:
        m = env["capellambse"].MelodyModel(str(entry), **kw)
    finally:
        barrier.uninstall()
    by_dg: dict = collections.defaultdict(list)
    for ed in edits:
        by_dg[ed["diagram"]].append(ed)
    stats = {"ops": 0, "ops_with_writes": 0, "mutator_calls": 0}
    for d in sel:
        # one loop per diagram so that a replay needs only that diagram's variations
        st = barrier_loop(out, label, m, layout_ops(ctx, [d.uuid]), by_dg[d.uuid])
        for k in stats:
            stats[k] += st[k]
    m.save()
    after = dir_bytes(base)
    bad = sorted(k for k in set(before) | set(after) if before.get(k) != after.get(k))
    out.case((label, "layout-save-level"), None, True)
    out.traces_validated += 1
    if bad:
        out.find("mutates|save-level|files-differ|layout-variations",
                 f"[{label}] with layout variations {sorted({e['v'] for e in edits})} in {len(sel)} diagrams: save() after "
                 f"rendering wrote different bytes than the files that were loaded: {bad}",
                 {"kind": "layout-save-level", "model": label, "edits": edits, "files": bad})
    out.hit("layout:variations", len(edits))
    out.hit("layout:ops", stats["ops"])
    out.extra.setdefault("layout", {})[label] = dict(stats, diagrams=len(sel), variations=len(edits), done=dict(done))
    shutil.rmtree(base, ignore_errors=True)


# ------------------------------------------------------------------ PVMT (documented exception)

PVMT_OK_TAGS = {"ownedPropertyValueGroups", "ownedPropertyValuePkgs", "ownedPropertyValues"}


def pvmt_ops(model, rng, limit: int) -> list[dict]:
    objs = [o for o in model.search() if getattr(o, "uuid", None) and type(o).__name__ != "Diagram"
            and hasattr(o, "pvmt")]
    ops = [{"k": "pvmt.model"}]
    for o in (objs if len(objs) <= limit else rng.sample(objs, limit)):
        for k in ("pvmt.groupdefs", "pvmt.applied", "pvmt.repr", "pvmt.html", "pvmt.getall"):
            ops.append({"k": k, "u": o.uuid})
    rng.shuffle(ops)
    return ops


def pvmt_exec(model, op: dict, errors: collections.Counter) -> None:
    try:
        if op["k"] == "pvmt.model":
            cfg = model.pvmt
            list(cfg.domains)
            repr(cfg)
            return
        o = model.by_uuid(op["u"])
        p = o.pvmt
        if op["k"] == "pvmt.groupdefs":
            list(p.groupdefs)
        elif op["k"] == "pvmt.applied":
            list(p.applied_groups)
        elif op["k"] == "pvmt.repr":
            repr(p)
        elif op["k"] == "pvmt.html":
            p._repr_html_()
        elif op["k"] == "pvmt.getall":
            for g in p.groupdefs:
                grp = p[g.fullname]
                for pv in g.property_values:
                    p[f"{g.fullname}.{pv.name}"]
                del grp
    except Exception as e:  # noqa: BLE001
        errors["pvmt:" + type(e).__name__] += 1


def run_pvmt(ctx: Ctx, out: Outcome, label: str, model) -> None:
    rng = ctx.rng
    errors: collections.Counter = collections.Counter()
    ops = pvmt_ops(model, rng, ctx.pick(40, 400))
    def dup_groups() -> set:
        """(owner id, group name) pairs that occur more than once among ownedPropertyValueGroups."""
        seen: collections.Counter = collections.Counter()
        for f in model._loader.trees.values():
            for g in f.root.iter("ownedPropertyValueGroups"):
                par = g.getparent()
                seen[(_eid(par) if par is not None else "", g.get("name"))] += 1
        return {k for k, n in seen.items() if n > 1}

    s0 = fast_snap(model)
    roots0 = copy_roots(model)
    dups0 = dup_groups()
    for op in ops:
        pvmt_exec(model, op, errors)
    s1 = fast_snap(model)
    for owner, gname in sorted(dup_groups() - dups0):
        out.find("pvmt|applied-twice",
                 f"[{label}] PVMT access applied group {gname!r} more than once to element {owner}",
                 {"kind": "pvmt", "model": label, "owner": owner, "group": gname})
    diffs = []
    if s1 != s0:
        diffs = model_diff(roots0, model)
        acc: list = []
        for k, f in model._loader.trees.items():
            tree_diff(roots0[str(k)], f.root, f.fragment_type.name.lower(), acc, limit=10_000)
        for d in acc:
            ok = (d["kind"] == "child+" and d.get("tag") in PVMT_OK_TAGS) or \
                 (d["kind"] in ("attr+", "attr~") and d.get("attr") == "appliedPropertyValueGroups"
                  and (d.get("new") or "").startswith(d.get("old") or ""))
            if not ok:
                out.find(f"pvmt|not-additive|{diff_class(d)}",
                         f"[{label}] PVMT access changed more than adding property value groups: {d}",
                         {"kind": "pvmt", "model": label, "diff": d})
        out.hit("pvmt:first-use-applied-groups", len([d for d in acc if d["kind"] == "child+"]))
    else:
        out.hit("pvmt:first-use-no-change")
    # second round, same operations in another order: nothing may change any more
    rng.shuffle(ops)
    roots1 = copy_roots(model)
    for op in ops:
        pvmt_exec(model, op, errors)
        out.case((label, "pvmt", common.sha(op)), None, True)
    s2 = fast_snap(model)
    out.traces_validated += 1
    if s2 != s1:
        d2 = model_diff(roots1, model)
        out.find("pvmt|second-use-mutates|" + (diff_class(d2[0]) if d2 else "unknown"),
                 f"[{label}] repeating PVMT accesses changed the model again: {d2[:2]}",
                 {"kind": "pvmt2", "model": label, "diff": d2[:3]})
    for k, v in errors.items():
        out.hit("read-raised:" + k, v)
    del diffs


# ------------------------------------------------------------------ factories: implementation side of the correspondence

XSI = "{http://www.w3.org/2001/XMLSchema-instance}type"
FACT_KINDS = {
    "CapellaIncomingRelation": "reqrel", "CapellaOutgoingRelation": "reqrel",
    "AbstractCapabilityInclude": "incext", "AbstractCapabilityExtend": "incext",
    "ChoicePseudoState": "pseudo", "ForkPseudoState": "pseudo",
}


def find_factory_sites(model) -> list[dict]:
    """Every diagram element of the model that is drawn by one of the three special factories."""
    from capellambse import aird

    ld = model._loader
    sites = []
    for d in model.diagrams:
        try:
            root = ld.follow_link(d._element, d._element.attrib["repPath"])
        except Exception:  # noqa: BLE001
            continue
        for de in root.iter("ownedDiagramElements"):
            tgt = next(de.iterchildren("target"), None)
            if tgt is None:
                continue
            xt = (tgt.get("{http://www.omg.org/XMI}type") or tgt.get(XSI) or "")
            short = xt.split(":")[-1]
            if short not in FACT_KINDS:
                continue
            sems = list(de.iterchildren("semanticElements"))
            try:
                sem = ld.follow_link(sems[0], sems[0].attrib["href"]) if sems else ld.follow_link(tgt, tgt.attrib["href"])
            except Exception:  # noqa: BLE001
                continue
            style = next(de.iterchildren("ownedStyle"), None)
            sites.append({"diagram": d.uuid, "de": de, "sem": sem, "style": style, "kind": FACT_KINDS[short],
                          "type": short, "de_uid": de.get("uid")})
    del aird
    return sites


def _set(elem, attr: str, val) -> None:
    if val is None:
        elem.attrib.pop(attr, None)
    else:
        elem.attrib[attr] = val


def factory_cases(ctx: Ctx, model, label: str, sites: list[dict]) -> list[dict]:
    """For every site x attribute combination: edit the XML, render, observe label and tree change, restore."""
    cases = []
    ld = model._loader
    NAMES = [None, "", "N<&>"]
    for site in sites:
        sem, de, style, kind = site["sem"], site["de"], site["style"], site["kind"]
        saved = (dict(sem.attrib), dict(de.attrib), dict(style.attrib) if style is not None else None)
        combos: list[dict] = []
        if kind == "reqrel":
            real_rt = sem.get("relationType")
            for nm in NAMES:
                for rt in ("absent", "dangling", "real"):
                    for ln in (None, "", "LongName"):
                        if rt != "real" and ln is not None:
                            continue
                        if rt == "real" and real_rt is None:
                            continue
                        combos.append({"name": nm, "rt": rt, "longname": ln})
        elif kind == "incext":
            for nm in NAMES:
                for dn in (None, "", "diag name"):
                    combos.append({"name": nm, "dname": dn})
        else:
            for nm in NAMES:
                for wp in (None, "", "/x/y.png"):
                    combos.append({"name": nm, "wp": wp})
        if not ctx.thorough and len(sites) > 6:
            combos = ctx.rng.sample(combos, min(len(combos), 5))
        for cb in combos:
            rt_elem = None
            rt_saved = None
            try:
                _set(sem, "name", cb["name"])
                if kind == "reqrel":
                    if cb["rt"] == "absent":
                        _set(sem, "relationType", None)
                    elif cb["rt"] == "dangling":
                        _set(sem, "relationType", "#00000000-0000-0000-0000-00000000dead")
                    else:
                        rt_elem = ld[sem.get("relationType")]
                        rt_saved = dict(rt_elem.attrib)
                        _set(rt_elem, "ReqIFLongName", cb["longname"])
                elif kind == "incext":
                    _set(de, "name", cb["dname"])
                elif style is not None:
                    _set(style, "workspacePath", cb["wp"])
                before = (dict(sem.attrib), dict(style.attrib) if style is not None else None)
                from capellambse import aird

                dg = model.diagrams.by_uuid(site["diagram"])
                dg.invalidate_cache()
                try:
                    pic = aird.parse_diagram(ld, dg._element)
                    elem = None
                    for e in pic:
                        if e.uuid == site["de_uid"]:
                            elem = e
                    err = None
                except Exception as e:  # noqa: BLE001
                    pic, elem, err = None, None, type(e).__name__
                after = (dict(sem.attrib), dict(style.attrib) if style is not None else None)
                obs: dict = {"err": err, "drawn": elem is not None}
                if elem is not None:
                    if kind == "pseudo":
                        fl = [b.label for b in getattr(elem, "floating_labels", [])]
                        obs["symbol"] = getattr(elem, "JSON_TYPE", None)
                        obs["symbol_like"] = tuple(elem.minsize) == (30, 30)
                        obs["label"] = elem.label if isinstance(elem.label, str) else None
                        obs["floating"] = fl
                    else:
                        obs["label"] = elem.labels[0].label if elem.labels else None
                        obs["nlabels"] = len(elem.labels)
                obs["name_after"] = after[0].get("name")
                obs["sem_changed"] = after[0] != before[0]
                obs["wp_after"] = after[1].get("workspacePath") if after[1] is not None else None
                obs["style_changed"] = after[1] != before[1]
                cases.append({"model": label, "site": {"diagram": site["diagram"], "de": site["de_uid"], "type": site["type"],
                                       "style_type": _xt(style) if style is not None else "?"},
                              "kind": kind, "in": cb, "obs": obs})
                dg.invalidate_cache()
            finally:
                sem.attrib.clear()
                sem.attrib.update(saved[0])
                de.attrib.clear()
                de.attrib.update(saved[1])
                if style is not None:
                    style.attrib.clear()
                    style.attrib.update(saved[2])
                if rt_elem is not None:
                    rt_elem.attrib.clear()
                    rt_elem.attrib.update(rt_saved)
    return cases


def factory_request(case: dict) -> dict:
    cb = case["in"]
    if case["kind"] == "reqrel":
        return {"op": "factory", "kind": "reqrel", "name": cb["name"], "rt": cb["rt"], "longname": cb["longname"]}
    if case["kind"] == "incext":
        return {"op": "factory", "kind": "incext", "name": cb["name"], "dname": cb["dname"]}
    return {"op": "factory", "kind": "pseudo", "name": cb["name"], "wp": cb["wp"]}


def compare_factory(out: Outcome, case: dict, ans: dict) -> None:
    """impl observation vs the model's repaired and coded variants (tree after + what is drawn)."""
    obs, kind = case["obs"], case["kind"]
    if "ok" not in ans:
        out.disagree("factory", case["in"], obs, ans)
        return
    rep, cod = ans["ok"]["repaired"], ans["ok"]["coded"]
    drawn = bool(obs.get("drawn"))
    has_text = drawn and (kind == "pseudo" or obs.get("nlabels", 0) > 0)

    def view(mv: dict) -> dict:
        v = {"name_after": mv["name_after"], "wp_after": mv["wp_after"]}
        if has_text:
            v["text"] = mv["label"]
        if drawn and kind == "pseudo":
            v["symbol"] = mv["symbol"]
        return v

    iv = {"name_after": obs["name_after"], "wp_after": obs["wp_after"]}
    if has_text:
        iv["text"] = (obs["floating"][0] if obs["floating"] else obs["label"]) if kind == "pseudo" else obs["label"]
    if drawn and kind == "pseudo":
        iv["symbol"] = obs["symbol_like"]
    r, c = view(rep), view(cod)
    if iv == r:
        out.hit("factory:impl=repaired" if r != c else "factory:impl=both(no write needed)")
    elif iv == c:
        out.hit("factory:impl=coded")
        out.disagree("factory", {"site": case["site"], "in": case["in"]}, iv, r)
    else:
        out.disagree("factory", {"site": case["site"], "in": case["in"]}, iv, {"repaired": r, "coded": c})


# ------------------------------------------------------------------ raw-store reads: implementation side


def export_sem(model) -> tuple[list[dict], list]:
    """Flat document-order export of the semantic fragments for the Lean `State.sem` (+ the lxml elements)."""
    sem, elems = [], []
    for _name, f in model._loader.trees.items():
        if f.fragment_type.name != "SEMANTIC":
            continue
        for e in f.root.iter():
            if not isinstance(e.tag, str):
                continue
            attrs = [[k.split("}")[-1], v] for k, v in e.attrib.items()]
            sem.append({"id": e.get("id") or "", "xt": e.get(XSI) or "", "attrs": attrs})
            elems.append(e)
    return sem, elems


def store_case(ctx: Ctx, model, label: str) -> tuple[dict, list] | None:
    """A random read history on the exported store + the answers computed directly on lxml."""
    rng = ctx.rng
    sem, elems = export_sem(model)
    if not sem:
        return None
    ids = [e["id"] for e in sem if e["id"]]
    xts = sorted({e["xt"] for e in sem if e["xt"]})
    keys = sorted({k for e in sem for k, _ in e["attrs"]})
    first = {}
    for d, e in zip(sem, elems):
        first.setdefault(d["id"], e)
    ops, want = [], []
    for _ in range(ctx.pick(120, 600)):
        o = rng.choice(["attr", "attr", "has", "dump", "search", "refsTo"])
        u = rng.choice(ids) if rng.random() < 0.9 else "no-such-id"
        if o == "attr":
            k = rng.choice(keys)
            ops.append({"o": o, "u": u, "k": k})
            e = first.get(u)
            want.append(None if e is None else next((v for kk, v in e.attrib.items() if kk.split("}")[-1] == k), None))
        elif o == "has":
            ops.append({"o": o, "u": u})
            want.append(u in first)
        elif o == "dump":
            ops.append({"o": o, "u": u})
            e = first.get(u)
            want.append(None if e is None else [[kk.split("}")[-1], v] for kk, v in e.attrib.items()])
        elif o == "search":
            sel = rng.sample(xts, rng.randint(0, min(3, len(xts))))
            ops.append({"o": o, "xts": sel})
            want.append([(e.get("id") or "") for e in elems if not sel or (e.get(XSI) or "") in sel])
        else:
            ops.append({"o": o, "u": u})
            want.append([(e.get("id") or "") for e in elems if any("#" + u in v for v in e.attrib.values())])
    return {"op": "run", "sem": sem, "ops": ops}, want


# ------------------------------------------------------------------ the run


def run(ctx: Ctx) -> Outcome:
    setup(ctx)
    out = Outcome(rule=RULE)
    per_model = {}
    fcases: list[dict] = []
    store_cases: list = []
    parse_cases: list = []
    intro_cases: list = []
    sel = MODELS
    only = os.environ.get("C11_MODELS")
    if only:
        sel = [m for m in MODELS if m[0] in only.split(",")]
    phase: dict = {}

    def timed(name, fn, *a):
        t0 = time.time()
        r = fn(*a)
        phase[name] = round(phase.get(name, 0.0) + time.time() - t0, 2)
        return r

    barrier_big = ctx.rng.choice([m[0] for m in MODELS if m[3] == "big"])
    edited_big = "mm52" if barrier_big != "mm52" else "mm60"
    states_big = ctx.rng.choice([m[0] for m in MODELS if m[3] == "big"])
    layout_big = ctx.rng.choice([m[0] for m in MODELS if m[3] == "big"])
    for label, _entry, _res, size in sel:
        st = timed("reads", run_reads, ctx, out, label, size)
        model = st.pop("model")
        per_model[label] = st
        # factories (edits are restored; runs on the same in-memory model)
        sites = find_factory_sites(model)
        fc = timed("factory-cases", factory_cases, ctx, model, label, sites)
        fcases += fc
        per_model[label]["factory_sites"] = len(sites)
        if size == "small" or ctx.thorough:
            sc = store_case(ctx, model, label)
            if sc:
                store_cases.append((label, sc))
        timed("parse-cases", collect_parse_cases, ctx, model, label, size, parse_cases)
        timed("pvmt", run_pvmt, ctx, out, label, model)
        del model
        if size == "small" or ctx.thorough or label == "mm52":
            timed("save-level", run_save_level, ctx, out, label, size)
        if size == "small" or ctx.thorough or label == barrier_big:
            timed("barrier", run_barrier, ctx, out, label, size)
        if label in ("parser", "pvmt", "libproj") or ctx.thorough or label == edited_big:
            timed("edited", run_edited, ctx, out, label, size)
        if size == "small" or ctx.thorough or label == states_big:
            timed("states", states.run_states, ctx, out, label, size, sys.modules[__name__], intro_cases)
        if size == "small" or ctx.thorough or label == layout_big:
            timed("layout", run_layout, ctx, out, label, size)
    timed("cache", run_cache, ctx, out)
    out.extra["seconds_by_phase"] = phase
    # synthetic-free correspondence: factories
    reqs = [factory_request(c) for c in fcases]
    for c in fcases:
        out.case(("factory", c["model"], c["site"]["de"], common.sha(c["in"])),
                 {"factory": c["kind"], "in": c["in"], "obs": c["obs"]} if len(out.samples) < 4 else None, True)
        if c["obs"]["sem_changed"] or c["obs"]["style_changed"]:
            what = ("semantic:%s@name+" % c["site"]["type"]) if c["obs"]["sem_changed"] else \
                   ("visual:%s@workspacePath+" % c["site"]["style_type"])
            out.find(f"mutates|render|{what}",
                     f"[{c['model']}] rendering diagram {c['site']['diagram']} wrote into the XML of element {c['site']['de']} ({c['site']['type']}) with inputs {c['in']}",
                     {"kind": "factory", "model": c["model"], "site": c["site"], "in": c["in"]})
    for label, (rq, want) in store_cases:
        for o, w in zip(rq["ops"], want):
            out.case(("store", label, common.sha(o)), None, True)
    if os.environ.get("VERIF_NO_MODEL") != "1":
        preq = pvmt_model_requests()
        answers = common.model(reqs + preq + [rq for _l, (rq, _w) in store_cases], driver="Reads")
        for c, a in zip(fcases, answers):
            compare_factory(out, c, a)
        compare_pvmt_model(ctx, out, answers[len(reqs):len(reqs) + len(preq)])
        for (label, (rq, want)), a in zip(store_cases, answers[len(reqs) + len(preq):]):
            if "ok" not in a:
                out.disagree("store.run", {"model": label}, "n/a", a)
                continue
            if a["ok"]["changed"]:
                out.disagree("store.run", {"model": label}, "state unchanged", "model state changed")
            for o, w, mv in zip(rq["ops"], want, a["ok"]["outs"]):
                out.hit("store:" + o["o"])
                if mv != w:
                    out.disagree("store.run", {"model": label, "op": o}, w, mv)
            out.traces_validated += 1
    if os.environ.get("VERIF_NO_MODEL") != "1" and parse_cases:
        t0 = time.time()
        answers = common.model([rq for _l, _d, rq, _o in parse_cases] + [{"op": "table.info"}], driver="Factories")
        for (label, duid, rq, obs), a in zip(parse_cases, answers):
            out.case(("parse", label, duid), None, True)
            if "ok" not in a:
                out.disagree("parse", {"model": label, "diagram": duid}, "n/a", a)
                continue
            r = a["ok"]
            if r["changed"] or r["writes"]:
                out.disagree("parse", {"model": label, "diagram": duid}, "tree unchanged", f"model run changed the tree / issued {r['writes']} writes")
            out.hit("parse:model-requests", int(r["requests"]))
            for k, v in r["by_kind"].items():
                out.hit("parse:req:" + k, int(v))
            factories.compare(out, label, duid, obs, factories.canon_model(r["results"]))
            out.traces_validated += 1
        info = answers[-1].get("ok", {})
        static_effects()
        want = sorted((t_["key"], fid.lstrip("?")) for t_ in _ENV["static_tables"] for _r, fid in t_["targets"])
        got = sorted((k, n) for k, n, _m in info.get("dispatch", []))
        if want != got:
            out.disagree("table.dump", {"what": "dispatch rows re-read from the generated Lean table"}, want[:5], got[:5])
        out.extra["parse"] = {"diagrams": len(parse_cases), "seconds_model": round(time.time() - t0, 2),
                              "nodes": sum(len(rq["nodes"]) for _l, _d, rq, _o in parse_cases)}
    if os.environ.get("VERIF_NO_MODEL") != "1" and intro_cases:
        compare_intro(out, intro_cases)
    out.extra["per_model"] = per_model
    if "effects_functions_exercised" in out.extra:
        ex_f = sorted(out.extra["effects_functions_exercised"])
        out.extra["effects_functions_exercised"] = ex_f
        reach_not_run = sorted(f for f in static_effects() if f not in ex_f and static_effects()[f]
                               and any(r in ("xml", "attrib") for r, _o, _k in static_effects()[f]))
        out.extra["effects_functions_with_tree_access_not_exercised"] = reach_not_run
    out.extra["formats"] = formats()
    out.extra["factory_cases"] = len(fcases)
    out.extra["input_distribution"] = {k: v for k, v in sorted(out.branches.items()) if k.startswith("op:")}
    return out


# ------------------------------------------------------------------ representation loops (round 4) correspondence


def compare_intro(out: Outcome, cases: list[dict]) -> None:
    """`ModelElement.__html__` / `__repr__` on objects in unusual states vs. the Lean loop over the generated sites: the
    model is given the outcome of every attribute read (class row of the value + which of its representation methods raise
    when called on their own) and predicts whether the loop completes.  Also: the hypothesis of `live_repr_loops_total`
    (a value raises at most where the table says its class is partial), and the table re-read from the generated file."""
    rows = states.table_rows()
    reqs = [{"op": "intro.loop", "fn": c["fn"], "oracle": False, "vals": c["vals"]} for c in cases]
    answers = common.model(reqs + [{"op": "intro.table"}], driver="Factories")
    for c, a in zip(cases, answers):
        out.case(("intro.loop", c["model"], c["fn"], c["state"]["u"], c["state"]["s"]), None, True)
        if "ok" not in a:
            out.disagree("intro.loop", {"model": c["model"], "state": c["state"], "fn": c["fn"]}, "n/a", a)
            continue
        r = a["ok"]
        out.hit("intro.loop:" + c["fn"] + (":completes" if c["impl_completes"] else ":raises"))
        if r["unknown_classes"]:
            out.disagree("intro.loop", {"model": c["model"], "state": c["state"]}, "value classes", {"not in the table": r["unknown_classes"]})
        if r["completes"] != c["impl_completes"]:
            out.disagree("intro.loop", {"model": c["model"], "state": c["state"], "fn": c["fn"],
                                        "raising": [v for v in c["vals"] if isinstance(v, dict) and v["raises"]]},
                         {"completes": c["impl_completes"]}, {"completes": r["completes"]})
        for v in c["vals"]:
            if isinstance(v, dict):
                out.hit("intro.value:" + v["cls"])
                extra = [m for m in v["raises"] if m not in rows[v["cls"]]["partial"]]
                if extra and rows[v["cls"]]["generic"] is False:
                    out.disagree("intro.conforms", {"model": c["model"], "state": c["state"], "class": v["cls"]},
                                 {"raises": v["raises"]}, {"partialOn": rows[v["cls"]]["partial"]})
            else:
                out.hit("intro.value:" + v)
        out.traces_validated += 1
    info = answers[-1].get("ok", {})
    want_c = sorted((n, r["attrs"], r["defines"], r["partial"]) for n, r in rows.items() if not n.startswith("\0"))
    got_c = sorted((n, a_, d_, p_) for n, a_, d_, p_ in info.get("classes", []))
    want_s = [(s_["fn"], s_["attr"], s_["guarded"], len(s_["conds"])) for s_ in rows["\0sites"]]
    got_s = [tuple(x) for x in info.get("sites", [])]
    if [list(x) for x in want_c] != [list(x) for x in got_c] or want_s != got_s:
        out.disagree("intro.table", {"what": "sites / value classes re-read from the generated Lean table"},
                     {"classes": len(want_c), "sites": want_s[:3]}, {"classes": len(got_c), "sites": got_s[:3]})
    out.extra["intro"] = {"loop_cases": len(cases), "sites": len(want_s), "value_classes": len(want_c),
                          "partial_classes": [n for n, r in rows.items() if not n.startswith("\0") and r["partial"]]}


# ------------------------------------------------------------------ render cache (state machine) correspondence

CACHE_PARAMS = [{}, {"sorted_exchangedItems": True}, {"a": 1}, {"a": 2}, {"a": 1, "b": "x"}]


def canon_params(p: dict) -> list:
    return [[k, repr(v)] for k, v in sorted(p.items())]


def cache_cases(ctx: Ctx) -> list[dict]:
    """Seeded histories of render(None, **p) / invalidate_cache() on one diagram object; some parameter sets make the
    parser fail. Includes single-parameter histories (the domain of the `_partial` theorem) and mixed ones."""
    rng = ctx.rng
    cases = []
    for i in range(ctx.pick(60, 600)):
        single = i % 3 == 0
        pool = [rng.choice(CACHE_PARAMS)] if single else rng.sample(CACHE_PARAMS, rng.randint(2, len(CACHE_PARAMS)))
        fails = [p for p in pool if rng.random() < 0.25]
        ops = []
        for _ in range(rng.randint(1, 9)):
            if rng.random() < 0.2:
                ops.append({"o": "invalidate"})
            else:
                ops.append({"o": "render", "p": rng.choice(pool)})
        cases.append({"single": single, "fails": fails, "ops": ops})
    return cases


def cache_impl(case: dict) -> tuple[list, int]:
    """Run one history on the real `AbstractDiagram` machinery with a stub `_create_diagram`; returns the answers and how
    many renders returned a picture made with other parameters than the ones asked for."""
    from capellambse import diagram
    from capellambse.model import diagram as mdiagram

    fails = [canon_params(p) for p in case["fails"]]

    class Stub(mdiagram.AbstractDiagram):
        uuid = "stub"
        name = "stub"
        target = None
        filters = set()

        def _create_diagram(self, params):
            self.calls += 1
            cp = canon_params(params)
            if cp in fails:
                raise ValueError(cp)
            d = diagram.Diagram("pic")
            d.made_with = cp
            return d

    st = Stub(None)
    st.calls = 0
    outs, stale = [], 0
    for op in case["ops"]:
        if op["o"] == "invalidate":
            st.invalidate_cache()
            outs.append(None)
            continue
        before = st.calls
        try:
            r = st.render(None, **op["p"])
            ans = {"fresh": st.calls > before, "err": False, "with": r.made_with}
        except ValueError as e:
            ans = {"fresh": st.calls > before, "err": True, "with": e.args[0]}
        if ans["with"] != canon_params(op["p"]):
            stale += 1
        outs.append(ans)
    return outs, stale


def run_cache(ctx: Ctx, out: Outcome) -> None:
    cases = cache_cases(ctx)
    impl = [cache_impl(c) for c in cases]
    reqs = [{"op": "cache.run", "variant": "coded", "fails": [canon_params(p) for p in c["fails"]],
             "ops": [{"o": o["o"], "p": canon_params(o["p"])} if o["o"] == "render" else {"o": "invalidate"} for o in c["ops"]]}
            for c in cases]
    answers = common.model(reqs, driver="Factories") if os.environ.get("VERIF_NO_MODEL") != "1" else []
    stale_total = 0
    for c, (iv, stale), a in zip(cases, impl, answers):
        out.case(("cache", common.sha(c)), {"cache": c, "impl": iv} if stale and len(out.samples) < 6 else None, True)
        out.hit("cache:" + ("single-parameter" if c["single"] else "mixed-parameters"))
        for o, x in zip(c["ops"], iv):
            if x is not None:
                out.hit("cache:render:" + ("error" if x["err"] else "ok") + (":fresh" if x["fresh"] else ":cached"))
        mv = a.get("ok", a)
        if iv != mv:
            out.disagree("cache", c, iv, mv)
        if stale:
            stale_total += stale
            out.hit("cache:served-picture-of-other-parameters", stale)
            if c["single"]:   # inside the domain of render_cache_transparent_partial this must not happen
                out.disagree("cache", c, "stale answer on a single-parameter history", "transparent (theorem)")
        out.traces_validated += 1
    # the witness of render_cache_transparent_full_fails, replayed on the implementation
    w, stale = cache_impl({"fails": [], "ops": [{"o": "render", "p": {"a": 1}}, {"o": "render", "p": {}}]})
    out.extra["render_cache"] = {
        "histories": len(cases), "renders_answered_with_other_parameters": stale_total,
        "witness_render(a=1);render()": w, "witness_reproduces_on_implementation": bool(stale),
        "note": "AbstractDiagram._last_render_params is never assigned after __init__: outside C11's statement (nothing is "
                "written, nothing raises); recorded, not a finding",
    }
    out.hit("cache:witness-" + ("reproduces" if stale else "no-longer-reproduces"))


# ------------------------------------------------------------------ PVMT correspondence (model of ManagedGroup.apply)

PVMT_STATES = [[], ["D.G"], ["X.Y"], ["X.Y", "D.G"], ["D.G", "D.G"], ["D.G", "X.Y", "D.G"], ["X.Y", "A.B", "C.D"]]


def pvmt_model_requests() -> list[dict]:
    return [{"op": "pvmt.apply2", "groups": st, "name": "D.G"} for st in PVMT_STATES]


def compare_pvmt_model(ctx: Ctx, out: Outcome, answers: list) -> None:
    """Drive the real ManagedGroup.apply on the pvmt corpus model from states with 0/1/2 same-named groups."""
    try:
        m = open_model(ctx, "pvmt")
    except Exception as e:  # noqa: BLE001
        out.extra["pvmt_corr_skipped"] = repr(e)
        return
    groupdefs = list(m.pvmt.domains.map("groups"))
    done = 0
    for gd in groupdefs:
        targets = [o for o in gd.find_applicable() if hasattr(o, "property_value_groups")
                   and hasattr(o, "applied_property_value_groups")]
        if not targets:
            continue
        obj = targets[0]
        full = gd.fullname
        for st, ans in zip(PVMT_STATES, answers):
            # bring the object into the state: remove all groups, then create the listed ones
            for g in list(obj.property_value_groups):
                obj.property_value_groups.remove(g)
            for nm in st:
                obj.property_value_groups.create(name=full if nm == "D.G" else nm)
            n0 = [g.name for g in obj.property_value_groups]
            try:
                g1 = gd.apply(obj)
                n1 = [g.name for g in obj.property_value_groups]
                g2 = gd.apply(obj)
                n2 = [g.name for g in obj.property_value_groups]
                iv = {"after1": [("D.G" if n == full else n) for n in n1], "after2": [("D.G" if n == full else n) for n in n2],
                      "same": g1 == g2}
            except Exception as e:  # noqa: BLE001
                iv = {"err": type(e).__name__}
            mv = ans.get("ok", ans)
            out.case(("pvmt-apply", full, tuple(st)), None, True)
            out.hit("pvmt.apply:" + ("dup" if st.count("D.G") > 1 else str(st.count("D.G"))))
            if iv != mv:
                out.disagree("pvmt.apply", {"group": full, "state": st, "n0": n0}, iv, mv)
            done += 1
        break
    out.extra["pvmt_apply_cases"] = done


# ------------------------------------------------------------------ replay


def replay(ctx: Ctx, case: dict):
    setup(ctx)
    kind = case.get("kind")
    label = case.get("model")
    if kind == "introspect-state" or (kind == "mutation" and case["op"].get("k") == "introspect-state"):
        c = case if kind == "introspect-state" else {"model": label, "state": case["op"]["state"], "history": case["op"].get("history")}
        return states.replay_state(ctx, c, sys.modules[__name__])
    if kind == "layout-save-level":
        m = open_model(ctx, label)
        apply_edits(m, case["edits"])
        before = full_snap(m)
        roots = copy_roots(m)
        ex = Exec(m, label, None)
        for d in sorted({e["diagram"] for e in case["edits"]}):
            for op in ({"k": "dg.render", "d": d, "fmt": None}, {"k": "dg.render", "d": d, "fmt": "svg"}, {"k": "dg.mime", "d": d}):
                try:
                    ex.run(op)
                except Exception:  # noqa: BLE001
                    pass
        after = full_snap(m)
        if before != after:
            return (f"rendering the varied diagrams changed write_xml output of {[k for k in before if before[k] != after[k]]}: "
                    f"{sorted({diff_class(x) for x in model_diff(roots, m)})}")
        return None
    if kind == "mutation":
        m = open_model(ctx, label)
        ex = Exec(m, label, None)
        op = case["op"]
        if op.get("edits"):
            apply_edits(m, op["edits"])
        if op.get("k") == "batch":
            return None
        before = full_snap(m)
        roots = copy_roots(m)
        try:
            ex.run(op)
        except Exception:  # noqa: BLE001
            pass
        after = full_snap(m)
        if before != after:
            d = model_diff(roots, m)
            return f"{op} changed write_xml output of {[k for k in before if before[k] != after[k]]}: {[diff_class(x) for x in d]}"
        return None
    if kind == "introspect":
        m = open_model(ctx, label)
        ex = Exec(m, label, None)
        op = case["op"]
        if op.get("edits"):
            apply_edits(m, op["edits"])
        try:
            ex.run(op)
        except Exception as e:  # noqa: BLE001
            return f"{op} raised {type(e).__name__}: {e}"
        if ex.crashes:
            return ex.crashes[0][2]
        return None
    if kind == "factory":
        m = open_model(ctx, label)
        sites = [s for s in find_factory_sites(m) if s["de_uid"] == case["site"]["de"]]
        ctx2 = ctx
        cs = factory_cases(types.SimpleNamespace(thorough=True, rng=ctx2.rng), m, label, sites)
        for c in cs:
            if c["in"] == case["in"] and (c["obs"]["sem_changed"] or c["obs"]["style_changed"]):
                return f"render wrote into the XML: {c['obs']}"
        return None
    if kind in ("save-level", "sequence"):
        o = Outcome()
        size = next(mm[3] for mm in MODELS if mm[0] == label)
        if kind == "save-level":
            run_save_level(ctx, o, label, size)
        else:
            run_reads(ctx, o, label, size)
        return o.findings[0].what if o.findings else None
    if kind == "transient":
        m = open_model_traced(ctx, label)
        ex = Exec(m, label, None)
        if case["op"].get("edits"):
            apply_edits(m, case["op"]["edits"])
        barrier.WRITES.clear()
        try:
            ex.run(case["op"])
        except Exception:  # noqa: BLE001
            pass
        if barrier.WRITES:
            return f"{case['op']} called mutators on a model tree: {[barrier.describe(w) for w in barrier.WRITES[:5]]}"
        return None
    if kind == "barrier-render":
        o = Outcome()
        run_effects_tie(ctx, o, label, open_model_traced(ctx, label))
        return o.findings[0].what if o.findings else None
    if kind in ("pvmt", "pvmt2"):
        o = Outcome()
        m = open_model(ctx, label)
        run_pvmt(ctx, o, label, m)
        return o.findings[0].what if o.findings else None
    return None
