"""C03, refused moves: an object is moved into a list owned by ITSELF or by one of its own DESCENDANTS
(`lst.append(a)`, `lst.insert(0, a)`, `lst[0] = a` with `a` an ancestor of the list's owner).  lxml refuses such a move
("cannot append parent to itself"); whatever the library does about it, afterwards every lookup must still agree with
the raw scan of the trees: the element and its whole subtree are still in the model, so `by_uuid` must find them and
type searches must list them.  Judged by the raw-scan monitor of C03 (no model involved: the accessor model declines
"moving an element below itself")."""

from __future__ import annotations

import random

import objlayer as ol
import objops
import objsession as S


class _Rec:
    def __init__(self, i, step, outcome, before, after):
        self.i, self.step, self.outcome, self.before, self.after = i, step, outcome, before, after


def self_move_cases(ctx, out, Monitor, only: dict | None = None) -> None:
    keys = ["write", "t52"] if not ctx.thorough else ["write", "write+frag", "t52", "t50", "empty52", "libproj"]
    for key in keys:
        model = ol.load(ctx, key)
        loader = model._loader
        rng = random.Random(f"c03mv:{ctx.seed}:{key}")
        rels = [r for r in objops.discover(model, rng, max_objs=ctx.pick(200, 500)) if r.contain]
        rng.shuffle(rels)
        mon = Monitor(out, ctx)
        scan = ol.raw_scan(loader)
        mon.start(model, scan, key, 7000)
        done = 0
        for rel in rels:
            if done >= ctx.pick(12, 60):
                break
            # ancestors of the owner (and the owner itself) as model objects
            chain = []
            o = rel.owner
            for _ in range(6):
                chain.append(o)
                try:
                    o = o.parent
                except Exception:  # noqa: BLE001
                    break
                if o is None or not hasattr(o, "_element"):
                    break
            cands = [a for a in chain if getattr(a, "_element", None) is not None and a._element.getparent() is not None]
            if not cands:
                continue
            a = rng.choice(cands)
            how = rng.choice(["append", "insert0", "setitem0"])
            if only and (only.get("how"), only.get("kind")) != (how, rel.kind):
                continue
            try:
                lst = rel.get()
            except Exception:  # noqa: BLE001
                continue
            if how == "setitem0" and len(lst) == 0:
                how = "append"
            for k in [e.get("id") for e in a._element.iter() if isinstance(e.tag, str) and e.get("id")][:40]:
                mon.ever[k] = None
            before = ol.raw_scan(loader)
            fn = {"append": lambda: lst.append(a), "insert0": lambda: lst.insert(0, a), "setitem0": lambda: lst.__setitem__(0, a)}[how]
            try:
                fn()
                outcome = "ok"
            except (KeyboardInterrupt, SystemExit):
                raise
            except BaseException as e:  # noqa: BLE001 - the error type is the observation
                outcome = type(e).__name__
            after = ol.raw_scan(loader)
            st = objops.Step(f"move_below_itself:{how}", rel, {"uuid": getattr(a, "uuid", None), "depth": chain.index(a)}, lambda: None)
            rec = _Rec(done, st, outcome, before, after)
            same_tree = {f: [r["nid"] for r in rows] for f, rows in before.items()} == {f: [r["nid"] for r in rows] for f, rows in after.items()}
            out.case(("move-below-itself", rel.kind, how, outcome, same_tree),
                     {"relation": rel.key(), "moved": getattr(a, "uuid", None), "how": how, "outcome": outcome, "tree_unchanged": same_tree}, True)
            out.hit(f"selfmove.{how}.{'rejected' if outcome != 'ok' else 'accepted'}")
            mon.step(rec, model)
            done += 1
            if not same_tree:
                # the library accepted (part of) the move: continue on a fresh model so that cases stay independent
                break

