"""Shared pieces of the C12 / C13 harnesses (declarative modelling): the slice of the metamodel the
generators use, base-graph extraction, conversion of an abstract document (= the JSON the Lean
driver `Decl` reads) into real `decl` instructions, UUID-free rendering of the result on both sides,
an order-free denotation of create/extend documents, exception classification.

An abstract document is a list of instructions
  {"parent": val, "create"/"ext": [[attr,[item…]]…], "set": [[attr,setval]…],
   "sync": [[attr,[syncobj…]]…], "del": [[attr,[val…]]…]}
with val/atom/item/setval/syncobj exactly as documented in lean/Capella/Driver/Decl.lean.
Ids: base objects 1…n (position in `model.search()`), creation sites ≥ 1000 (chosen by the generator;
they play the role of the UUIDs the implementation draws).
"""

from __future__ import annotations

import io
import logging
import sys

import common

CONTAIN = {"components", "functions", "inputs", "outputs", "exchanges", "classes", "unions", "packages", "owned_properties"}
# the metamodel exposes one XML containment through several typed views: a Union created in `classes`
# (with `_type: Union`) is listed by `unions`, not by `classes`
VIEW = {("classes", "Union"): "unions"}
# where `create` puts an element of a non-default class depends on the accessor's index arithmetic over the
# typed view (two Unions created through `classes` end up in reverse order): an accessor-layer matter, so the
# order inside such a view is not compared
UNORDERED_VIEWS = set(VIEW.values())
# class -> (scalar attrs, ref-valued scalar attrs {attr: target class}, list attrs {attr: (member class, containment?)})
SCHEMA = {
    "LogicalComponent": (["name", "description"], {},
                         {"components": ("LogicalComponent", True), "allocated_functions": ("LogicalFunction", False)}),
    "LogicalFunction": (["name", "description"], {},
                        {"functions": ("LogicalFunction", True), "inputs": ("FunctionInputPort", True),
                         "outputs": ("FunctionOutputPort", True), "exchanges": ("FunctionalExchange", True)}),
    "FunctionInputPort": (["name"], {}, {}),
    "FunctionOutputPort": (["name"], {}, {}),
    "FunctionalExchange": (["name"], {"source": "FunctionOutputPort", "target": "FunctionInputPort"}, {}),
    "DataPkg": (["name"], {}, {"classes": ("Class", True), "unions": ("Union", True), "packages": ("DataPkg", True)}),
    "Union": (["name", "description"], {"super": "Class"}, {"owned_properties": ("Property", True)}),
    "Class": (["name", "description"], {"super": "Class"}, {"owned_properties": ("Property", True)}),
    "Property": (["name"], {"type": "Class"}, {}),
}
DFLT = [[a, mc] for cls, (_, _, ls) in SCHEMA.items() for a, (mc, cont) in ls.items() if cont]
DFLT = [list(x) for x in dict((a, c) for a, c in DFLT).items()]

MODELS = {
    "empty52": "tests/data/decl/empty_project_52/empty_project_52.aird",
    "melody52": "tests/data/melodymodel/5_2/Melody Model Test.aird",
    "melody50": "tests/data/melodymodel/5_0/Melody Model Test.aird",
    "melody60": "tests/data/melodymodel/6_0/Melody Model Test.aird",
    "write": "tests/data/writemodel/WriteTestModel.aird",
}

_cap = None


def cap():
    """import capellambse from the repo under test (once)"""
    global _cap
    if _cap is None:
        if str(common.REPO) not in sys.path:
            sys.path.insert(0, str(common.REPO))
        import capellambse
        from capellambse import decl

        logging.getLogger("capellambse").setLevel(logging.CRITICAL)
        _cap = (capellambse, decl)
    return _cap


def load_model(key: str):
    capellambse, _ = cap()
    return capellambse.MelodyModel(str(common.REPO / MODELS[key]))


class Base:
    """The objects of a freshly loaded model, numbered; the three roots the generators extend."""

    def __init__(self, key: str):
        self.key = key
        m = load_model(key)
        self.uuids = [o.uuid for o in m.search()]
        self.id_of = {u: i + 1 for i, u in enumerate(self.uuids)}
        self.roots = {"rc": m.la.root_component.uuid, "rf": m.la.root_function.uuid, "dp": m.la.data_package.uuid}
        self.root_cls = {"rc": "LogicalComponent", "rf": "LogicalFunction", "dp": "DataPkg"}
        objs = []
        self.ref_names: dict[int, dict[str, str]] = {}  # base object -> {reference attribute: name of its target}
        self.parent_name: dict[int, str] = {}
        self.by_class: dict[str, list[int]] = {}
        names: dict[str, int] = {}
        for o in m.search():
            i = self.id_of[o.uuid]
            cls = type(o).__name__
            scal = []
            try:
                n = o.name
            except Exception:
                n = None
            if isinstance(n, str) and n:
                scal.append(["name", {"s": str(n)}])
                names[str(n)] = names.get(str(n), 0) + 1
            lists = []
            if o.uuid in self.roots.values():
                for k in SCHEMA[cls][0]:
                    if k != "name" and str(getattr(o, k) or "") != "":
                        scal.append([k, {"s": str(getattr(o, k))}])
            if cls in SCHEMA:
                for a in SCHEMA[cls][1]:
                    try:
                        tn = getattr(getattr(o, a), "name", None)
                    except Exception:
                        tn = None
                    if isinstance(tn, str) and tn:
                        self.ref_names.setdefault(i, {})[a] = str(tn)
                try:
                    pn = getattr(o.parent, "name", None)
                except Exception:
                    pn = None
                if isinstance(pn, str) and pn:
                    self.parent_name[i] = str(pn)
                for a in SCHEMA[cls][2]:
                    mem = [self.id_of[x.uuid] for x in getattr(o, a) if x.uuid in self.id_of]
                    if mem:
                        lists.append([a, mem])
            objs.append({"id": i, "cls": cls, "scal": scal, "lists": lists})
            self.by_class.setdefault(cls, []).append(i)
        # base functions that may be allocated to a component without tripping list uniqueness
        self.free_funcs = [self.id_of[f.uuid] for f in m.search("LogicalFunction")
                           if type(f).__name__ == "LogicalFunction" and getattr(f, "owner", None) is None
                           and f.uuid != self.roots["rf"]]
        self.graph = {"objs": objs}
        self.name_of = {o["id"]: o["scal"][0][1]["s"] for o in objs if o["scal"]}
        # base objects usable as `!find {_type, name}` targets: exact schema class, globally unique name
        self.findable = {c: [i for i in self.by_class.get(c, []) if names.get(self.name_of.get(i, ""), 0) == 1]
                         for c in SCHEMA}
        self.n = len(objs)
        assert self.n < 10000  # creation sites are numbered from 10000

    def root_id(self, r: str) -> int:
        return self.id_of[self.roots[r]]


# ------------------------------------------------------------------ abstract document -> decl instructions


def to_decl(doc: list[dict], base: Base) -> list[dict]:
    _, decl = cap()

    def atom(a):
        if "s" in a:
            return a["s"]
        if "p" in a:
            return decl.Promise(a["p"])
        if "u" in a:
            u = a["u"]
            return decl.UUIDReference(base.uuids[u - 1] if 1 <= u <= base.n else "00000000-0000-4000-8000-%012d" % u)
        raise ValueError(a)

    def findargs(f):
        d = {}
        if f.get("ty") is not None:
            d["_type"] = f["ty"]
        for k, a in f.get("keys", []):
            d[k] = atom(a)
        return d

    def val(v):
        if "f" in v:
            return decl.FindBy(findargs(v["f"]))
        return atom(v)

    def item(x):
        if "ref" in x:
            return val(x["ref"])
        if "str" in x:  # a plain string child: create_singleattr
            return x["str"]
        d = {}
        if x.get("pid") is not None:
            d["promise_id"] = x["pid"]
        if x.get("ty") is not None:
            d["_type"] = x["ty"]
        for k, v in x.get("scal", []):
            d[k] = val(v)
        for k, l in x.get("kids", []):
            d[k] = [item(y) for y in l]
        return d

    def setval(v):
        return [item(y) for y in v["l"]] if "l" in v else val(v["v"])

    def syncobj(so):
        d = {"find": decl.FindBy(findargs(so)) if so.get("fb") else findargs(so)}
        if so.get("pid") is not None:
            d["promise_id"] = so["pid"]
        if so.get("set"):
            d["set"] = {k: setval(v) for k, v in so["set"]}
        if so.get("ext"):
            d["extend"] = {k: [item(y) for y in l] for k, l in so["ext"]}
        if so.get("sync"):
            d["sync"] = {k: [syncobj(y) for y in l] for k, l in so["sync"]}
        return d

    out = []
    for ins in doc:
        d = {"parent": val(ins["parent"])}
        for key, name in (("create", "create"), ("ext", "extend")):
            if ins.get(key):
                d[name] = {k: [item(y) for y in l] for k, l in ins[key]}
        if ins.get("set"):
            d["set"] = {k: setval(v) for k, v in ins["set"]}
        if ins.get("sync"):
            d["sync"] = {k: [syncobj(y) for y in l] for k, l in ins["sync"]}
        if ins.get("del"):
            d["delete"] = {k: [val(y) for y in l] for k, l in ins["del"]}
        out.append(d)
    return out


def classify(e: BaseException) -> dict:
    _, decl = cap()
    if isinstance(e, decl.UnfulfilledPromisesError):
        return {"error": "unfulfilled", "promises": sorted(p.identifier for p in e.args[0])}
    if isinstance(e, decl._NoObjectFoundError):
        return {"error": "notFound"}
    if isinstance(e, ValueError) and "defined twice" in str(e):
        return {"error": "dupPromise"}
    if isinstance(e, ValueError) and "Ambiguous match" in str(e):
        return {"error": "ambiguous"}
    if isinstance(e, RecursionError):
        return {"error": "diverge"}
    if isinstance(e, KeyError):
        return {"error": "keyError"}
    if isinstance(e, TypeError):
        return {"error": "typeError"}
    if isinstance(e, ValueError):
        return {"error": "valueError"}
    return {"error": type(e).__name__}


def norm_model_err(ans: dict) -> dict:
    out = {"error": ans["error"]}
    if ans["error"] == "unfulfilled":
        out["promises"] = sorted(ans["promises"])
    return out


def apply_impl(model, doc: list[dict], base: Base, yaml_text: str | None = None):
    """decl.apply on the real code. Returns ("ok", promises{pid: object}) or ("err", classification)."""
    _, decl = cap()
    if yaml_text is None:
        import yaml

        # sort_keys=False: keep the generator's key order (decl.dump would sort every mapping, and the
        # order of the attributes decides which unresolved promise an object description is filed under)
        yaml_text = yaml.dump(to_decl(doc, base), Dumper=decl.YDMDumper, sort_keys=False)
    text = yaml_text
    old = sys.getrecursionlimit()
    sys.setrecursionlimit(400)  # the sync create-branch recursion, if it diverges, should do so quickly
    try:
        res = decl.apply(model, io.StringIO(text))
        return "ok", {p.identifier: o for p, o in res.items()}
    except BaseException as e:  # noqa: BLE001 - _UnresolvablePromise derives from BaseException
        if isinstance(e, (KeyboardInterrupt, SystemExit, MemoryError)):
            raise
        return "err", classify(e)
    finally:
        sys.setrecursionlimit(old)


# ------------------------------------------------------------------ rendering (UUID-free)


def _tok_path(parent_tok: str, attr: str, name: str, k: int) -> str:
    return f"{parent_tok}/{attr}:{name}" + (f"#{k}" if k else "")


def render_impl(model, base: Base, promises: dict | None = None) -> dict:
    """Canonical view of everything below the three roots that is not a base object.
    {"objs": {token: {"cls", "scal": {k: str|token}, "lists": {k: [token…]}}}, "promises": {pid: token}}"""
    tok: dict[str, str] = {}
    order: list = []

    def walk(o, t):
        tok[o.uuid] = t
        order.append(o)
        cls = type(o).__name__
        if cls not in SCHEMA:
            return
        for a, (_, cont) in SCHEMA[cls][2].items():
            if not cont:
                continue
            seen: dict[str, int] = {}
            for ch in getattr(o, a):
                if ch.uuid in base.id_of:
                    if ch.uuid not in tok and ch.uuid not in base.roots.values():
                        walk(ch, f"b{base.id_of[ch.uuid]}")  # below base objects only new members are shown
                    continue
                nm = str(getattr(ch, "name", "") or "")
                k = seen.get(nm, 0)
                seen[nm] = k + 1
                walk(ch, _tok_path(t, a, nm, k))

    roots = {r: model.by_uuid(u) for r, u in base.roots.items()}
    for r, o in roots.items():
        walk(o, r)

    def ref(x):
        if x.uuid in tok:
            return tok[x.uuid]
        if x.uuid in base.id_of:
            return f"b{base.id_of[x.uuid]}"
        return "?" + str(getattr(x, "name", ""))

    objs = {}
    for o in order:
        cls = type(o).__name__
        sc, rs, ls = SCHEMA.get(cls, ([], {}, {}))
        if o.uuid in base.id_of and o.uuid not in base.roots.values():
            lists = {a: [ref(x) for x in getattr(o, a) if x.uuid not in base.id_of] for a in ls}
            lists = {a: l for a, l in lists.items() if l}
            if lists:
                objs[tok[o.uuid]] = {"cls": cls, "scal": {}, "lists": lists}
            continue
        scal = {}
        for k in sc:
            v = getattr(o, k)
            if v is not None and str(v) != "":
                scal[k] = str(v)
        for k in rs:
            v = getattr(o, k)
            if v is not None:
                scal[k] = "@" + ref(v)
        lists = {}
        for a in ls:
            mem = [ref(x) for x in getattr(o, a)]
            if mem:
                lists[a] = sorted(mem) if a in UNORDERED_VIEWS else mem
        objs[tok[o.uuid]] = {"cls": cls, "scal": scal, "lists": lists}
    out = {"objs": objs}
    if promises is not None:
        out["promises"] = {p: ref(o) for p, o in promises.items()}
    return out


def render_model(ans: dict, base: Base) -> dict:
    """The same view from the graph the Lean driver returned."""
    g = {o["id"]: o for o in ans["graph"]["objs"]}
    tok: dict[int, str] = {}
    order: list[int] = []

    def lists_of(o):
        out: dict[str, list] = {}
        for k, l in o["lists"]:
            for m in l:
                c = g[m]["cls"] if m in g else None
                out.setdefault(VIEW.get((k, c), k), []).append(m)
        return out

    def scal_of(o):
        return {k: v for k, v in o["scal"]}

    def walk(i, t):
        tok[i] = t
        order.append(i)
        o = g[i]
        ls = lists_of(o)
        cls = o["cls"]
        for a, (_, cont) in SCHEMA.get(cls, ([], {}, {}))[2].items():
            if not cont:
                continue
            seen: dict[str, int] = {}
            for ch in ls.get(a, []):
                if ch not in g:
                    continue
                if ch <= base.n:
                    if ch not in tok and ch not in root_ids:
                        walk(ch, f"b{ch}")
                    continue
                nmv = scal_of(g[ch]).get("name", {"s": ""})
                nm = nmv.get("s", "")
                k = seen.get(nm, 0)
                seen[nm] = k + 1
                if ch not in tok:
                    walk(ch, _tok_path(t, a, nm, k))

    root_ids = {base.root_id(r) for r in base.roots}
    for r in base.roots:
        walk(base.root_id(r), r)

    def ref(i):
        if i in tok:
            return tok[i]
        if i <= base.n:
            return f"b{i}"
        nm = scal_of(g[i]).get("name", {"s": ""}).get("s", "") if i in g else ""
        return "?" + nm

    objs = {}
    for i in order:
        o = g[i]
        cls = o["cls"]
        sc, rs, ls = SCHEMA.get(cls, ([], {}, {}))
        if i <= base.n and i not in root_ids:
            lv = lists_of(o)
            lists = {a: [ref(x) for x in lv.get(a, []) if x > base.n] for a in ls}
            lists = {a: l for a, l in lists.items() if l}
            if lists:
                objs[tok[i]] = {"cls": cls, "scal": {}, "lists": lists}
            continue
        sv = scal_of(o)
        scal = {}
        for k in sc:
            v = sv.get(k)
            if v is not None and "s" in v and v["s"] != "":
                scal[k] = v["s"]
        for k in rs:
            v = sv.get(k)
            if v is not None and "o" in v:
                scal[k] = "@" + ref(v["o"])
        lv = lists_of(o)
        lists = {}
        for a in ls:
            mem = [ref(x) for x in lv.get(a, [])]
            if mem:
                lists[a] = sorted(mem) if a in UNORDERED_VIEWS else mem
        objs[tok[i]] = {"cls": cls, "scal": scal, "lists": lists}
    return {"objs": objs, "promises": {p: ref(i) for p, i in ans.get("promises", [])}}


def unordered(view: dict) -> dict:
    """the view with every list sorted (comparison 'up to sibling order')"""
    return {"objs": {t: {"cls": o["cls"], "scal": o["scal"], "lists": {k: sorted(l) for k, l in o["lists"].items()}}
                     for t, o in view["objs"].items()},
            "promises": view.get("promises", {})}


# ------------------------------------------------------------------ helpers over abstract documents


def sites(doc: list[dict]):
    """every object description of a create/extend document with its container:
    yields (item, container) where container = ("site", nid) | ("parent", val)"""

    def rec(x, cont, attr):
        if "ref" in x or "str" in x:
            return
        yield x, cont, attr
        for k, l in x.get("kids", []):
            for y in l:
                yield from rec(y, ("site", x["nid"]), k)

    for ins in doc:
        for key in ("create", "ext"):
            for k, l in ins.get(key, []):
                for y in l:
                    yield from rec(y, ("parent", ins["parent"]), k)
        for k, v in ins.get("set", []):
            if "l" in v:
                for y in v["l"]:
                    yield from rec(y, ("parent", ins["parent"]), k)


def promise_refs_val(v) -> list[str]:
    if "p" in v:
        return [v["p"]]
    if "f" in v:
        return [a["p"] for _, a in v["f"].get("keys", []) if "p" in a]
    return []
