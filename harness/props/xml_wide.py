"""C01, round 5: the widened round-trip domain, non-element children, the start-tag column formula and the
UTF-8 / control-character generators.  Used by props/c01.py (`run` calls `generate(cs, pool)`; `replay_case`).

Everything the harness *expects* here is computed from the implementation's bytes and lxml's re-parse, or by the
harness' own reading of the shapes (`py_view`, `wide_shaped`, `py_collapses`) - never from the model."""
from __future__ import annotations

import copy

BLANKS = [" ", "\n  ", "", "\t\n", "\xa0", " ", "\n", "  \n    ", "\x85", "　 "]

# every XML-legal control character (TAB LF CR, DEL, all of C1), the edges of the legal ranges, non-BMP characters
# (4 bytes in UTF-8, one column), private-use characters of all three areas, plane-16 noncharacters (XML-legal)
LEGAL_CONTROLS = [0x9, 0xA, 0xD, 0x7F] + list(range(0x80, 0xA0))
BOUNDARY_CPS = [0x20, 0xD7FF, 0xE000, 0xF8FF, 0xFFFD, 0x10000, 0x1F600, 0x2FFFD, 0xE0001, 0xF0000, 0xFFFFD, 0x100000,
                0x10FFFD, 0x1FFFE, 0x10FFFF, 0xFDD0, 0x2028, 0x2029, 0xFEFF, 0x200B]


def is_blank(s) -> bool:
    return not (s or "").strip()


def py_view(doc: dict, lossy: bool) -> dict:
    """the harness' own reading of "what the writer reads": blank tails and blank text in front of children are
    absent; with `lossy` also the tail of every childless element below the root"""
    def ve(e, top):
        tag, own, attrs, text, tail, kids = e
        if kids and is_blank(text):
            text = None
        if is_blank(tail) or (lossy and not kids and not top):
            tail = None
        return [tag, own, attrs, text, tail, [ve(k, False) for k in kids]]

    vc = lambda c: [c[0], None if is_blank(c[1]) else c[1]]  # noqa: E731
    return {"pre": [vc(c) for c in doc["pre"]], "root": ve(doc["root"], True), "post": [vc(c) for c in doc["post"]]}


def py_fill(doc: dict) -> dict:
    def fe(e):
        tag, own, attrs, text, tail, kids = e
        return [tag, own, attrs, "x" if text == "" else text, tail, [fe(k) for k in kids]]

    return {"pre": doc["pre"], "root": fe(doc["root"]), "post": doc["post"]}


def py_collapses(e, expanded) -> bool:
    tag, own, attrs, text, tail, kids = e
    return (not kids and text == "" and tag not in expanded) or any(py_collapses(k, expanded) for k in kids)


def py_loses_tail(e, top=True) -> bool:
    tag, own, attrs, text, tail, kids = e
    return (not kids and not top and not is_blank(tail)) or any(py_loses_tail(k, False) for k in kids)


def xml_legal(s) -> bool:
    return all(c in "\t\n\r" or 0x20 <= ord(c) <= 0xD7FF or 0xE000 <= ord(c) <= 0xFFFD or ord(c) >= 0x10000 for c in s or "")


def wide_shaped(c01, doc: dict, lossy: bool) -> bool:
    v = py_fill(py_view(doc, lossy))
    return c01.capella_shaped(v)


def build_doc_tails(etree, d):
    """as c01.build_doc, but comment tails are set, too"""
    import props.c01 as c01

    root = c01.build_elem(etree, d["root"])
    for text, tail in d["pre"]:
        c = etree.Comment(text)
        root.addprevious(c)
        c.tail = tail
    for text, tail in reversed(d["post"]):
        c = etree.Comment(text)
        root.addnext(c)
        c.tail = tail
    return root


def decl(exs) -> bytes:
    return b'<?xml version="1.0" encoding="UTF-8"?>\n'


# ------------------------------------------------------------------ the widened domain


def emit_wide(cs, root, ll: int, label: str):
    import props.c01 as c01

    etree, exs, out = cs.etree, cs.exs, cs.out
    flags: set = set()
    doc = c01.export_doc(root, flags, siblings=True)
    if flags:
        out.hit("unrepresentable:" + ",".join(sorted(flags)))
        return
    try:
        b = exs.serialize(root.getroottree(), line_length=ll)
    except (AssertionError, ValueError, KeyError, TypeError) as e:
        out.hit("wide-raises-" + type(e).__name__)
        return
    cs.labels[label] = cs.labels.get(label, 0) + 1
    expanded = set(exs.ALWAYS_EXPANDED_TAGS)
    wfW, wfV = wide_shaped(c01, doc, False), wide_shaped(c01, doc, True)
    collapses, loses = py_collapses(doc["root"], expanded), py_loses_tail(doc["root"])
    cls = "W" if wfW else "V" if wfV else "outside"
    out.hit("wide-domain:" + cls)
    for name, on in (("collapses", collapses), ("loses-tail", loses)):
        if on:
            out.hit("wide-" + name)
    try:
        rt = etree.fromstring(decl(exs) + b, c01.parser(etree))
        b2 = exs.serialize(rt.getroottree(), line_length=ll)
    except etree.XMLSyntaxError as e:
        rt, b2, err = None, None, str(e)
    text = b.decode("utf-8")
    out.case(("wide", c01.common.sha([doc, ll])), {"label": label, "ll": ll, "domain": cls, "out": text[:160]}
             if cs.labels[label] == 1 else None, cls != "outside" and (doc != py_view(doc, True) or collapses))
    want = {"wfW": wfW, "wfV": wfV, "collapses": collapses, "loses_tail": loses, "view_same_bytes": True,
            "parse_is_readback": True if wfV else None, "idem": (b2 == b) if wfV else None,
            "readback": c01.export_doc(rt, set(), siblings=True) if (wfV and rt is not None) else None}
    if not xml_legal("".join(str(x) for x in _strings(doc))):
        return  # lxml never holds such characters; nothing to compare
    cs.req.append({"op": "xml.wide", "ll": ll, "doc": doc})
    cs.meta.append(("wide:" + label.split(":")[1], {"label": label, "ll": ll, "doc": doc}, want))
    # the ordinary writer tie on the same tree
    cs.req.append({"op": "xml.serialize", "ll": ll, "siblings": True, "pns": [], "is_root": True, "doc": doc})
    cs.meta.append(("serialize:wide", {"label": label, "ll": ll, "doc": doc, "pns": [], "siblings": True}, {"out": text}))
    # ---- monitor (implementation only)
    out.traces_validated += 1
    case = {"kind": "wide", "doc": doc, "ll": ll}
    for lossy in (False, True):
        bv = exs.serialize(build_doc_tails(etree, py_view(doc, lossy)).getroottree(), line_length=ll)
        if bv != b:
            out.find("exs.serialize|view-written-differently|" + ("leaf-tail" if lossy else "blank"),
                     f"{label}: a tree and the same tree without its {'childless-element tails' if lossy else 'white-space-only tails / text before children'} "
                     f"are written differently: {b[:200]!r} vs {bv[:200]!r}", case)
            return
    if not wfV:
        return
    if rt is None:
        out.find("exs.serialize|reparse-fails|wide", f"{label}: a tree that is Capella-shaped up to unread white space is "
                 f"written as XML lxml cannot read: {err}", case)
        return
    if c01.norm_doc(c01.export_doc(rt, set(), siblings=True)) != c01.norm_doc(py_view(doc, not wfW)):
        out.find("exs.serialize|reparse-differs|wide", f"{label}: reads back as something else than its view: {b[:300]!r}", case)
    if b2 != b and not collapses:
        out.find("exs.serialize|write-parse-write-differs|wide",
                 f"{label}: write-parse-write is not a fixpoint although no '' text collapses: {b[:200]!r} vs {b2[:200]!r}", case)


def _strings(doc):
    def walk(e):
        yield e[0]
        for k, v in e[2]:
            yield k
            yield v
        yield e[3] or ""
        yield e[4] or ""
        for k in e[5]:
            yield from walk(k)
    for t, tl in doc["pre"] + doc["post"]:
        yield t
        yield tl or ""
    yield from walk(doc["root"])


WITNESSES = [
    ("empty-text-collapses", {"pre": [], "root": ["a", [], [], "", None, []], "post": []}),
    ("leaf-tail", {"pre": [], "root": ["a", [], [], None, None, [["b", [], [], None, "T", []]]], "post": []}),
    ("parent-tail", {"pre": [], "root": ["r", [], [], None, None, [["a", [], [], None, "T", [["b", [], [], None, None, []], ["c", [], [], None, None, []]]]]], "post": []}),
    ("root-tail", {"pre": [], "root": ["a", [], [], None, "T", []], "post": []}),
    ("comment-tail", {"pre": [["c", "x"]], "root": ["r", [], [], None, None, []], "post": []}),
    ("text-before-children", {"pre": [], "root": ["r", [], [], "h", None, [["b", [], [], None, None, []]]], "post": []}),
    ("wide-sample", {"pre": [["Capella_Version_6.0.0", "\n"]], "root": ["r", [], [["id", "1"]], "\n  ", "\n",
                     [["k", [], [], " ", "\n  ", []], ["bodies", [], [], "", "", []]]], "post": []}),
]


def gen_wide(cs, pool, n: int):
    import props.c01 as c01

    rng, etree = cs.ctx.rng, cs.etree
    for name, d in WITNESSES:  # the witnesses of Props/C01.lean, replayed on the implementation
        emit_wide(cs, build_doc_tails(etree, d), 80, "wide:witness-" + name)
    for i in range(n):
        if rng.random() < 0.5:
            root, _ = c01.skeleton(etree, rng.choice(pool), rng)
        else:
            root = c01.build_doc(etree, {"pre": [], "root": c01.synth(rng), "post": []})
        if rng.random() < 0.4:
            root.addprevious(etree.Comment("Capella_Version_6.0.0"))
        if rng.random() < 0.2:
            root.addnext(etree.Comment(c01.rstr(rng, c01.MILD[:20], 0, 6)))
        elems = [e for e in root.iter() if isinstance(e.tag, str)]
        kind = rng.choice(["blank", "blank", "blank", "leaf-tail", "outside"])
        for _ in range(rng.randint(1, 6)):
            e = rng.choice(elems)
            what = rng.choice(["tail", "tail", "text", "empty", "bodies", "comment-tail"])
            if what == "tail":
                e.tail = rng.choice(BLANKS)
            elif what == "text":
                e.text = rng.choice(BLANKS) if len(e) else rng.choice(BLANKS + ["t", "a b"])
            elif what == "empty" and not len(e):
                e.text = ""
            elif what == "bodies":
                etree.SubElement(e if not e.text or not e.text.strip() else root, rng.choice(sorted(cs.exs.ALWAYS_EXPANDED_TAGS))).text = rng.choice(["", None, " ", "x"])
            elif what == "comment-tail":
                for c in list(root.itersiblings(preceding=True)) + list(root.itersiblings()):
                    c.tail = rng.choice(BLANKS)
        s = c01.rstr(rng, c01.ALPHA + c01.MILD[:10], 1, 6)
        s = s if s.strip() else "t" + s
        if kind == "leaf-tail":
            leaves = [e for e in elems if not len(e) and e is not root]
            for e in rng.sample(leaves, min(len(leaves), rng.randint(1, 2))):
                e.tail = s
        elif kind == "outside":
            v = rng.choice(["parent-tail", "root-tail", "mixed-text", "comment-tail"])
            parents = [e for e in elems if len(e)]
            if v == "parent-tail" and parents:
                rng.choice(parents).tail = s
            elif v == "root-tail":
                root.tail = s
            elif v == "mixed-text" and parents:
                rng.choice(parents).text = s
            else:
                for c in list(root.itersiblings(preceding=True)):
                    c.tail = s
        emit_wide(cs, root, c01.rll(rng), "wide:" + kind)


# ------------------------------------------------------------------ comments / PIs inside elements


def export_node(e):
    if not isinstance(e.tag, str):
        return ["#", e.text or "", e.tail]
    return [e.tag, [], [[k, v] for k, v in e.items()], e.text, e.tail, [export_node(c) for c in e]]


def gen_inner_nodes(cs, n: int):
    import props.c01 as c01

    rng, etree, exs, out = cs.ctx.rng, cs.etree, cs.exs, cs.out
    for i in range(n):
        root = etree.Element("r")
        cur = [root]
        for _ in range(rng.randint(1, 7)):
            k = etree.SubElement(rng.choice(cur), rng.choice(c01.TAGS))
            if rng.random() < 0.5:
                k.set("id", c01.rstr(rng, c01.MILD[:30], 1, 12))
            cur.append(k)
        n_inner = rng.choice([0, 1, 1, 1, 2])
        for _ in range(n_inner):
            p = rng.choice(cur)
            node = etree.Comment(c01.rstr(rng, c01.MILD[:20], 0, 6)) if rng.random() < 0.7 else etree.PI("t", "x")
            p.insert(rng.randint(0, len(p)), node)
            if rng.random() < 0.3:
                node.tail = rng.choice(["\n", "x"])
        ll = c01.rll(rng)
        try:
            iv = {"out": exs.serialize(root.getroottree(), line_length=ll).decode("utf-8"), "has_inner": n_inner > 0}
        except (AssertionError, ValueError, KeyError, TypeError) as e:
            iv = {"raises": type(e).__name__, "has_inner": n_inner > 0}
        out.hit("inner-" + ("raises-" + iv["raises"] if "raises" in iv else "written"))
        label = "inner:" + ("comment-or-pi" if n_inner else "elements-only")
        cs.labels[label] = cs.labels.get(label, 0) + 1
        node = export_node(root)
        out.case(("inner", c01.common.sha([node, ll])), {"label": label, "impl": str(iv)[:120]} if cs.labels[label] == 1 else None, n_inner > 0)
        cs.req.append({"op": "xml.serializeN", "ll": ll, "siblings": True, "pre": [], "post": [], "root": node})
        cs.meta.append(("serializeN", {"label": label, "ll": ll, "root": node}, iv))
        # monitor: a tree with a non-element node inside is never written (and nothing else is refused)
        out.traces_validated += 1
        if ("raises" in iv) != (n_inner > 0):
            out.find("exs.serialize|inner-node|" + ("written" if n_inner else "refused-without"),
                     f"{label}: serialize {'wrote' if n_inner else 'refused'} a tree with {n_inner} comment/PI nodes inside elements",
                     {"kind": "inner", "root": node, "ll": ll})


# ------------------------------------------------------------------ the column of a start tag


TAG_NAMES = ["\xe9l\xe9ment", "über", "标签", "жук", "é" * 8, "aé", "\U00010400\U00010401",
             "กข", "x·y", "αβγ", "\U00020000\U00020001\U00020002", "ownedFunctions", "x", "bodies",
             "é" * 20, "标" * 15]
VALUE_ALPHA = list("abcXYZ019 _-.") + ["\xe9", "€", "\U0001F600", "\U0010FFFD", "", "&", '"', "<", "\t", "\n", "\x7f", "\x85"]


def col_after(pos: int, s: str) -> int:
    for ch in s:
        pos = 0 if ch == "\n" else pos + 1
    return pos


def gen_stag(cs, n: int):
    import props.c01 as c01

    rng, etree, exs, out = cs.ctx.rng, cs.etree, cs.exs, cs.out
    for i in range(n):
        tag = rng.choice(TAG_NAMES)
        e = etree.Element(tag)
        for _ in range(rng.randint(0, 6)):
            try:
                e.set(rng.choice(TAG_NAMES[:10] + ["id", "name", "a", "description"]), c01.rstr(rng, VALUE_ALPHA, 0, rng.choice([3, 12, 40])))
            except ValueError:
                pass
        ll = rng.choice([10, 20, 30, 40, 60, 80, 80, c01.MAXSIZE, rng.randint(0, 100)])
        text = exs.serialize(e, line_length=ll).decode("utf-8")
        closer = "/>\n" if text.endswith("/>\n") else f"></{tag}>\n"  # an always-expanded tag has no short form
        assert text.endswith(closer)
        stag = text[:-len(closer)]
        surplus = len(tag.encode("utf-8")) - len(tag)
        attrs_part = stag[1 + len(tag):]
        broke = "\n" in attrs_part
        col = col_after(0, stag)
        want = {"out": stag, "col": col, "broke": broke, "surplus": surplus, "pos": col + (0 if broke else surplus), "formula": True}
        out.hit("stag:" + ("nonascii" if surplus else "ascii") + ("-broke" if broke else "-flat"))
        out.case(("stag", tag, tuple(e.items()), ll), {"tag": tag, "ll": ll, "out": stag[:120]} if i < 2 else None, bool(e.keys()))
        cs.req.append({"op": "xml.stag", "ll": ll, "pos": 0, "elem": [tag, [], [[k, v] for k, v in e.items()], None, None, []]})
        cs.meta.append(("stag", {"tag": tag, "ll": ll, "attrs": [[k, v] for k, v in e.items()]}, want))
        # monitor: the byte-surplus rule read off the characters (c01.wrap_monitor knows the surplus of each tag)
        out.traces_validated += 1
        w = c01.wrap_monitor(text, ll)
        if w:
            out.find("exs.serialize|wrap-rule|start-tag-formula", f"<{tag} ...>, line length {ll}: {w}",
                     {"kind": "stag", "tag": tag, "attrs": [[k, v] for k, v in e.items()], "ll": ll})


# ------------------------------------------------------------------ characters


def gen_chars2(cs, pool, n: int):
    """attribute values and text with every XML-legal control character, non-BMP and private-use characters: each code
    point of LEGAL_CONTROLS + BOUNDARY_CPS once in an attribute value and once in a text (deterministic), then random
    strings over them placed so that the value crosses the wrap column"""
    import props.c01 as c01

    rng, etree, out = cs.ctx.rng, cs.etree, cs.out
    cps = LEGAL_CONTROLS + BOUNDARY_CPS
    refused = []
    for cp in cps:
        root, new = c01.skeleton(etree, rng.choice(pool), rng, max_kids=1)
        try:
            new.set("name", "a" + chr(cp) + "b")
            etree.SubElement(new, "bodies").text = chr(cp) + "z" + chr(cp)
        except ValueError:
            refused.append(cp)
            continue
        cs.emit(root.getroottree(), 80, "chars2:each-codepoint")
    alpha = [chr(c) for c in cps if c not in refused]
    for _ in range(n):
        root, new = c01.skeleton(etree, rng.choice(pool), rng, max_kids=1)
        s = c01.rstr(rng, alpha + c01.MILD[:6], 1, 12)
        if rng.random() < 0.6:
            pad = rng.choice(["\U0001F600", "", "\x85", "a", "\U0010FFFD"]) * rng.randint(0, 90)
            new.set(rng.choice(list(new.keys()) or ["name"]), pad + s)
            label = "chars2:attr"
        else:
            leaf = etree.SubElement(new, rng.choice(["bodies", "semanticResources", "x"]))
            leaf.text = s
            label = "chars2:text"
        cs.emit(root.getroottree(), c01.rll(rng), label)
    out.extra["chars2_codepoints"] = {"legal_controls": len(LEGAL_CONTROLS), "boundary": [hex(c) for c in BOUNDARY_CPS],
                                      "refused_by_lxml": [hex(c) for c in refused]}


def generate(cs, pool):
    ctx = cs.ctx
    gen_wide(cs, pool, ctx.pick(500, 5000))
    gen_inner_nodes(cs, ctx.pick(200, 2000))
    gen_stag(cs, ctx.pick(600, 6000))
    gen_chars2(cs, pool, ctx.pick(300, 3000))


def replay_case(ctx, case: dict):
    import props.c01 as c01

    etree, exs, core = c01.impl()
    if case["kind"] == "wide":
        o = c01.Outcome()
        cs = c01.Cases(ctx, o)
        emit_wide(cs, build_doc_tails(etree, case["doc"]), case["ll"], "wide:replay")
        return o.findings[0].what if o.findings else None
    if case["kind"] == "stag":
        e = etree.Element(case["tag"])
        for k, v in case["attrs"]:
            e.set(k, v)
        w = c01.wrap_monitor(exs.serialize(e, line_length=case["ll"]).decode("utf-8"), case["ll"])
        return f"wrap rule: {w}" if w else None
    if case["kind"] == "inner":
        def build(j, parent=None):
            if len(j) == 3:
                c = etree.Comment(j[1])
                c.tail = j[2]
                parent.append(c)
                return c
            e = etree.Element(j[0]) if parent is None else etree.SubElement(parent, j[0])
            for k, v in j[2]:
                e.set(k, v)
            e.text, e.tail = j[3], j[4]
            for k in j[5]:
                build(k, e)
            return e
        root = build(case["root"])
        inner = any(not isinstance(x.tag, str) for x in root.iter())
        try:
            exs.serialize(root.getroottree(), line_length=case["ll"])
            return "a tree with a comment inside an element was written" if inner else None
        except TypeError:
            return None if inner else "an element-only tree was refused"
    return None
