"""C06 correspondence, object layer: the Lean model of the accessor READ paths (`Capella.RelRead`, driven by the
generated descriptor table `Gen/Reads.lean`) vs. `getattr(model.by_uuid(id), name)` of the implementation, on the
fragmented layout (model: `split cut tree`) and on its monolithic twin (model: `mono tree`); and the result ORDER of
`model.search()` / `search(below=)` as coded (file after file, type after type) vs. the model's `searchFiles`.

The model gets: the monolithic main file as a tree (key = preorder index), the cut set, the loader's file order, and
what fragmentation does not touch (`Env`): which elements have no `id`, the targets of every reference attribute
(parsed from the monolithic raw XML by `fragmenter.split_link_tokens`, an independent statement of the link grammar;
`#id` -> key), the plain values of the attributes matchers read.
"""

from __future__ import annotations

import posixpath

import common
import fragmenter
import gen_reads
from props import c05 as links
from props import c06_model

XSI_T = links.XSI_T
ERRS = ("KeyError", "RuntimeError", "AttributeError", "TypeError", "ValueError")
MODELLED = {".direct", ".deep", ".link", ".attrProxy", ".roleTag", ".parent", ".refSearch", ".specification",
            ".attrMatcher", ".index", ".typecast", ".alternate", ".alias", ".deprecated"}
_TAB = None


def table():
    """(rows, {xtype: [(attr, row)]}, reference attribute names, matcher attribute names) from the live classes"""
    global _TAB
    if _TAB is None:
        rows, classes = gen_reads.collect()
        slots = {xt: [(a, rows[i]) for a, i in sl] for xt, sl in classes}
        refattrs = {r["follow"] for r in rows if r["kind"] in (".link", ".attrProxy") and r["follow"]} | {"abstractType"}
        mattrs = {a for r in rows for a, _ in r["matcher"]}
        _TAB = (rows, slots, refattrs, mattrs)
    return _TAB


def _pair_files(mono_elems, idkey, froots):
    """map every lxml element of the fragmented semantic files (id or not) to the key of its monolithic twin:
    file roots pair by id, children pair by position (a placeholder stands where the cut child stood)"""
    keyof: dict[int, int] = {}
    keep = []

    def walk(fe, k):
        keyof[id(fe)] = k
        keep.append(fe)
        me = mono_elems[k]
        fkids = [c for c in fe if isinstance(c.tag, str)]
        mkids = [c for c in me if isinstance(c.tag, str)]
        if len(fkids) != len(mkids):
            raise common.InfraError("fragmented and monolithic files do not pair up")
        for fc, mc in zip(fkids, mkids):
            if fc.get("href") is not None:
                keyof[id(fc)] = -1 - mono_key[id(mc)]  # placeholder of that element
                keep.append(fc)
            else:
                walk(fc, mono_key[id(mc)])

    mono_key = {id(e): k for k, e in enumerate(mono_elems)}
    for r in froots:
        walk(r, idkey[r.get("id")])
    return keyof, keep


def _env(elems, idkey, refattrs, mattrs):
    """(noid, refs, attrs, opaque): `opaque` = (key, attribute) whose value the independent parser rejects or that leaves the main resource"""
    n = len(elems)
    ext: dict[str, int] = {}
    noid, refs, attrs, opaque = [], {}, {}, set()
    for k, e in enumerate(elems):
        if e.get("id") is None:
            noid.append(k)
        for a in refattrs:
            v = e.get(a)
            if v is None:
                continue
            if v == "":
                refs.setdefault(str(k), {})[a] = []
                continue
            toks = fragmenter.split_link_tokens(v)
            if toks is None:
                opaque.add((k, a))  # not a link list (the same attribute name holds plain text on other classes)
                continue
            out = []
            for _, path, ident in toks:
                if path == "" and ident in idkey:
                    out.append(idkey[ident])
                else:
                    out.append(ext.setdefault(ident, n + len(ext)))
                    if path:
                        opaque.add((k, a))  # leaves the main resource: not part of the tree the model sees
            refs.setdefault(str(k), {})[a] = out
        for a in mattrs:
            v = e.get(a)
            if v is not None:
                attrs.setdefault(str(k), {})[a] = v
    return noid, refs, attrs, opaque


def _canon(capellambse, v, key_of_elem):
    """an API value in the model's vocabulary"""
    from capellambse.model import _descriptors as D

    def k(e):
        x = key_of_elem.get(id(e))
        return x if x is not None else "?"

    if v is None:
        return {"r": ["single", None]}
    if isinstance(v, D._Specification):
        e = v._element
        x = k(e)
        if isinstance(x, int) and x < 0:
            return {"r": ["spec", -1 - x, True]}
        return {"r": ["spec", x, False]}
    if isinstance(v, capellambse.model.ElementList):
        return {"r": ["list", [k(e) for e in v._elements]]}
    if isinstance(v, capellambse.model.ModelElement) or id(getattr(v, "_element", None)) in key_of_elem:
        return {"r": ["single", k(v._element)]}  # AlternateAccessor wraps the same element in a class of its own
    return {"r": ["other", type(v).__name__]}


def _read(capellambse, mdl, ident, name, key_of_elem):
    try:
        return _canon(capellambse, getattr(mdl.by_uuid(ident), name), key_of_elem)
    except Exception as e:  # noqa: BLE001  (the exception class is the observation)
        n = type(e).__name__
        return {"e": n if n in ERRS else "other:" + n}


def collect(ctx, out, spec, mono, frag, lay, cases: list, tag: str) -> None:
    import time

    t0 = time.time()
    try:
        _collect(ctx, out, spec, mono, frag, lay, cases, tag)
    finally:
        out.extra["reads_collect_s"] = round(out.extra.get("reads_collect_s", 0) + time.time() - t0, 2)


def _collect(ctx, out, spec, mono, frag, lay, cases: list, tag: str) -> None:
    capellambse, helpers, _ = links._imports()
    rows, slots, refattrs, mattrs = table()
    if spec.get("resources"):
        out.extra.setdefault("reads_skipped_layouts_with_library", 0)
        out.extra["reads_skipped_layouts_with_library"] += 1
        return
    mroot = None
    for fr, tree in mono._loader.trees.items():
        if fr.parts[0] == "\0" and posixpath.splitext(fr.parts[-1])[1] in (".capella", ".melodymodeller"):
            mroot = tree.root
    if mroot is None:
        return
    tjson, elems, idkey = c06_model._tree_json(mroot, helpers)
    n = len(elems)
    big = n > 400
    noid, refs, attrs, opaque = _env(elems, idkey, refattrs, mattrs)
    cut = sorted(idkey[i] for i in lay.fragments.values())
    fl = frag._loader
    froots, order = [], []
    for fr, tree in fl.trees.items():
        if fr.parts[0] != "\0" or posixpath.splitext(fr.parts[-1])[1] not in links.SEMANTIC:
            continue
        froots.append(tree.root)
        if "/".join(fr.parts[1:]) != lay.main:
            order.append(idkey[tree.root.get("id")])
    fkey, keep_f = _pair_files(elems, idkey, froots)
    mkey = {id(e): k for k, e in enumerate(elems)}

    roots = list(lay.fragments.values())
    near = []
    for r in roots:
        e = elems[idkey[r]]
        near.append(r)
        near += [a.get("id") for a in list(e.iterancestors())[:3] if a.get("id")]
        near += [c.get("id") for c in list(e)[:3] if c.get("id")]
        # whoever refers to the fragment root or holds it in a link element
    near = [i for i in dict.fromkeys(near) if i in idkey]
    ids = [i for i in idkey if elems[idkey[i]].get(XSI_T) or elems[idkey[i]] is mroot]
    rest = [i for i in ids if i not in near]
    ctx.rng.shuffle(rest)
    sample = near[: (8 if big else ctx.pick(24, 60))] + rest[: (5 if big else ctx.pick(12, 60))]

    queries, impl_f, impl_m, kinds = [], [], [], []
    stats = out.extra.setdefault("reads_distribution", {})
    for i in sample:
        k = idkey[i]
        xt = helpers.xtype_of(elems[k])
        sl = slots.get(xt) if xt in slots else slots.get("")
        for name, row in sl or []:
            if row["kind"] not in MODELLED:
                continue
            if row["kind"] == ".refSearch" and big and ctx.rng.random() < 0.8:
                continue
            if name in ("diagrams", "visible_on_diagrams"):
                continue
            if (k, row["follow"]) in opaque:
                out.hit("reads.opaque-skipped")
                continue
            queries.append(["rel", k, name])
            impl_f.append(_read(capellambse, frag, i, name, fkey))
            impl_m.append(_read(capellambse, mono, i, name, mkey))
            kinds.append("rel" + row["kind"])
            stats[row["kind"]] = stats.get(row["kind"], 0) + 1
            out.case(("reads", tag, i, name), None, nontrivial=i in near)
    # result order of search(): no type, one type, several types; below the cut roots and their parents
    xts_all = sorted({helpers.xtype_of(e) for e in elems if helpers.xtype_of(e)})
    picks = ([] if big and not ctx.thorough else [[]]) + [[x] for x in ctx.rng.sample(xts_all, min(1 if big else 3, len(xts_all)))]
    if not big:
        picks.append(ctx.rng.sample(xts_all, min(3, len(xts_all))))
    picks += [[helpers.xtype_of(elems[idkey[r]])] for r in roots[:2]]

    def search_keys(mdl, key_of_elem, xs, below=None):
        try:
            res = mdl.search(*xs, below=below)
        except Exception as e:  # noqa: BLE001
            return "!" + type(e).__name__
        return [key_of_elem[id(e)] for e in res._elements if id(e) in key_of_elem]

    for xs in picks:
        queries.append(["search", xs])
        impl_f.append(search_keys(frag, fkey, xs))
        impl_m.append(search_keys(mono, mkey, xs))
        kinds.append("search")
    belows = roots[:2] + [a.get("id") for r in roots[:1] for a in list(elems[idkey[r]].iterancestors())[:1] if a.get("id")]
    for r in belows[: (1 if big else 3)]:
        # types that occur below r (so that the answer is not trivially empty); every ancestor walk costs the model O(n)
        inside = sorted({helpers.xtype_of(d) for d in elems[idkey[r]].iterdescendants() if isinstance(d.tag, str) and helpers.xtype_of(d)})
        xs = ctx.rng.sample(inside, min(1 if big else 2, len(inside))) if (big or ctx.rng.random() < 0.5) and inside else []
        queries.append(["searchbelow", idkey[r], xs])
        impl_f.append(search_keys(frag, fkey, xs, frag.by_uuid(r)))
        impl_m.append(search_keys(mono, mkey, xs, mono.by_uuid(r)))
        kinds.append("searchbelow")
    base = {"op": "reads.run", "tree": tjson, "fuel": 2 * n + 8, "noid": noid, "refs": refs, "attrs": attrs, "queries": queries}
    cases.append({"req": dict(base, cut=cut, order=order), "impl": impl_f, "kinds": kinds, "spec": spec, "layout": "split",
                  "opaque": opaque, "keep": (keep_f, elems)})
    out.extra.setdefault("reads_layouts", 0)
    out.extra["reads_layouts"] += 1
    if ctx.thorough or out.extra["reads_layouts"] % 3 == 1:
        # the monolithic twin answers the same whatever the cuts are: every third layout (with its own sample) in the quick tier
        cases.append({"req": dict(base, cut=[], order=[]), "impl": impl_m, "kinds": kinds, "spec": spec, "layout": "mono",
                      "opaque": opaque, "keep": None})
        out.extra.setdefault("reads_mono_twins", 0)
        out.extra["reads_mono_twins"] += 1
    out.extra.setdefault("reads_opaque_attributes", 0)
    out.extra["reads_opaque_attributes"] += len(opaque)


def table_roundtrip(out) -> None:
    """the generated table as the Lean driver sees it == the live Python objects"""
    rows, slots, _, _ = table()
    ans = common.model([{"op": "reads.table"}], driver="RelRead")[0]
    if "ok" not in ans:
        raise common.InfraError(f"reads.table failed: {ans}")
    t = ans["ok"]
    def kname(r):
        return "Capella.ReadTable.RKind." + (r["kind"][1:] if not r["kind"].startswith(".other") else r["kind"][1:])

    want = {xt: [[a, f"{r['cls']}.{r['attr']}", kname(r)] for a, r in sl] for xt, sl in slots.items()}
    got = {xt: sl for xt, sl in t["digest"]}
    out.traces_validated += 1
    out.hit("reads.table-roundtrip")
    if t["rows"] != len(rows) or got != want:
        bad = next((xt for xt in want if want[xt] != got.get(xt)), None)
        out.disagree("reads.table", {"class": bad}, {"rows": len(rows), "slots": want.get(bad)}, {"rows": t["rows"], "slots": got.get(bad)})


def compare(out, cases: list) -> None:
    import time

    t0 = time.time()
    table_roundtrip(out)
    import json
    import os

    if os.environ.get("VERIF_DUMP_READS"):
        with open(os.environ["VERIF_DUMP_READS"], "w") as fh:
            for c in cases:
                fh.write(json.dumps(c["req"], ensure_ascii=False, separators=(",", ":")) + "\n")
    answers = common.model([c["req"] for c in cases], driver="RelRead")
    out.extra["reads_model_s"] = round(time.time() - t0, 2)
    for c, ans in zip(cases, answers):
        if "ok" not in ans:
            raise common.InfraError(f"reads.run failed: {ans}")
        pre = "reads." + ("" if c["layout"] == "split" else "mono.")
        for q, kind, iv, mv in zip(c["req"]["queries"], c["kinds"], c["impl"], ans["ok"]):
            if kind.startswith("rel"):
                if mv == {"e": "unsupported"}:
                    out.hit(pre + "unsupported")
                    continue
                stream = pre + kind.replace(".", "-")
                out.hit(stream + ("|" + (mv["r"][0] if "r" in mv else "error:" + mv["e"])))
            else:
                stream = pre + kind
                out.hit(stream)
            out.traces_validated += 1
            if iv != mv:
                out.disagree(stream, {"layout": c["spec"], "query": q, "store": c["layout"]}, c06_model._short(iv), c06_model._short(mv))
