"""C14 — file handlers never reach outside their root.

Correspondence: Lean `Capella.Path` (mkPath/normalize/target/joinpath/tmpPath) and `Capella.Quote`
against pathlib, helpers.normalize_pure_path, urllib.parse.quote and the real handlers with their
backing stores intercepted. Monitor: lexical + realpath containment of every intercepted target.
"""

from __future__ import annotations

import contextlib
import io
import itertools
import os
import pathlib
import posixpath
import shutil
import subprocess
import sys
import urllib.parse
import zipfile

import common
from common import Ctx, Outcome

RULE = ("path strings enumerated exhaustively over the component alphabet "
        "{'..','.','','a','b c','%41','é','\\\\','x.y','%2e%2e','a%2fb'} x leading {'', '/', '//'} up to N components "
        "(N=3 quick, 4 thorough) x subdir settings x handlers x entry points, plus seeded random longer ones; "
        "HTTP URL templates: every escape (%s %q %d %n %e %%), no escape (default /%s), unknown and upper-case escapes, literal percent signs, "
        "lower-case percent-escapes in the template x subdirs x names with dots, query, fragment and percent characters; "
        "real symbolic links (file/dir links, relative, '..', absolute, dangling, loops, links to links) on scratch trees read through the local handler and a git work tree; "
        "_tmpname on names around the 250-byte cut with 1-, 2-, 3- and 4-byte characters; "
        "distinct = distinct (stream, handler, subdir, name); non-trivial = the name contains a '..', '.', "
        "empty, absolute or special-character component, or a non-root subdir is configured")
ASSUMPTIONS = [
    "pathlib.PurePosixPath / posixpath / urllib.parse.quote are the oracle for the path and quote models",
    "glart (GitLab artifacts) open() is exercised with its HTTP session stubbed; its __init__ needs a network and is bypassed",
    "symbolic links below the root are file-system content, not file names: the statement (and the confinement theorems) are lexical - about the paths handed to the OS; "
    "what those paths physically denote is modelled separately (Model/Symlink.lean: realpath over a link table, tied to os.path.realpath on scratch trees with real links): "
    "physically below the root iff the links allow it (proved for relative targets without '..'; an absolute or '..' target does lead outside - observed, counted, not a finding)",
]
DRIVERS = ["Path"]
MANIFEST = dict(
    text=("Lean theorems over a model of PurePosixPath construction, normalize_pure_path, each handler's path "
          "composition and percent-quoting: for every subdir string and every file name the accessed parts start "
          "with the normalised subdir and contain no '..', '.', empty or slash-bearing component; quoting is "
          "invertible and emits no '?', '#', space (nor '/' with safe=''); the HTTP handler's URL template expansion (%s %q %d %n %e %%, "
          "default /%s, KeyError / ValueError branches) is modelled and for every template, subdir and name the requested URL has the "
          "template's literal prefix and exactly the template's '?', '#' and blanks; the temp-file name of the local handler is a clean "
          "sibling of at most 255 bytes; with symbolic links below the root modelled as a link table, the physical location stays below the root whenever every "
          "link there has a relative target without '..'. The model is tied to /repo by an exhaustive "
          "differential run over a component alphabet against pathlib, urllib and the real handlers with their backing "
          "stores intercepted; an independent lexical+realpath containment monitor is the failing-input search."),
    design_ref="§6 C14",
    note=("Trusted: Lean kernel; pathlib/posixpath/urllib as oracle; interception shims in harness/props/c14.py; "
          "GitLab-artifacts __init__ bypassed (needs network); symbolic links: lexical confinement is what is claimed, physical confinement under safe links is proved and exercised."),
    technique="Lean 4 proof (induction over path components / bytes) + exhaustive differential correspondence with pathlib and the real handlers",
)
TRUSTED = ["C14: UTF-8 encoding of file names is done by CPython resp. Lean's String.toUTF8 (not modelled)"]

ALPHA = ["..", ".", "", "a", "b c", "%41", "é", "\\", "x.y", "%2e%2e", "a%2fb"]
SUBDIRS = ["/", "", ".", "sub", "sub/dir", "../up", "/abs/x", "a/../b", "b c/é", "s/..", "//d"]


def gen_names(ctx: Ctx) -> list[str]:
    n = ctx.pick(3, 4)
    names = []
    for k in range(1, n + 1):
        # the full alphabet up to 3 components; the 4th level (thorough) over the first nine letters only
        for comps in itertools.product(ALPHA if k <= 3 else ALPHA[:9], repeat=k):
            body = "/".join(comps)
            for lead in ("", "/", "//"):
                names.append(lead + body)
    names = sorted(set(names))
    # random longer ones
    for _ in range(ctx.pick(300, 3000)):
        k = ctx.rng.randint(5, 9)
        names.append(ctx.rng.choice(["", "/", "//", "///"]) + "/".join(ctx.rng.choice(ALPHA) for _ in range(k)))
    return names


def forms(names):
    """every name both as `str` and as `PurePosixPath` (the handlers' signatures allow both)"""
    for n in names:
        yield n, n, "str"
        yield n, pathlib.PurePosixPath(n), "pure"


def nontrivial(name: str, sd: str = "/") -> bool:
    comps = name.split("/")
    return any(c in ("..", ".", "") or not c.isalnum() for c in comps) or sd not in ("/", "", ".")


def expected_subdir(sd: str) -> list[str]:
    """independent of the model: posixpath.normpath anchored at '/'"""
    p = posixpath.normpath("/" + sd)
    return [c for c in p.split("/") if c]


# ------------------------------------------------------------------ interception


class Recorder:
    def __init__(self):
        self.calls: list[tuple[str, str]] = []

    def rec(self, kind: str, path) -> None:
        self.calls.append((kind, str(path)))


@contextlib.contextmanager
def patched_fs(rec: Recorder):
    """Record (and neutralise) OS-level accesses made through pathlib and builtins.open by handlers."""
    P = pathlib.Path
    saved = {n: getattr(P, n) for n in ("open", "iterdir", "unlink", "replace", "is_dir", "is_file")}

    def mk(kind, result):
        def f(self, *a, **k):
            rec.rec(kind, self)
            if kind == "replace":
                rec.rec("replace-to", a[0])
            return result()
        return f

    P.open = mk("open", lambda: io.BytesIO())
    P.iterdir = mk("iterdir", lambda: iter(()))
    P.unlink = mk("unlink", lambda: None)
    P.replace = mk("replace", lambda: None)
    P.is_dir = mk("is_dir", lambda: False)
    P.is_file = mk("is_file", lambda: False)
    try:
        yield
    finally:
        for n, v in saved.items():
            setattr(P, n, v)


class RecDict(dict):
    def __init__(self, rec: Recorder):
        super().__init__()
        self._rec = rec

    def __getitem__(self, k):
        self._rec.rec("mem-get", k)
        return super().__getitem__(k)

    def __setitem__(self, k, v):
        self._rec.rec("mem-set", k)
        super().__setitem__(k, v)


def make_git_repo(ctx: Ctx) -> pathlib.Path:
    repo = ctx.scratch / "gitrepo"
    repo.mkdir()
    env = dict(os.environ, GIT_AUTHOR_NAME="v", GIT_AUTHOR_EMAIL="v@v", GIT_COMMITTER_NAME="v", GIT_COMMITTER_EMAIL="v@v")
    def g(*a):
        subprocess.run(["git", *a], cwd=repo, check=True, capture_output=True, env=env)
    g("-c", "init.defaultBranch=master", "init", "-q")
    (repo / "sub" / "dir").mkdir(parents=True)
    (repo / "sub" / "dir" / "f.txt").write_text("x")
    (repo / "top.txt").write_text("y")
    g("add", "-A")
    g("commit", "-q", "-m", "init")
    return repo


# ------------------------------------------------------------------ the run


LINK_LOCS = ["l", "a/l", "b/c/l", "x", "y", "a/m"]
LINK_TARGETS_SAFE = ["b", "b/c", "./d//", "d/.", "x", "y", "a/l", "nonexistent", "f", "b/c/f", "l"]
LINK_TARGETS_UNSAFE = ["..", "../..", "../b", "../../out", "/ABS_OUT", "/ABS_IN/b", "../nonexistent/z", "b/../../out/f"]
LINK_NAMES = ["f", "l/f", "a/l/f", "a/l/../f", "l/../../f", "x", "x/f", "y/f", "b/c/l/f", "a/m/f", "l", "a/l/c/f", "/l/f", "l//./f", "b/../l/f", "l/c/l/f"]


def symlink_stream(ctx: Ctx, out: Outcome, add, fh_local, fh_git, helpers) -> None:
    import errno

    rng = ctx.rng
    top = pathlib.Path(os.path.realpath(ctx.scratch)) / "links"
    top.mkdir()
    outside = top / "out"
    outside.mkdir()
    (outside / "f").write_text(str(outside / "f"))
    n_tables = ctx.pick(40, 400)
    stats = {"tables": 0, "safe_tables": 0, "reads": 0, "outside_reads": 0, "loops": 0, "git_tables": 0}
    for k in range(n_tables):
        root = top / f"t{k}"
        for d in ("a", "b/c", "d"):
            (root / d).mkdir(parents=True)
        for d in ("", "a", "b", "b/c", "d"):
            fp = root / d / "f"
            fp.write_text(str(fp))
        safe_only = k % 3 == 0
        pool = LINK_TARGETS_SAFE if safe_only else LINK_TARGETS_SAFE + LINK_TARGETS_UNSAFE + LINK_TARGETS_UNSAFE
        links = []
        for loc in rng.sample(LINK_LOCS, rng.randint(1, 4)):
            t = rng.choice(pool).replace("/ABS_OUT", str(outside)).replace("/ABS_IN", str(root))
            lp = root / loc
            if lp.exists() or lp.is_symlink():
                continue
            try:
                os.symlink(t, lp)
            except OSError:
                continue
            links.append((loc, t))
        stats["tables"] += 1
        all_safe = all(not t.startswith("/") and ".." not in t.split("/") for _, t in links)
        stats["safe_tables"] += all_safe
        root_parts = list(root.parts[1:])
        mlinks = [[root_parts + loc.split("/"), t] for loc, t in links]
        use_git = k < ctx.pick(3, 12)
        handlers = [("local", fh_local.LocalFileHandler(root, subdir=sd), sd) for sd in ("/", "a", "b/c")]
        if use_git:
            stats["git_tables"] += 1
            g = lambda *a: subprocess.run(["git", *a], cwd=root, check=True, capture_output=True,  # noqa: E731
                                          env={**os.environ, "GIT_AUTHOR_NAME": "t", "GIT_AUTHOR_EMAIL": "t@example.invalid", "GIT_COMMITTER_NAME": "t",
                                               "GIT_COMMITTER_EMAIL": "t@example.invalid", "GIT_CONFIG_GLOBAL": "/dev/null", "GIT_CONFIG_SYSTEM": "/dev/null"})
            g("-c", "init.defaultBranch=master", "init", "-q")
            g("add", "-A")
            g("commit", "-q", "-m", "links")
            gh = fh_git.GitFileHandler(str(root), "master")
            handlers.append(("git", gh, "/"))
        for hname, fh, sd in handlers:
            base = pathlib.Path(os.path.realpath(fh.cache_dir if hname == "git" else root))
            base_parts = list(base.parts[1:])
            hl = mlinks if hname == "local" else [[base_parts + loc.split("/"), t.replace(str(root), str(base))] for loc, t in links]
            for n in LINK_NAMES:
                composed = base / helpers.normalize_pure_path(sd) / helpers.normalize_pure_path(n)
                loop = False
                try:
                    os.path.realpath(composed, strict=True)
                except OSError as e:
                    loop = e.errno == errno.ELOOP
                phys = os.path.realpath(composed)
                iv = "ELOOP" if loop else list(pathlib.PurePosixPath(phys).parts[1:])
                if hname == "git":  # the work tree's links are those committed: absolute in-root targets still name the original tree
                    hl = [[base_parts + loc.split("/"), t] for loc, t in links]
                add("symlink.physical", [hname, links, sd, n], {"op": "path.physical", "links": hl, "root": base_parts, "handler": hname if hname != "local" else "local",
                                                                  "subdir": sd, "name": n, "fuel": 400}, iv)
                out.case(("link", k, hname, sd, n), nontrivial=bool(links))
                stats["loops"] += loop
                # what the handler really reads: every regular file contains its own physical path
                try:
                    with fh.open(n) as f:
                        content = f.read().decode()
                except OSError as e:
                    content = None
                    out.hit("symlink.open:" + (errno.errorcode.get(e.errno, type(e).__name__) if e.errno else type(e).__name__))
                if content is not None:
                    stats["reads"] += 1
                    want = str(phys) if hname == "local" else None
                    if hname == "local" and content != want:
                        out.find("local.open|symlink|reads-unexpected-file", f"open({n!r}) subdir={sd!r} links={links} read the file {content!r}, realpath says {want!r}",
                                 {"kind": "symlink", "links": links, "subdir": sd, "name": n})
                    inside = content.startswith(str(root) + "/") or content.startswith(str(base) + "/")
                    if not inside:
                        stats["outside_reads"] += 1
                        out.hit("symlink.open:outside-root:" + hname)
                        if all_safe:
                            out.find(f"{hname}.open|symlink|escapes-root-with-safe-links", f"open({n!r}) subdir={sd!r} links={links} read {content!r}",
                                     {"kind": "symlink", "links": links, "subdir": sd, "name": n})
                    else:
                        out.hit("symlink.open:inside-root:" + hname)
        if use_git:
            common.get_private(gh, "_GitFileHandler__fnz", lambda v: isinstance(v, __import__("weakref").finalize))()
        shutil.rmtree(root, ignore_errors=True)
    out.extra["symlinks"] = stats


HTTP_TEMPLATES = ["https://h.invalid/base", "https://h.invalid/base/", "https://h.invalid/base//", "https://h.invalid/b/%s",
                  "https://h.invalid/?file=%q", "https://h.invalid/api?f=%2F%q&x=1#frag", "https://h.invalid/%d/-/%n.%e",
                  "https://h.invalid/%%/%s", "https://h.invalid/100%/x", "https://h.invalid/%q/%s/%q", "https://h.invalid/a%20b/%s",
                  "https://h.invalid/%x/%s", "https://h.invalid/%c3%a9/%s", "https://h.invalid/x%", "https://h.invalid/%%s",
                  "https://h.invalid/%%%s", "https://h.invalid/%e;%n;%d", "https://h.invalid/%S/%Q", "https://h.invalid/é/%n"]


def run(ctx: Ctx) -> Outcome:
    os.environ["XDG_CACHE_HOME"] = str(ctx.scratch / "xdg")
    sys.path.insert(0, str(common.REPO))
    import capellambse  # noqa: F401
    from capellambse import helpers
    from capellambse.filehandler import git as fh_git
    from capellambse.filehandler import gitlab_artifacts as fh_glart
    from capellambse.filehandler import http as fh_http
    from capellambse.filehandler import local as fh_local
    from capellambse.filehandler import memory as fh_mem
    from capellambse.filehandler import zip as fh_zip

    out = Outcome(rule=RULE)
    names = gen_names(ctx)
    P = pathlib.PurePosixPath
    req: list[dict] = []
    impl: list = []
    meta: list = []

    def add(stream, case, request, implval):
        req.append(request)
        impl.append(implval)
        meta.append((stream, case))

    # (a) PurePosixPath construction
    for n in names:
        p = P(n)
        add("pathlib.mk", n, {"op": "path.mk", "args": [n]}, {"root": p.root, "parts": list(p.parts[1:] if p.root else p.parts)})
        out.case(("mk", n), nontrivial=nontrivial(n))
    multi = [a for a in names if len(a) <= 6][: ctx.pick(60, 200)]
    for a, b in itertools.product(multi, repeat=2):
        p = P(a, b)
        add("pathlib.mk2", [a, b], {"op": "path.mk", "args": [a, b]}, {"root": p.root, "parts": list(p.parts[1:] if p.root else p.parts)})
        out.case(("mk2", a, b), nontrivial=nontrivial(a) or nontrivial(b))

    # (b) normalize_pure_path, str base
    bases = SUBDIRS
    for n in names:
        for b in (bases if len(n) <= 8 or ctx.thorough else ["/", "sub", "../up"]):
            r = helpers.normalize_pure_path(n, base=b)
            add("normalize", [b, n], {"op": "path.normalize", "base": [b], "path": [n]}, list(r.parts))
            out.case(("norm", b, n), {"base": b, "path": n, "result": str(r)} if n.startswith("../") else None, nontrivial(n, b))
            # monitor: result is clean and relative
            if r.is_absolute() or any(c in ("..", ".", "") or "/" in c for c in r.parts):
                out.find("normalize_pure_path|unclean-result", f"normalize_pure_path({n!r}, base={b!r}) -> {r}",
                         {"kind": "normalize", "base": b, "path": n})

    # (c) handlers
    root = ctx.scratch / "root"
    root.mkdir()
    zpath = ctx.scratch / "z.zip"
    with zipfile.ZipFile(zpath, "w") as z:
        z.writestr("sub/dir/f.txt", "x")
        z.writestr("top.txt", "y")
        z.writestr("a/b", "z")
    gitrepo = make_git_repo(ctx)
    hnames = names if ctx.thorough else [n for n in names if n.count("/") <= 3]
    rec = Recorder()

    def observe(fn) -> list[tuple[str, str]]:
        rec.calls.clear()
        try:
            fn()
        except (OSError, KeyError, ValueError, RuntimeError, TypeError, AssertionError) as e:
            rec.calls.append(("exc", type(e).__name__))
        return list(rec.calls)

    def judge(handler: str, entry: str, sd: str, name: str, rootstr: str, touched: list[str]):
        """Monitor: every touched path lexically (and by realpath) under root/subdir."""
        want = [c for c in rootstr.split("/") if c] + expected_subdir(sd)
        for tp in touched:
            parts = [c for c in tp.split("/") if c != ""]
            bad = ".." in parts or parts[: len(want)] != want
            if not bad and handler in ("local", "git") and os.path.isabs(tp):
                rp = os.path.realpath(tp)
                rw = os.path.realpath("/" + "/".join(want))
                bad = not (rp == rw or rp.startswith(rw + "/"))
            if bad:
                cls = "abs" if name.startswith("/") else ("dotdot" if ".." in name.split("/") else "plain")
                out.find(f"{handler}.{entry}|escapes-subdir|{cls}",
                         f"{handler} handler subdir={sd!r} {entry}({name!r}) touched {tp!r}, outside {'/'.join(want)!r}",
                         {"kind": "handler", "handler": handler, "entry": entry, "subdir": sd, "name": name, "touched": tp})

    for sd in SUBDIRS:
        # ---- local
        with patched_fs(rec):
            fh = fh_local.LocalFileHandler(root, subdir=sd)
            base = str(fh.path)
            for n, arg, form in forms(hnames):
                calls = observe(lambda: fh.open(arg, "rb"))
                t_open = [p for k, p in calls if k == "open"]
                judge("local", "open-" + form, sd, n, str(root), t_open)
                rel = [c for c in (t_open[0][len(str(root)):].split("/") if t_open else []) if c]
                add("target.local", [sd, n], {"op": "path.target", "handler": "local", "subdir": sd, "name": n}, rel)
                out.case(("local", sd, n, form), nontrivial=nontrivial(n, sd))
                out.traces_validated += 1
            for n, arg, form in forms(hnames[:: ctx.pick(7, 1)]):
                def wr():
                    with fh.write_transaction():
                        fh.open(arg, "wb")
                calls = observe(wr)
                touched = [p for k, p in calls if k in ("open", "unlink", "replace", "replace-to")]
                judge("local", "write", sd, n, str(root), touched)
                out.case(("local-w", sd, n), nontrivial=nontrivial(n, sd))
                calls = observe(lambda: list(fh.iterdir(n)))
                judge("local", "iterdir", sd, n, str(root), [p for k, p in calls if k == "iterdir"])
                calls = observe(lambda: fh.rootdir.joinpath(n).is_file())
                judge("local", "is_file", sd, n, str(root), [p for k, p in calls if k in ("is_file", "is_dir")])
            common.set_private(fh, "_LocalFileHandler__transaction", None, lambda v: v is None or isinstance(v, (set, dict, list)), ("trans", "tx", "txn"))
            del base
        # ---- memory
        fh = fh_mem.MemoryFileHandler(subdir=sd)
        fh._data = RecDict(rec)
        for n, arg, form in forms(hnames):
            calls = observe(lambda: fh.open(arg, "wb"))
            keys = [p for k, p in calls if k == "mem-set"]
            judge("memory", "open-w-" + form, sd, n, "", ["/" + k if k != "." else "/" for k in keys])
            add("target.memory", [sd, n], {"op": "path.target", "handler": "memory", "subdir": sd, "name": n},
                [c for c in (keys[0].split("/") if keys else []) if c and c != "."])
            calls = observe(lambda: fh.open(arg, "rb"))
            judge("memory", "open-r-" + form, sd, n, "", ["/" + p if p != "." else "/" for k, p in calls if k == "mem-get"])
            out.case(("memory", sd, n, form), nontrivial=nontrivial(n, sd))
            out.traces_validated += 1
        # ---- zip
        fh = fh_zip.ZipFileHandler(str(zpath), subdir=sd)
        zf = common.get_private(fh, "_ZipFileHandler__file", lambda v: isinstance(v, __import__("zipfile").ZipFile))
        orig_open = zf.open
        def zopen(name, *a, **k):
            rec.rec("zip-open", name)
            return orig_open(name, *a, **k)
        zf.open = zopen
        for n, arg, form in forms(hnames):
            calls = observe(lambda: fh.open(arg, "rb"))
            zn = [p for k, p in calls if k == "zip-open"]
            judge("zip", "open-" + form, sd, n, "", ["/" + p if p != "." else "/" for p in zn])
            add("target.zip", [sd, n], {"op": "path.target", "handler": "zip", "subdir": sd, "name": n},
                [c for c in (zn[0].split("/") if zn else []) if c and c != "."])
            out.case(("zip", sd, n, form), nontrivial=nontrivial(n, sd))
            out.traces_validated += 1
        # ---- http
        fh = fh_http.HTTPFileHandler("https://h.invalid/base/%s", subdir=sd)
        def fake_get(url, **k):
            rec.rec("http-get", url)
            raise FileNotFoundError(url)
        fh.session.get = fake_get
        for n, arg, form in forms(hnames[:: ctx.pick(3, 1)]):
            calls = observe(lambda: fh.open(arg))
            urls = [p for k, p in calls if k == "http-get"]
            for u in urls:
                pre = "https://h.invalid/base/"
                tail = u[len(pre):]
                segs = tail.split("/")
                wantsub = [urllib.parse.quote(c, safe="") for c in expected_subdir(sd)]
                bad = (not u.startswith(pre) or any(ch in tail for ch in "?# ") or ".." in segs or "." in segs
                       or segs[: len(wantsub)] != wantsub)
                if bad:
                    out.find("http.open|url-escapes-base", f"http subdir={sd!r} open({n!r}) requested {u!r}",
                             {"kind": "http", "subdir": sd, "name": n, "url": u})
                # the file name must be percent-encoded into the placeholder: exactly the quoted components
                exact = "/".join(urllib.parse.quote(c, safe="") for c in expected_subdir(sd) + expected_subdir(n))
                if tail != exact:
                    out.find("http.open|name-not-percent-encoded", f"http subdir={sd!r} open({n!r}) requested ...{tail!r}, expected ...{exact!r}",
                             {"kind": "http", "subdir": sd, "name": n, "url": u})
            tail = urls[0][len("https://h.invalid/base/"):] if urls else None
            # model: quote(true, '/'.join(target))
            add("http.%s", [sd, n], {"op": "path.target", "handler": "http", "subdir": sd, "name": n},
                None if tail is None else [urllib.parse.unquote(c) for c in tail.split("/") if c])
            out.case(("http", sd, n, form), nontrivial=nontrivial(n, sd))
            out.traces_validated += 1
        # ---- glart (init bypassed)
        g = object.__new__(fh_glart.GitlabArtifactsFiles)
        g.subdir = helpers.normalize_pure_path(sd)
        g._GitlabArtifactsFiles__path = "https://gl.invalid"
        g._GitlabArtifactsFiles__project = 1
        g._GitlabArtifactsFiles__job = 2
        g._GitlabArtifactsFiles__cache = {}
        class _Resp:
            status_code = 404
        def rawget(url):
            rec.rec("glart-get", url)
            return _Resp()
        g._GitlabArtifactsFiles__rawget = rawget
        for n, arg, form in forms(hnames[:: ctx.pick(5, 1)]):
            g._GitlabArtifactsFiles__cache.clear()  # negative cache would hide the request
            calls = observe(lambda: g.open(arg))
            urls = [p for k, p in calls if k == "glart-get"]
            pre = "https://gl.invalid/api/v4/projects/1/jobs/2/artifacts/"
            tails = [u[len(pre):] for u in urls]
            judge("glart", "open", sd, n, "", ["/" + t if t != "." else "/" for t in tails])
            add("target.glart", [sd, n], {"op": "path.target", "handler": "glart", "subdir": sd, "name": n},
                [c for c in (tails[0].split("/") if tails else []) if c and c != "."])
            out.case(("glart", sd, n, form), nontrivial=nontrivial(n, sd))

    # ---- git (one worktree per subdir; fewer subdirs in quick)
    for sd in (SUBDIRS if ctx.thorough else ["/", "sub", "sub/dir", "../up", "a/../b"]):
        fh = fh_git.GitFileHandler(str(gitrepo), "master", subdir=sd)
        cache = str(fh.cache_dir)
        def gopen(p, *a, **k):
            rec.rec("git-open", p)
            raise FileNotFoundError(str(p))
        fh_git.open = gopen  # shadows builtins.open inside the module
        try:
            with patched_fs(rec):
                for n, arg, form in forms(hnames[:: ctx.pick(2, 1)]):
                    calls = observe(lambda: fh.open(arg, "rb"))
                    t_open = [p for k, p in calls if k == "git-open"]
                    judge("git", "open-" + form, sd, n, cache, t_open)
                    rel = [c for c in (t_open[0][len(cache):].split("/") if t_open else []) if c]
                    add("target.git", [sd, n], {"op": "path.target", "handler": "git", "subdir": sd, "name": n}, rel)
                    out.case(("git", sd, n, form), nontrivial=nontrivial(n, sd))
                    out.traces_validated += 1
                for n in hnames[:: ctx.pick(9, 2)]:
                    calls = observe(lambda: list(fh.iterdir(n)))
                    judge("git", "iterdir", sd, n, cache, [p for k, p in calls if k == "iterdir"])
                    calls = observe(lambda: fh.rootdir.joinpath(n).is_file())
                    judge("git", "is_file", sd, n, cache, [p for k, p in calls if k in ("is_file", "is_dir")])
                    out.case(("git-l", sd, n), nontrivial=nontrivial(n, sd))
        finally:
            del fh_git.open
        del fh

    # (h) symbolic links below the root: real links on scratch trees (directory and file links, relative / '..' / absolute
    #     targets, links to links, dangling links, loops), the local handler and a git work tree reading through them;
    #     the physical location (os.path.realpath of the path the handler composes) against the model's link walk
    symlink_stream(ctx, out, add, fh_local, fh_git, helpers)

    # (g) HTTP URL templates: every escape of the template language, unknown escapes, literal percent signs, names with
    #     dots / query / fragment / percent characters; the request is intercepted at session.get
    import re as _re
    T_NAMES = ["a.b.c", ".hidden", "a.", "x..y", "dir.d/file", "é.ü", "a b.c d", "?x=1#f.txt", "%41.%42", "", ".", "..", "a/..", "/abs/x.y",
               "../../up.txt", "a//b.tar.gz", "q?/h#.e?", "n.%s", "\U0001F600.\U0001F600"]
    T_NAMES += [n for n in hnames[:: ctx.pick(97, 11)]]
    T_SUBDIRS = ["/", "sub", "a b/ü", "../x?y"]
    for tmpl in HTTP_TEMPLATES:
        eff = tmpl if _re.search("%[%a-z]", tmpl) else tmpl.rstrip("/") + "/%s"
        pieces = _re.split("(%[%a-z])", eff)
        rx = ""
        kinds = []
        for pc in pieces:
            if _re.fullmatch("%[%a-z]", pc):
                if pc == "%%":
                    rx += "%"
                else:
                    kinds.append(pc[1])
                    rx += "([A-Za-z0-9_.~%/-]*)" if pc[1] in "sd" else "([A-Za-z0-9_.~%-]*)"
            else:
                rx += _re.escape(pc)
        for sd in T_SUBDIRS:
            try:
                fh = fh_http.HTTPFileHandler(tmpl, subdir=sd)
            except Exception as e:  # noqa: BLE001
                out.find("http.init|raises", f"HTTPFileHandler({tmpl!r}) raised {e!r}", {"kind": "http-template", "template": tmpl, "subdir": sd, "name": ""})
                continue
            got: list[str] = []

            def fake_get2(url, **k):
                got.append(url)
                raise FileNotFoundError(url)

            fh.session.get = fake_get2
            for n in T_NAMES:
                got.clear()
                try:
                    fh.open(n)
                    iv = {"err": "no-request"}
                except FileNotFoundError:
                    iv = {"url": got[0]} if got else {"err": "FileNotFoundError"}
                except KeyError as e:
                    iv = {"err": "KeyError:" + str(e.args[0])}
                except Exception as e:  # noqa: BLE001
                    iv = {"err": type(e).__name__}
                add("http.template", [tmpl, sd, n], {"op": "http.request", "path": tmpl, "subdir": sd, "name": n}, iv)
                out.case(("http-t", tmpl, sd, n), nontrivial=True)
                out.hit("http.template:" + (("url:" + "".join(sorted(set(kinds)))) if "url" in iv else iv["err"].split(":")[0]))
                if "url" not in iv:
                    if not iv["err"].startswith(("KeyError", "ValueError")):
                        out.find("http.open|unexpected-error", f"template {tmpl!r} subdir={sd!r} open({n!r}) -> {iv}",
                                 {"kind": "http-template", "template": tmpl, "subdir": sd, "name": n})
                    continue
                u = iv["url"]
                m = _re.fullmatch(rx, u)
                want = expected_subdir(sd) + expected_subdir(n)
                bad = None
                if m is None:
                    bad = "the URL is not the template with percent-encoded text in its placeholders"
                elif u.count("?") != eff.count("?") or u.count("#") != eff.count("#"):
                    bad = "the file name added query / fragment structure"
                else:
                    for kd, g in zip(kinds, m.groups()):
                        segs = g.split("/")
                        if kd == "s" and ([urllib.parse.unquote(c) for c in segs] != want or ".." in segs or "." in segs):
                            bad = f"%s was expanded to {g!r}, expected the quoted components of {want}"
                        if kd == "q" and (urllib.parse.unquote(g) != "/".join(want) or "/" in g):
                            bad = f"%q was expanded to {g!r}"
                        if kd == "d" and ([urllib.parse.unquote(c) for c in segs] != (want[:-1] or ["."]) or ".." in segs):
                            bad = f"%d was expanded to {g!r}, expected the quoted directory {want[:-1]}"
                        if kd in "ne" and ("/" in g or not want[-1].startswith(urllib.parse.unquote(g)) and not want[-1].endswith(urllib.parse.unquote(g))):
                            bad = f"%{kd} was expanded to {g!r}, not a part of the file name {want[-1]!r}"
                if bad:
                    out.find("http.open|template-structure", f"{bad}: template {tmpl!r} subdir={sd!r} open({n!r}) requested {u!r}",
                             {"kind": "http-template", "template": tmpl, "subdir": sd, "name": n})

    # (d) quote / unquote, (f) joinpath, tmpname
    strs = sorted({c for n in names[:2000] for c in n.split("/")} | {"", "a b", "é/ü", "?#&=+%", " x", "\U0001F600", "~_.-", "%zz", "100%"})
    strs += ["".join(ctx.rng.choice("ab /%?#é .~\\\U0001F600") for _ in range(ctx.rng.randint(1, 12))) for _ in range(ctx.pick(300, 3000))]
    for s in strs:
        for safe in (True, False):
            q = urllib.parse.quote(s, safe="/" if safe else "")
            add("quote", [s, safe], {"op": "quote", "s": s, "slash_safe": safe}, q)
            add("unquote", q, {"op": "unquote", "s": q}, list(urllib.parse.unquote_to_bytes(q)))
            out.case(("quote", s, safe), nontrivial=any(not ch.isalnum() for ch in s))
    from capellambse.filehandler import abc as fh_abc
    memfh = fh_mem.MemoryFileHandler()
    for n in hnames[:: ctx.pick(4, 1)]:
        for selfp in ([], ["a"], ["a", "b c"]):
            fp = fh_mem.MemoryFilePath(memfh, P(*selfp))
            r = fp.joinpath(n)
            add("joinpath", [selfp, n], {"op": "path.joinpath", "self": selfp, "path": n}, list(r._path.parts))
            out.case(("joinpath", tuple(selfp), n), nontrivial=nontrivial(n))
    del fh_abc
    tmp_names = ["a", "x" * 249, "y" * 250, "z" * 251, "é" * 255, "w" * 300, "a.b.capella",
                 # the cut counts UTF-8 bytes and drops whole characters: boundaries for 2-, 3- and 4-byte characters
                 "é" * 124 + "ab", "é" * 125, "é" * 125 + "a", "é" * 126, "a" + "é" * 125, "€" * 83, "€" * 83 + "a", "€" * 83 + "ab",
                 "€" * 84, "\U0001F600" * 62, "\U0001F600" * 62 + "ab", "\U0001F600" * 62 + "abc", "\U0001F600" * 63, "." * 251 + ".tmp", ".x.tmp"]
    tmp_names += ["".join(ctx.rng.choice("aé€\U0001F600.") for _ in range(ctx.rng.randint(60, 260))) for _ in range(ctx.pick(40, 400))]
    for n in tmp_names:
        for d in ([], ["d"], ["d", "e"]):
            r = common.find_function(fh_local, "_tmpname", ("tmp", "temp"))(P(*d, n))
            add("tmpname", d + [n], {"op": "path.tmp", "parts": d + [n]}, list(r.parts))
            out.case(("tmp", tuple(d), n))
            nb = len(n.encode())
            out.hit("tmpname:" + ("cut" if nb > 250 else "uncut") + (":multibyte" if nb != len(n) else ""))
            # monitor (no model): the temp name is a sibling, fits the 255-byte limit of a file name, and embeds a
            # prefix of the name - the whole name whenever that fits
            inner = r.name[1:-4]
            if r.parent != P(*d, n).parent or len(os.fsencode(r.name)) > 255 or not (r.name.startswith(".") and r.name.endswith(".tmp")) \
                    or not n.startswith(inner) or (nb <= 250 and inner != n):
                out.find("local._tmpname|name-too-long-or-not-a-prefix", f"_tmpname({n[:40]!r}... {nb} bytes) -> {len(os.fsencode(r.name))} bytes",
                         {"kind": "tmpname", "name": n, "dir": d})

    # ---- differential comparison
    if os.environ.get("VERIF_NO_MODEL") != "1":
        answers = common.model(req, driver="Path")
        for (stream, case), iv, ans in zip(meta, impl, answers):
            mv = ans.get("ok", {"err": ans.get("err")})
            if stream == "http.%s" and iv is None:
                continue
            if mv != iv:
                out.disagree(stream, case, iv, mv)
            out.hit(stream)
    out.exhaustive = True
    out.extra["alphabet"] = ALPHA
    out.extra["subdirs"] = SUBDIRS
    return out


def replay(ctx: Ctx, case: dict):
    """Re-run one recorded failing case against the implementation."""
    os.environ["XDG_CACHE_HOME"] = str(ctx.scratch / "xdg")
    sys.path.insert(0, str(common.REPO))
    from capellambse import helpers
    if case["kind"] == "normalize":
        r = helpers.normalize_pure_path(case["path"], base=case["base"])
        if r.is_absolute() or any(c in ("..", ".", "") for c in r.parts):
            return f"normalize_pure_path -> {r}"
        return None
    if case["kind"] == "http-template":
        from capellambse.filehandler import http as fh_http
        fh = fh_http.HTTPFileHandler(case["template"], subdir=case["subdir"])
        got = []
        fh.session.get = lambda url, **k: (got.append(url), (_ for _ in ()).throw(FileNotFoundError(url)))[1]
        try:
            fh.open(case["name"])
        except (FileNotFoundError, KeyError, ValueError):
            pass
        if got and (got[0].count("?") != case["template"].count("?") or got[0].count("#") != case["template"].count("#")):
            return f"requested {got[0]!r}"
        return None
    if case["kind"] == "tmpname":
        from capellambse.filehandler import local as fh_local
        r = common.find_function(fh_local, "_tmpname", ("tmp", "temp"))(pathlib.PurePosixPath(*case["dir"], case["name"]))
        if len(os.fsencode(r.name)) > 255:
            return f"_tmpname gives a name of {len(os.fsencode(r.name))} bytes"
        return None
    if case["kind"] == "handler" and case["handler"] == "memory":
        from capellambse.filehandler import memory
        fh = memory.MemoryFileHandler(subdir=case["subdir"])
        fh.open(case["name"], "wb")
        key = str(next(iter(fh._data)))
        want = expected_subdir(case["subdir"])
        if key.split("/")[: len(want)] != want and want:
            return f"memory handler wrote {key!r} outside subdir {case['subdir']!r}"
        return None
    if case["kind"] == "handler" and case["handler"] == "zip":
        from capellambse.filehandler import zip as fz
        zp = ctx.scratch / "z.zip"
        with zipfile.ZipFile(zp, "w") as z:
            z.writestr("top.txt", "y")
        fh = fz.ZipFileHandler(str(zp), subdir=case["subdir"])
        seen = []
        zf = common.get_private(fh, "_ZipFileHandler__file", lambda v: isinstance(v, __import__("zipfile").ZipFile))
        zf.open = lambda name, *a, **k: (seen.append(name), (_ for _ in ()).throw(KeyError(name)))[1]
        try:
            fh.open(case["name"])
        except OSError:
            pass
        want = expected_subdir(case["subdir"])
        if seen and seen[0].split("/")[: len(want)] != want:
            return f"zip handler requested member {seen[0]!r} outside subdir {case['subdir']!r}"
        return None
    # other handlers: re-run the whole check
    o = run(ctx)
    for f in o.findings:
        if f.replay.get("handler") == case.get("handler") and f.replay.get("entry") == case.get("entry"):
            return f.what
    return None
