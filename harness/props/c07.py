"""C07 — attribute values read back as written.

Cases: every POD descriptor slot of every registered model class (the generated table, 1 056 rows)
x value classes of its kind (boundary + seeded random) x initial states of the XML attribute.
Each case runs on the real descriptor (setattr/getattr/delattr on an instance of the class),
is sent to the Lean model (`Capella/Driver/Pods.lean`, descriptor taken from the generated table by
row index, CPython/libxml2 answers passed as oracle tables) and is judged by an independent monitor
that encodes the statement directly. Plus: save/reload of a real model, `_Specification`
(plain and linked text), HTML-repair idempotence, the integer codec and the two datetime regexes.
"""

from __future__ import annotations

import datetime
import enum
import math
import os
import re
import shutil
import struct
import sys

import common
from common import Ctx, Outcome

DRIVERS = ["Pods"]
TABLES = True
LEVEL = "proof"
RULE = ("[linked text: token-level values (lead text, links live/dead/malformed/unnamed/stale, tails) x loader state; any HTML "
        "at fragment level; timestamps: years 1..9999 x all offset kinds x rounding edges, disturbed iso strings; "
        "specification op histories up to 25 steps incl. len; save/reload on corpus models] "
        "every row of the generated descriptor table (class x POD slot) x value classes of its kind "
        "(strings: empty/long/every XML-legal BMP character in blocks/markup-significant/illegal; HTML with and "
        "without errors; bool; ints incl. huge/negative/bool; floats incl. denormal/huge/-0.0/inf/-inf/nan/int; "
        "aware+naive datetimes in many offsets and sub-ms parts; every enum member by object and by name; "
        "SelectorRules) x initial attribute state (absent/present/junk); distinct = (descriptor, value, initial "
        "state); non-trivial = value is not None and not the plain default")
ASSUMPTIONS = [
    "str(float)/float(str), float(int), datetime.astimezone() of naive values (local zone), datetime.fromisoformat on shapes "
    "the code never writes, and lxml's HTML repair (helpers.repair_html) are parameters of the model; their laws "
    "(Params.Lawful) are sampled on the implementation in every run (see coverage.law_samples)",
    "isoformat('T','milliseconds') / fromisoformat on the written shapes / millisecond truncation are modelled (Model/PodsDt.lean) "
    "and proved inverse; tied by the dt.format / dt.parse / pod.datetime streams",
    "libxml2's HTML parser is modelled only on the linked-text sub-language (text runs without CR, the five references of "
    "html.escape, <a href=\"…\"/> and <a href=\"…\">text</a>); on other strings lxml.html.fragments_fromstring stays a "
    "parameter and the two walks are tied at fragment level (lt.escape.frags / lt.unescape.frags)",
    "int()/str() are modelled for ASCII digits and Python's whitespace set; non-ASCII decimal digits are not modelled",
    "surrogate code points cannot be represented in Lean's Char; they are XML-illegal and exercised by the monitor only",
    "local time zone of the sandbox (UTC) for naive datetimes",
    "python -O (assert removal in BoolPOD._to_xml) is not considered",
]
TRUSTED = ["C07: oracle tables recorded from CPython/lxml by harness/props/c07.py are passed to the model unchanged"]
MANIFEST = dict(
    text=("(round 3: the linked-text codec incl. a parser for its sub-language, the iso timestamp codec and _Specification "
          "as a mutable mapping are now inside the model with unbounded theorems — exact read-back characterisation and "
          "round trip of linked text, injectivity and XML-safety of the stored form, parse(format t) = trunc t for all "
          "valid aware datetimes except sub-second offsets (iff), refinement of any op history to an insertion-ordered "
          "dict, float special values / elision / exact acceptance set.) "
          "Lean theorems over a model of BasePOD.__get__/__set__/__delete__ and the eight codecs: for every row of "
          "the generated descriptor table (every POD slot of every registered model class, kernel-checked "
          "well-formedness) and every valid value, get(set(v)) is the value v stands for (HTML up to repair, timestamps "
          "to milliseconds, enum names to members), read-back is a fixpoint, defaults (also by enum name) are elided, "
          "absent reads default, present read-only attributes reject writes, only the own XML attribute changes; own "
          "proofs for the decimal integer codec and the two datetime regexes. CPython float/datetime conversions and "
          "libxml2's HTML repair are parameters with stated laws, sampled on the implementation. Tied to /repo by a "
          "differential run of all 1 056 slots x value classes against the real descriptors and by an independent "
          "monitor incl. save/reload on the corpus models (newline-family characters, specification bodies); "
          "_Specification (plain + linked text) is modelled and run differentially."),
    design_ref="§6 C07",
    note=("partial: HTML well-formedness repair and its idempotence and float<->str live in libxml2/CPython and are "
          "sampled, not proved; libxml2's HTML parser is modelled only on the linked-text sub-language; save/reload goes "
          "through the serializer (C01/C02) and is sampled by the monitor. Known findings: writable=False is write-once "
          "(absent attribute accepts one write); linked text with dead links reads back as a placeholder; a UTC offset "
          "shorter than one second is read back as UTC (CPython)."),
    technique="Lean 4 proof (generic over a kernel-checked generated descriptor table) + differential correspondence "
              "with the real descriptors + independent implementation-side monitor",
)

XML_LEGAL_EXTRA = [0x9, 0xA, 0xD, 0x20, 0x7F, 0x85, 0xA0, 0xD7FF, 0xE000, 0xFFFD, 0x10000, 0x1F600, 0x10FFFF]
ILLEGAL = ["\x00", "a\x0bb", "\x1f", "￾", "￿"]

HTML_FRAGMENTS = [
    "", " ", "plain text", "a &amp; b", "a & b", "1 < 2", "<p>closed</p>", "<p>unclosed", "lead<b>bold</b>tail",
    "<ul><li>one<li>two</ul>", "<b><i>cross</b></i>", "</p>stray close", "<br>", "<img src=x>", "<a href='h'>l</a>",
    "<p xml:lang='en' a:b='1' c=\"2\">ns attrs</p>", "<!-- comment -->", "<!-- c -->text<!-- d -->",
    "text<!-- trailing", "<p>&nbsp;&eacute;&#233;&#x1F600;</p>", "<table><tr><td>1<td>2</table>",
    "<script>if (a<b) {}</script>", "<style>p{}</style>", "<p>a</p>\n<p>b</p>", "  leading spaces <i>x</i>",
    "x\r\ny", "tab\there", "<div><div><div>deep</div>", "<p title=\"q&quot;uote\">q</p>", "<p title='<>'>lt in attr</p>",
    "&lt;escaped&gt;", "&unknown; entity", "<?pi x?>", "<![CDATA[c]]>", "<html><body><p>full doc</p></body></html>",
    "<body>only body</body>", "<head><title>t</title></head>x", "é ü 漢字 \U0001F600", "<p> </p>", "<o:p>office</o:p>",
    "<p style=\"color:red\">styled</p>", "<a href=\"hlink://0001\">link</a>", "<>", "< p>space tag</ p>", "a<b", "<p/>self",
    "Research & Development", "AT&T", "non&nbsp;breaking", "&nbsp;", "&copy; 2024 &mdash; x", "a && b", "1 > 0", "0 < 1", "x <= y && y >= z",
    "\"quoted\" 'single'", "&amp;amp;", "&#65;&#x42;", "&#", "&#x", "&;", "&amp", "R&D; Q&A", "]]>", "a&b=c&d", "&lt;b&gt;not a tag&lt;/b&gt;",
    "<!-- a -- b -->", "x<!--<!--y", "<input disabled>", "<td>cell outside table</td>", "<li>item outside list", "\x0b", "<p>\x0c</p>",
]


# ---------------------------------------------------------------- environment


def _imports():
    if str(common.REPO) not in sys.path:
        sys.path.insert(0, str(common.REPO))
    sys.path.insert(0, str(common.VERIF / "harness"))
    import gen_pods
    import capellambse
    from capellambse import helpers
    from capellambse.extensions.pvmt import _config as pvmt_config
    from capellambse.model import _descriptors, _pods
    from lxml import etree

    gen_pods.load()
    return gen_pods, capellambse, helpers, pvmt_config, _descriptors, _pods, etree


def exc_name(e: BaseException, kind: str) -> str:
    from lxml import etree

    if isinstance(e, AssertionError):
        return "AssertionError"
    if isinstance(e, KeyError):
        return "KeyError"
    if isinstance(e, AttributeError):
        return "AttributeError"
    if isinstance(e, TypeError):
        return "TypeError"
    if isinstance(e, OverflowError):
        return "ValueError" if kind == "datetime" else "OverflowError"
    if isinstance(e, (ValueError, etree.LxmlError, OSError)):
        return "ValueError"
    return type(e).__name__


# ---------------------------------------------------------------- value encoding (harness <-> driver)


def dt_id(v: datetime.datetime) -> str:
    return v.isoformat()


def is_aware(v: datetime.datetime) -> bool:
    return v.tzinfo is not None and v.tzinfo.utcoffset(v) is not None


def lean_ok(s: str) -> bool:
    return not any(0xD800 <= ord(c) <= 0xDFFF for c in s)


def off_us(v: datetime.datetime) -> int:
    o = v.utcoffset()
    return (o.days * 86400 + o.seconds) * 10**6 + o.microseconds


def dt_fields(v: datetime.datetime) -> list[int]:
    """an aware datetime as the model's `DT`: local fields + utcoffset in microseconds"""
    return [v.year, v.month, v.day, v.hour, v.minute, v.second, v.microsecond, off_us(v)]


def dt_csv(v: datetime.datetime) -> str:
    return ",".join(map(str, dt_fields(v)))


def subsecond_offset(v) -> bool:
    """CPython's fromisoformat turns a non-zero UTC offset of less than a second into UTC (known finding)"""
    return isinstance(v, datetime.datetime) and is_aware(v) and 0 < abs(off_us(v)) < 10**6


def enc(v, pvmt_config) -> dict:
    if v is None:
        return {"t": "none"}
    if isinstance(v, bool):
        return {"t": "bool", "v": v}
    if isinstance(v, enum.Enum):
        val = v.value if isinstance(v.value, str) else repr(v.value)
        return {"t": "member", "cls": f"{type(v).__module__}.{type(v).__qualname__}", "name": v.name, "value": val}
    if isinstance(v, int):
        return {"t": "int", "v": str(v)}
    if isinstance(v, float):
        return {"t": "float", "v": repr(v)}
    if isinstance(v, str):
        return {"t": "str", "v": str(v)}
    if isinstance(v, datetime.datetime):
        return {"t": "aware", "f": dt_fields(v)} if is_aware(v) else {"t": "naive", "v": dt_id(v)}
    if isinstance(v, pvmt_config.SelectorRules):
        return {"t": "selector", "v": v.raw}
    return {"t": "other"}


# ---------------------------------------------------------------- value generators


def rand_xml_string(rng, n: int) -> str:
    out = []
    for _ in range(n):
        r = rng.random()
        if r < 0.5:
            out.append(chr(rng.randint(0x20, 0x7E)))
        elif r < 0.6:
            out.append(rng.choice("<>&\"'\t\n\r "))
        elif r < 0.9:
            c = rng.randint(0xA0, 0xFFFD)
            out.append(chr(c) if not 0xD800 <= c <= 0xDFFF else "x")
        else:
            out.append(chr(rng.randint(0x10000, 0x10FFFF)))
    return "".join(out)


def string_values(ctx: Ctx) -> list[tuple[str, object]]:
    rng = ctx.rng
    vals: list[tuple[str, object]] = [
        ("empty", ""), ("one", "a"), ("space", " "), ("long", "x" * 20000), ("markup", "<a&b>\"'</a>&amp;&#10;"),
        ("ws", "\t \n \r\n x \r"), ("edges", "".join(chr(c) for c in XML_LEGAL_EXTRA)), ("unicode", "é ü 漢字 \U0001F600"),
        ("numeric-looking", "123"), ("true-looking", "true"), ("star", "*"),
    ]
    # every XML-legal BMP character (and a stride through the astral planes), in blocks
    legal = [c for c in range(0x20, 0xFFFE) if not 0xD800 <= c <= 0xDFFF]
    legal = [0x9, 0xA, 0xD] + legal
    block = 2048
    blocks = [legal[i:i + block] for i in range(0, len(legal), block)]
    if not ctx.thorough:
        k = ctx.rng.randrange(len(blocks))
        blocks = blocks[:2] + [blocks[k], blocks[-1]]
    for i, b in enumerate(blocks):
        vals.append((f"legal-block-{b[0]:04x}", "".join(map(chr, b))))
    vals.append(("astral-stride", "".join(chr(c) for c in range(0x10000, 0x110000, 4099 if ctx.thorough else 65521))))
    for i in range(ctx.pick(8, 60)):
        vals.append(("random", rand_xml_string(rng, rng.choice([1, 3, 10, 80]))))
    vals += [("illegal", s) for s in ILLEGAL]
    vals += [("wrongtype", 5), ("wrongtype", 1.5), ("wrongtype", object())]
    return vals


def rand_html(rng) -> str:
    tags = ["p", "b", "i", "ul", "li", "div", "span", "a", "br", "table", "tr", "td", "h1", "o:p", "script", "style", "pre", "textarea", "title"]
    out = []
    for _ in range(rng.randint(1, 8)):
        r = rng.random()
        t = rng.choice(tags)
        if r < 0.3:
            out.append(f"<{t}>")
        elif r < 0.5:
            out.append(f"</{t}>")
        elif r < 0.6:
            out.append(f"<{t} {rng.choice(['class', 'xml:lang', 'x:y', 'href'])}={rng.choice(['q', chr(34) + 'a b' + chr(34), chr(39) + '<' + chr(39)])}>")
        elif r < 0.65:
            out.append(rng.choice(["<!--", "-->", "<![CDATA[", "]]>", "<?x", "&", "&amp;", "&#x41;", "&bogus;", "<", ">"]))
        else:
            out.append(rand_xml_string(rng, rng.randint(1, 6)))
    return "".join(out)


PLAIN_PARTS = ["Research & Development", "AT&T", "a&nbsp;b", "&amp;", "&lt;", "&gt;", "&quot;", "&apos;", "&#65;", "&#x41;", "&eacute;", "&bogus;", "&", "&&",
               ";", "&amp", "&#", "&#x", "1 > 0", "\"q\"", "'s'", "é", "x", "  ", " & ", "R&D;", "&copy;2024", "&nbsp;", "&#1114112;", "a < b", "<", ">",
               "<<", "]]>", "\n", "\t"]


def rand_plain(rng) -> str:
    """tag-less text (mostly) with markup-significant characters, entities and broken references"""
    return "".join(rng.choice(PLAIN_PARTS) for _ in range(rng.randint(1, 4)))


WF_CLASSES = {
    "NS_ERR_UNDEFINED_NAMESPACE": "unbound-prefix",
    "ERR_HYPHEN_IN_COMMENT": "comment", "ERR_COMMENT_NOT_FINISHED": "comment",
    "ERR_NAME_REQUIRED": "tag-soup", "ERR_ATTRIBUTE_WITHOUT_VALUE": "tag-soup", "ERR_GT_REQUIRED": "tag-soup", "ERR_SPACE_REQUIRED": "tag-soup",
    "ERR_LT_IN_ATTRIBUTE": "tag-soup", "ERR_TAG_NAME_MISMATCH": "tag-soup", "ERR_ATTRIBUTE_REDEFINED": "tag-soup", "NS_ERR_QNAME": "tag-soup",
    "ERR_TAG_NOT_FINISHED": "tag-soup", "ERR_LTSLASH_REQUIRED": "tag-soup", "ERR_ATTRIBUTE_NOT_STARTED": "tag-soup", "NS_ERR_COLON": "tag-soup",
    "ERR_INVALID_CHAR": "illegal-char",
}


def not_wellformed(fragment: str) -> list[str]:
    """Independent well-formedness oracle: parse the fragment as XML content of a root element with libxml2's strict
    XML parser (no recovery, no DTD: only the five XML entities and character references are legal). Returns the
    class of the first reported error ([] = well-formed)."""
    from lxml import etree

    parser = etree.XMLParser(resolve_entities=False, recover=False, huge_tree=True)
    try:
        etree.fromstring("<r>" + fragment + "</r>", parser)
        return []
    except etree.XMLSyntaxError:
        # the first error in document order is the cause; what libxml2 reports after it (e.g. an entity inside a bogus
        # tag name) is a consequence
        n = parser.error_log[0].type_name if len(parser.error_log) else "unknown"
        return [WF_CLASSES.get(n, "entity" if ("ENTITY" in n or "CHARREF" in n) else n)]


def html_values(ctx: Ctx) -> list[tuple[str, object]]:
    vals = [("fragment", s) for s in HTML_FRAGMENTS]
    vals += [("random-soup", rand_html(ctx.rng)) for _ in range(ctx.pick(40, 600))]
    vals += [("random-plain", rand_plain(ctx.rng)) for _ in range(ctx.pick(40, 600))]
    vals += [("illegal", "\x00"), ("illegal", "a￾b"), ("wrongtype", 5)]
    return vals


def int_values(ctx: Ctx) -> list[tuple[str, object]]:
    rng = ctx.rng
    vals = [("zero", 0), ("one", 1), ("neg", -1), ("i32", 2**31), ("-i64", -2**63), ("huge", 10**100), ("-huge", -(10**300) + 7),
            ("digits4000", int("9" * 4000)), ("bool", True), ("bool", False)]
    vals += [("random", rng.randint(-10**rng.randint(1, 60), 10**rng.randint(1, 60))) for _ in range(ctx.pick(20, 300))]
    vals += [("wrongtype", 1.0), ("wrongtype", 2.5), ("wrongtype", "5"), ("wrongtype", object())]
    return vals


def rand_float(rng) -> float:
    while True:
        x = struct.unpack("<d", struct.pack("<Q", rng.getrandbits(64)))[0]
        if math.isfinite(x):
            return x


def float_values(ctx: Ctx) -> list[tuple[str, object]]:
    rng = ctx.rng
    vals = [("zero", 0.0), ("negzero", -0.0), ("plain", 1.5), ("neg", -2.25), ("denormal-min", 5e-324), ("denormal", 2.5e-310),
            ("min-normal", 2.2250738585072014e-308), ("max", 1.7976931348623157e308), ("e16", 1e16), ("e-7", 1e-7),
            ("digits17", 123456789.12345679), ("third", 1 / 3), ("inf", math.inf), ("int", 0), ("int", 5), ("int", -3),
            ("int", 2**53), ("int", -(2**62)), ("bool", True), ("bool", False)]
    vals += [("random-bits", rand_float(rng)) for _ in range(ctx.pick(30, 500))]
    vals += [("random-decimal", round(rng.uniform(-1e6, 1e6), rng.randint(0, 6))) for _ in range(ctx.pick(10, 100))]
    vals += [("neginf", -math.inf), ("nan", math.nan), ("int-overflow", 10**400), ("wrongtype", "1.5"), ("wrongtype", object())]
    return vals


def datetime_values(ctx: Ctx) -> list[tuple[str, object]]:
    rng = ctx.rng
    td = datetime.timedelta
    offsets = [td(0), td(hours=5, minutes=30), td(hours=-8), td(hours=14), td(hours=-12), td(minutes=1), td(seconds=30),
               td(hours=5, minutes=30, seconds=15), td(hours=-3, seconds=-1), td(hours=1, microseconds=123),
               td(hours=23, minutes=59, seconds=59, microseconds=999999), -td(hours=23, minutes=59)]
    stamps = [(2021, 7, 23, 15, 0, 0, 0), (1970, 1, 1, 0, 0, 0, 1), (1999, 12, 31, 23, 59, 59, 999999), (2024, 2, 29, 12, 30, 45, 123456),
              (2000, 1, 1, 0, 0, 0, 999), (2000, 1, 1, 0, 0, 0, 1000), (2, 1, 1, 0, 0, 0, 500), (9998, 12, 31, 23, 59, 59, 999000),
              # boundaries of the fixed-width fields: 1-, 2-, 3- and 4-digit years, first / last representable day,
              # sub-millisecond parts just below / at / above a rounding boundary
              (1, 1, 1, 0, 0, 0, 0), (9, 9, 9, 9, 9, 9, 9009), (10, 10, 10, 10, 10, 10, 10010), (99, 12, 31, 23, 59, 59, 999999),
              (100, 1, 1, 0, 0, 0, 499), (999, 12, 31, 23, 59, 59, 999499), (1000, 1, 1, 0, 0, 0, 500), (1582, 10, 15, 6, 7, 8, 123456),
              (9999, 12, 31, 23, 59, 59, 999500), (9999, 12, 31, 23, 59, 59, 999999)]
    vals: list[tuple[str, object]] = []
    for i, st in enumerate(stamps):
        for j, off in enumerate(offsets):
            if ctx.thorough or (i + j) % 3 == 0 or i == 0:
                vals.append(("aware", datetime.datetime(*st, tzinfo=datetime.timezone(off))))
        vals.append(("naive", datetime.datetime(*st)))
    vals.append(("aware-utc", datetime.datetime(2020, 5, 17, 1, 2, 3, 456789, tzinfo=datetime.timezone.utc)))
    for _ in range(ctx.pick(20, 300)):
        off = td(seconds=rng.randint(-86399, 86399)) if rng.random() < 0.5 else td(minutes=rng.randint(-1439, 1439))
        if rng.random() < 0.2:
            off += td(microseconds=rng.randint(1, 999999)) if off < td(hours=23) else td(0)
        d = datetime.datetime(rng.randint(2, 9998), rng.randint(1, 12), rng.randint(1, 28), rng.randint(0, 23), rng.randint(0, 59),
                              rng.randint(0, 59), rng.choice([0, rng.randint(0, 999999), rng.randint(0, 999) * 1000]))
        vals.append(("aware-random", d.replace(tzinfo=datetime.timezone(off))) if rng.random() < 0.8 else ("naive-random", d))
    for us in [1, -1, 500000, -500000, 999999, -999999] + [rng.choice([-1, 1]) * rng.randint(1, 999999) for _ in range(ctx.pick(3, 30))]:
        st = rng.choice(stamps)
        vals.append(("aware-subsecond-offset", datetime.datetime(*st, tzinfo=datetime.timezone(td(microseconds=us)))))
    for secs in [1, -1, 59, -59, 60, 3599, 86399, -86399]:  # whole seconds next to the quirk: these must round-trip
        vals.append(("aware-offset-seconds", datetime.datetime(*rng.choice(stamps), tzinfo=datetime.timezone(td(seconds=secs)))))
    vals.append(("aware-offset-seconds", datetime.datetime(2000, 1, 1, tzinfo=datetime.timezone(td(seconds=1, microseconds=5)))))
    vals.append(("aware-offset-seconds", datetime.datetime(2000, 1, 1, tzinfo=datetime.timezone(-td(seconds=1, microseconds=5)))))
    vals += [("naive-year1", datetime.datetime(1, 1, 1)), ("wrongtype", "2020-01-01T00:00:00"), ("wrongtype", datetime.date(2020, 1, 1)), ("wrongtype", 5)]
    return vals


# the patterns the Lean model mirrors (`reSet` / `reGet`); used when the code no longer exposes its own
MODEL_RE_SET = re.compile(r"(?<=[+-]\d\d):(?=\d\d$)")
MODEL_RE_GET = re.compile(r"(?<=[+-]\d\d)(?=\d\d$)")

# initial XML data per kind (canonical, non-canonical, junk)
INITIAL = {
    "string": ["old"], "html": ["<p>old</p>", "<p>broken"], "bool": ["true", "false", "junk"], "int": ["5", " -7_0\n", "x", "True"],
    "float": ["1.5", "*", "inf", "1e5", "x"], "datetime": ["2021-07-23T15:00:00.000+0200", "2021-07-23T15:00:00.000+02:00", "junk"],
    "enum": ["junk"], "selector": ["[CLASS]x[/CLASS]"],
}


# ---------------------------------------------------------------- the run


class Env:
    pass


def run(ctx: Ctx) -> Outcome:
    os.environ["XDG_CACHE_HOME"] = str(ctx.scratch / "xdg")
    os.environ.pop("CAPELLAMBSE_XHTML", None)
    gen_pods, capellambse, helpers, pvmt_config, _descriptors, _pods, etree = _imports()
    import markupsafe

    out = Outcome(rule=RULE)
    rng = ctx.rng
    use_model = os.environ.get("VERIF_NO_MODEL") != "1"
    SelectorRules = pvmt_config.SelectorRules
    # the two regular expressions are internals: read them defensively. If one is gone (a refactoring), its
    # correspondence stream is reported as broken, the harness goes on with the patterns the model mirrors, and the
    # behavioural cases (set -> get, set -> save -> reload -> get) decide whether anything is wrong.
    re_set = getattr(_pods.DatetimePOD, "re_set", None)
    re_get = getattr(_pods.DatetimePOD, "re_get", None)
    re_missing = [n for n, x in (("re_set", re_set), ("re_get", re_get)) if not hasattr(x, "sub")]
    re_set = re_set if hasattr(re_set, "sub") else MODEL_RE_SET
    re_get = re_get if hasattr(re_get, "sub") else MODEL_RE_GET

    data = gen_pods.collect()
    rows = data["rows"]
    classes = {gen_pods.qual(c): c for c in gen_pods.model_classes()}
    out.extra["table"] = {"rows": len(rows), "unique_descriptors": data["unique"], "classes": len({r["cls"] for r in rows})}
    req: list[dict] = []
    handlers: list = []  # per request: callable(answer)

    def ask(request: dict, on_answer) -> None:
        req.append(request)
        handlers.append(on_answer)

    # ---- corpus: the recorded failing inputs of repaired defects are replayed first
    import json as _json
    for cf in sorted((common.VERIF / "corpus" / "C07").glob("*.json")):
        rec = _json.loads(cf.read_text())
        still = replay(ctx, rec["case"])
        out.case(("corpus", cf.name), {"corpus": cf.name, "still_fails": bool(still)})
        if still:
            out.find(rec["signature"], f"corpus case {cf.name} fails again: {still}", rec["case"])
        out.hit("corpus.replayed")

    # ---- (0) the generated table, read back through the driver, equals a fresh reflective dump
    def check_row(i: int, r: dict):
        def h(ans):
            m = ans.get("ok")
            want_kind = r["kind"]
            if m is None:
                out.disagree("table", {"row": i}, r, ans)
                return
            k = m["kind"]
            if isinstance(k, dict) and "enum" in k:
                e = data["enums"][r["enum"]]
                same = (want_kind == "enum" and k["enum"] == r["enum"] and k["stringy"] == e["stringy"]
                        and [tuple(x) for x in k["members"]] == [tuple(x) for x in e["members"]]
                        and r["default"] == ("member", k["default"]))
            elif isinstance(k, dict):
                same = want_kind == "other"
            else:
                same = k == want_kind
            dm = m["default"]
            dflt = (dm,) if isinstance(dm, str) else tuple(next(iter(dm.items())))
            same = same and (m["cls"], m["pyname"], m["attr"], m["writable"]) == (r["cls"], r["pyname"], r["attr"], r["writable"])
            same = same and dflt == tuple(r["default"]) and m["wf"] is True
            if not same:
                out.disagree("table", {"row": i}, r, m)
            out.hit("table.row")
        return h

    ask({"op": "table.size"}, lambda ans: (ans.get("ok") == len(rows)) or out.disagree("table", "size", len(rows), ans))
    for i, r in enumerate(rows):
        ask({"op": "table.row", "i": i}, check_row(i, r))

    spec_slots = gen_pods.spec_slots()
    out.extra["table"]["spec_slots"] = len(spec_slots)
    ask({"op": "table.specslots"}, lambda ans: (ans.get("ok") == [list(r) for r in spec_slots]) or out.disagree("table", "specslots", spec_slots, ans))

    # ---- value pools per kind
    pools = {
        "string": string_values(ctx), "html": html_values(ctx), "int": int_values(ctx), "float": float_values(ctx),
        "datetime": datetime_values(ctx),
        "bool": [("true", True), ("false", False), ("int-as-bool", 0), ("int-as-bool", 1), ("wrongtype", "true"), ("wrongtype", object())],
        "selector": [("rules", SelectorRules("[CLASS]http://x/y/Z[/CLASS]")), ("rules-empty", SelectorRules("")), ("str", "[PROPERTY]a=1[/PROPERTY]"),
                     ("str-empty", ""), ("rules-markup", SelectorRules("<&>\"'")), ("illegal", SelectorRules("\x00")), ("wrongtype", 5)],
    }
    other_enum = None

    def enum_pool(desc) -> list[tuple[str, object]]:
        nonlocal other_enum
        ec = desc.enumcls
        vals: list[tuple[str, object]] = []
        for n, mem in ec.__members__.items():
            vals.append(("member", mem))
            vals.append(("name", n))
        if other_enum is None:
            from capellambse.metamodel import modeltypes
            other_enum = modeltypes.AccessPolicy.READ_ONLY
        vals += [("bad-name", "NO_SUCH_MEMBER"), ("value-not-name", "readOnly"), ("foreign-member", other_enum), ("wrongtype", 5)]
        return vals

    # ---- law samples (Params.Lawful) on CPython / lxml
    laws = {"float_rt": 0, "float_ne_star": 0, "iso_rt": 0, "iso_shape": 0, "repair_idem": 0, "ofint_zero": 0}

    def repair(s: str):
        try:
            return str(helpers.repair_html(s))
        except Exception:
            return None

    def law_float(x: float):
        if math.isfinite(x):
            s = str(x)
            laws["float_rt"] += 1
            laws["float_ne_star"] += 1
            if float(s) != x or math.copysign(1, float(s)) != math.copysign(1, x) or s == "*" or not all(32 <= ord(c) < 127 for c in s):
                out.find("law|float-str-roundtrip", f"float(str({x!r})) != {x!r}", {"kind": "law-float", "repr": repr(x)})

    def law_dt(t: datetime.datetime):
        if subsecond_offset(t):
            return
        s = t.isoformat("T", "milliseconds")
        laws["iso_rt"] += 1
        back = datetime.datetime.fromisoformat(s)
        want = t.replace(microsecond=t.microsecond // 1000 * 1000)
        if back != want or back.utcoffset() != want.utcoffset():
            out.find("law|isoformat-roundtrip", f"fromisoformat(isoformat({t!r})) = {back!r}", {"kind": "law-dt", "id": dt_id(t)})
        laws["iso_shape"] += 1
        if not (re_set.sub("", s) != s or re_get.sub(":", s) == s):
            out.find("law|iso-shape", f"re_get matches but re_set does not on {s!r}", {"kind": "law-dt", "id": dt_id(t)})

    # ---- the monitor's own notion of "valid value" and "what reading back must give"
    def monitor_expect(kind: str, desc, v):
        """-> (valid?, expected value or None, is_default?) independent of the Lean model"""
        if v is None:
            return True, desc.default, True
        if kind == "string":
            ok = type(v) in (str, markupsafe.Markup) and xml_legal(v)
            return ok, v, ok and v == ""
        if kind == "html":
            if not isinstance(v, str):
                return False, None, False
            r = repair(v)
            return (r is not None and xml_legal(r)), r, v == ""
        if kind == "bool":
            return isinstance(v, bool), v, v is False
        if kind == "int":
            return isinstance(v, int), v, isinstance(v, int) and v == 0
        if kind == "float":
            if isinstance(v, int):
                try:
                    f = float(v)
                except OverflowError:
                    return False, None, False
                return f == v, f, v == 0
            ok = isinstance(v, float) and not math.isnan(v) and v != -math.inf
            return ok, v, ok and v == 0.0
        if kind == "datetime":
            if not isinstance(v, datetime.datetime):
                return False, None, False
            if not is_aware(v):
                try:
                    v = v.astimezone()
                except (ValueError, OverflowError, OSError):
                    return False, None, False
            return True, v.replace(microsecond=v.microsecond // 1000 * 1000), False
        if kind == "enum":
            ec = desc.enumcls
            if isinstance(v, ec):
                return True, v, v is desc.default
            if isinstance(v, str) and v in ec.__members__:
                return True, ec[v], ec[v] is desc.default
            return False, None, False
        if kind == "selector":
            if isinstance(v, SelectorRules):
                return xml_legal(v.raw), v, v.raw == ""
            if isinstance(v, str):
                return xml_legal(v), SelectorRules(v), False
            return False, None, False
        return False, None, False

    def xml_legal(s: str) -> bool:
        for ch in s:
            c = ord(ch)
            if not (c in (9, 10, 13) or 0x20 <= c <= 0xD7FF or 0xE000 <= c <= 0xFFFD or c >= 0x10000):
                return False
        return True

    def py_equal(kind: str, got, want) -> bool:
        if kind == "datetime":
            return (got is None and want is None) or (isinstance(got, datetime.datetime) and is_aware(got) and got == want)
        if kind == "float" and isinstance(want, float) and isinstance(got, float):
            return got == want
        if kind == "enum":
            return got is want
        return type(got) is type(want) and got == want if kind in ("selector",) else got == want

    # ---- one case on the real descriptor
    def new_obj(cls, init: list[tuple[str, str]]):
        o = cls.__new__(cls)
        o._element = etree.Element("x")
        o._model = None
        for k, v in init:
            o._element.set(k, v)
        return o

    sibling_slots: dict[str, list[str]] = {}
    for r in rows:
        sibling_slots.setdefault(r["cls"], []).append(r["pyname"])

    def safe_get(o, n):
        try:
            return repr(getattr(o, n))
        except Exception as e:
            return f"exc:{type(e).__name__}"

    stats = {"valid": 0, "invalid": 0, "elided": 0, "stored": 0, "rejected": 0, "readonly": 0}

    def one_case(ri: int, r: dict, label: str, v, init: list[tuple[str, str]], use_del: bool = False, xhtml: bool = False):
        if xhtml:
            os.environ["CAPELLAMBSE_XHTML"] = "1"
        try:
            _one_case(ri, r, label, v, init, use_del, xhtml)
        finally:
            os.environ.pop("CAPELLAMBSE_XHTML", None)

    def _one_case(ri: int, r: dict, label: str, v, init: list[tuple[str, str]], use_del: bool, xhtml: bool):
        cls = classes[r["cls"]]
        desc = getattr(cls, r["pyname"])
        kind, attr, name = r["kind"], r["attr"], r["pyname"]
        explicit = [kv for kv in init if kv[0] == attr and kv not in others]
        seen_keys, clean = set(), []
        for kv in init:  # lxml attribute maps have unique keys
            if (kv[0] == attr and explicit and kv in others) or kv[0] in seen_keys:
                continue
            seen_keys.add(kv[0])
            clean.append(kv)
        init = clean
        obj = new_obj(cls, init)
        present = attr in obj._element.attrib
        # implementation: before / set / after
        try:
            before = ("ok", getattr(obj, name))
        except Exception as e:
            before = ("exc", exc_name(e, kind))
        snap = list(obj._element.attrib.items())
        siblings = sibling_slots[r["cls"]]
        sib_before = [safe_get(obj, n) for n in siblings if n != name]
        try:
            if use_del:
                delattr(obj, name)
            else:
                setattr(obj, name, v)
            res = ("ok", list(obj._element.attrib.items()))
        except Exception as e:
            res = ("exc", exc_name(e, kind))
        now = list(obj._element.attrib.items())
        sib_after = [safe_get(obj, n) for n in siblings if n != name]
        after = None
        if res[0] == "ok":
            try:
                after = ("ok", getattr(obj, name))
            except Exception as e:
                after = ("exc", exc_name(e, kind))
        key = (r["owner"], name, label, repr(v)[:80], tuple(init), use_del, xhtml)
        valid, want, is_default = monitor_expect(kind, desc, v)
        if xhtml and valid and v is not None and repair(want) != want:
            valid = False  # the getter repairs again: only repair-stable fragments are in the domain (known finding otherwise)
        nontrivial = v is not None and not (valid and is_default and label in ("empty", "zero", "false", "rules-empty"))
        out.case(key, {"slot": f"{r['cls']}.{name}", "kind": kind, "value": repr(v)[:60], "initial": init, "set": res[0],
                       "xml": dict(now).get(attr)} if rng.random() < 0.002 else None, nontrivial)
        replay = {"kind": "pod", "cls": r["cls"], "pyname": name, "init": init, "label": label, "value": enc_replay(v), "del": use_del}

        # ---------------- monitor (independent of the model)
        sig_cls = f"{kind}:{label}" if not subsecond_offset(v) else "datetime:aware-subsecond-offset"
        if res[0] == "exc":
            stats["rejected"] += 1
            if now != snap:
                out.find(f"pod.set|rejected-but-modified|{sig_cls}", f"{r['cls']}.{name} = {v!r} raised {res[1]} but changed the XML "
                         f"{snap} -> {now}", replay)
        if sib_after != sib_before:
            out.find(f"pod.set|other-slot-changed|{kind}", f"assigning {r['cls']}.{name} = {v!r} changed another typed attribute of the object: "
                     f"{[n for n, a, b in zip([n for n in siblings if n != name], sib_before, sib_after) if a != b]}", replay)
        if not r["writable"] and present:
            stats["readonly"] += 1
            if res[0] != "exc" or res[1] != "TypeError" or now != snap:
                out.find(f"pod.set|readonly-present-not-rejected|{kind}", f"read-only {r['cls']}.{name} (attribute present) accepted "
                         f"{'del' if use_del else repr(v)}: {res}", replay)
        elif not r["writable"] and not present:
            stats["readonly"] += 1
            if res[0] == "ok" and now != snap:
                out.find("pod.set|readonly-absent-accepts-write", f"read-only {r['owner']}.{name} accepts a write while its XML attribute "
                         f"{attr!r} is absent (write-once): {v!r} -> {dict(now).get(attr)!r}", replay)
        elif valid:
            stats["valid"] += 1
            if res[0] == "exc":
                out.find(f"pod.set|valid-value-rejected|{sig_cls}", f"{r['cls']}.{name} = {v!r} raised {res[1]}", replay)
            else:
                if [kv for kv in now if kv[0] != attr] != [kv for kv in snap if kv[0] != attr]:
                    out.find(f"pod.set|other-attributes-changed|{kind}", f"{r['cls']}.{name} = {v!r}: {snap} -> {now}", replay)
                if after[0] == "exc":
                    out.find(f"pod.get|written-value-unreadable|{sig_cls}", f"{r['cls']}.{name} = {v!r} wrote {attr}={dict(now).get(attr)!r}, "
                             f"reading it back raises {after[1]}", replay)
                elif not py_equal(kind, after[1], want):
                    out.find(f"pod.get|read-back-differs|{sig_cls}", f"{r['cls']}.{name} = {v!r} wrote {attr}={dict(now).get(attr)!r}, "
                             f"read back {after[1]!r}, expected {want!r}", replay)
                if is_default:
                    stats["elided"] += 1
                    if attr in dict(now):
                        out.find(f"pod.set|default-not-elided|{sig_cls}", f"{r['cls']}.{name} = {v!r} (the default) left {attr}="
                                 f"{dict(now)[attr]!r} in the XML", replay)
                else:
                    stats["stored"] += 1
                if kind == "html" and after[0] == "ok" and isinstance(v, str) and xml_legal(v):
                    for where, frag in (("stored", dict(now).get(attr)), ("read back", after[1])):
                        if isinstance(frag, str):
                            laws["html_wellformed"] = laws.get("html_wellformed", 0) + 1
                            for wcls in not_wellformed(str(frag)):
                                out.find(f"repair_html|not-wellformed|{wcls}", f"{r['cls']}.{name} = {v!r}: the {where} value {str(frag)!r} is not "
                                         "well-formed XML content", {"kind": "wellformed", "value": str(v)})
                if kind == "html" and isinstance(after[1], str) and after[0] == "ok" and isinstance(v, str) and xml_legal(v):
                    laws["repair_idem"] += 1
                    again = repair(after[1])
                    if again != after[1]:
                        out.find(f"repair_html|not-idempotent|{repair_class(str(v))}", f"repair_html({after[1]!r}) = {again!r}", {"kind": "repair", "value": str(v)})
        else:
            stats["invalid"] += 1
        if not present and before != ("ok", desc.default) and not (before[0] == "ok" and before[1] is None and desc.default is None):
            out.find(f"pod.get|absent-not-default|{kind}", f"{r['cls']}.{name} absent reads {before}", replay)
        if xhtml:
            out.hit("impl.html.xhtml-mode")
        out.hit(f"impl.{kind}.{'del' if use_del else res[0] if res[0] == 'exc' else ('elide' if attr not in dict(now) else 'store')}")
        if isinstance(v, float):
            law_float(v)
        if isinstance(v, datetime.datetime):
            try:
                law_dt(v if is_aware(v) else v.astimezone())
            except (ValueError, OverflowError, OSError):
                pass

        # ---------------- correspondence with the model
        strs = [x for kv in init for x in kv] + ([v] if isinstance(v, str) else []) + ([v.raw] if isinstance(v, SelectorRules) else [])
        if not use_model or not all(lean_ok(s) for s in strs):
            return
        oracle: dict = {"xhtml": True} if xhtml else {}
        datas = [d for d in (dict(init).get(attr), dict(now).get(attr)) if d is not None]
        if kind == "html":
            keys = set(datas) | ({str(v)} if isinstance(v, str) else set())
            keys |= {repair(k) for k in list(keys) if repair(k) is not None}
            oracle["repair"] = [[k, repair(k)] for k in sorted(keys)]
        if kind == "float":
            keys = set(datas)
            if isinstance(v, float) and math.isfinite(v):
                keys.add(str(v))
            if isinstance(v, int):
                try:
                    f = float(v)
                    oracle["fofint"] = [[str(int(v)), repr(f)]]
                    keys.add(str(f))
                    laws["ofint_zero"] += 1
                    if (f == 0.0) != (v == 0):
                        out.find("law|float-of-int-zero", f"float({v}) == 0.0", {"kind": "law-float", "repr": str(v)})
                except OverflowError:
                    oracle["fofint"] = [[str(int(v)), None]]
            fp = []
            for k in sorted(keys):
                try:
                    fp.append([k, repr(float(k))])
                except ValueError:
                    fp.append([k, None])
            oracle["fparse"] = fp
        if kind == "datetime":
            # isoformat / fromisoformat on the shapes the code writes / truncation are computed by the model itself;
            # recorded from CPython: astimezone() of a naive value, and fromisoformat for every stored string (the model
            # consults it only for shapes it calls foreign)
            if isinstance(v, datetime.datetime) and not is_aware(v):
                try:
                    oracle["localize"] = [[dt_id(v), dt_csv(v.astimezone())]]
                except (ValueError, OverflowError, OSError):
                    oracle["localize"] = [[dt_id(v), None]]
            fi = []
            for dstr in datas:
                k = re_get.sub(":", dstr)
                try:
                    b = datetime.datetime.fromisoformat(k)
                    fi.append([k, ("A" + dt_csv(b)) if is_aware(b) else ("N" + dt_id(b))])
                except ValueError:
                    fi.append([k, None])
            oracle["fromiso"] = fi

        def cmp(ans, before=before, res=res, after=after, v=v, valid=valid, want=want):
            m = ans.get("ok")
            case = {"slot": f"{r['cls']}.{name}", "kind": kind, "value": repr(v)[:200], "init": init, "del": use_del}
            if m is None:
                out.disagree(f"pod.{kind}", case, "?", ans)
                return

            def canon(x):
                if x is None:
                    return None
                return {"ok": enc(x[1], pvmt_config)} if x[0] == "ok" and not isinstance(x[1], list) else (
                    {"ok": [list(kv) for kv in x[1]]} if x[0] == "ok" else {"exc": x[1]})

            iv = {"before": canon(before), "set": canon(res), "after": canon(after)}
            mv = {"before": m["before"], "set": m["set"], "after": m["after"]}
            if iv != mv:
                out.disagree(f"pod.{kind}", case, iv, mv)
            if m["valid"] != bool(valid) and r["writable"] and not subsecond_offset(v):
                # (sub-second UTC offsets are outside the theorem's domain — known finding; the monitor judges them)
                out.disagree("valid-domain", case, bool(valid), m["valid"])
            for w in ("isoBefore", "isoAfter"):
                if m.get(w):
                    out.hit(f"model.datetime.parse.{m[w]}")
            if m["valid"] and (r["writable"] or not present):
                # the theorem's instance, observed on the implementation
                if res[0] == "ok" and after and after[0] == "ok":
                    d = m["denote"]
                    a = enc(after[1], pvmt_config)
                    zero = d.get("t") == "float" and a.get("t") == "float" and d["v"] in ("0.0", "-0.0") and a["v"] in ("0.0", "-0.0")
                    if a == d or zero:
                        out.traces_validated += 1
                    else:
                        out.disagree("theorem-instance", case, a, d)
            out.hit(f"model.{kind}.{'exc' if 'exc' in m['set'] else 'ok'}")

        ask({"op": "pod.setget", "row": ri, "attrs": [list(kv) for kv in init], "value": enc(v, pvmt_config), "oracle": oracle}, cmp)

    def enc_replay(v):
        e = enc(v, pvmt_config)
        if e["t"] == "other":
            e["repr"] = repr(v)[:80]
        return e

    # ---- (1) every row of the table
    by_desc: dict[tuple, list[int]] = {}
    for i, r in enumerate(rows):
        by_desc.setdefault((r["owner"], r["pyname"], r["attr"], r["kind"]), []).append(i)
    out.extra["distribution"] = {"descriptors": len(by_desc)}
    others = [("id", "u-1"), ("zz", "keep <me>")]
    for (owner, pyname, attr, kind), idxs in sorted(by_desc.items()):
        r0 = rows[idxs[0]]
        if kind == "other":
            out.find(f"table|unknown-descriptor-kind|{r0['podclass']}", f"{owner}.{pyname}: descriptor class {r0['podclass']} is not modelled",
                     {"kind": "table", "slot": f"{owner}.{pyname}"})
            continue
        desc = getattr(classes[r0["cls"]], pyname)
        pool = enum_pool(desc) if kind == "enum" else pools[kind]
        if kind == "enum":
            inits = ["junk"] + [m.value for m in list(desc.enumcls)[:2]]
        else:
            inits = INITIAL[kind]
        # the descriptor's full pool on one representative slot (string/html pools are big: the declaring class only,
        # and for the 160+ html/string slots that share a descriptor object the other classes get the short list)
        rep = idxs[0]
        full = pool if (kind not in ("string", "html") or pyname in ("name", "description", "text", "value") or ctx.thorough) else pool[:14]
        for label, v in full:
            one_case(rep, rows[rep], label, v, [others[0]] + others[1:])
            if rng.random() < (0.5 if kind not in ("string", "html") else 0.08):
                one_case(rep, rows[rep], label, v, [others[0], (attr, rng.choice(inits)), others[1]])
            if kind == "html" and rng.random() < 0.3:
                one_case(rep, rows[rep], label, v, [(attr, rng.choice(inits)), others[0]], xhtml=True)
        for ini in inits:
            one_case(rep, rows[rep], "none", None, [(attr, ini), others[0]])
            one_case(rep, rows[rep], "del", None, [others[0], (attr, ini)], use_del=True)
            one_case(rep, rows[rep], "default-obj", desc.default, [(attr, ini)])
        one_case(rep, rows[rep], "del", None, list(others), use_del=True)
        # every other class that inherits the slot: a few values each (descriptor objects are shared, the class differs)
        short = [pool[k] for k in sorted(set(rng.sample(range(len(pool)), min(len(pool), ctx.pick(3, 8)))))]
        for i in idxs[1:]:
            for label, v in short:
                one_case(i, rows[i], label, v, [others[0]] if rng.random() < 0.5 else [(attr, rng.choice(inits)), others[1]])

    # ---- (2) codecs directly: int()/str(), the two regexes, lxml's legality check
    def direct(stream, request, implval):
        def h(ans):
            mv = ans.get("ok", {"err": ans.get("err")}) if "ok" in ans else {"err": ans.get("err")}
            if mv != implval:
                out.disagree(stream, request, implval, mv)
            out.hit(stream)
        ask(request, h)

    ints = [v for _, v in pools["int"] if isinstance(v, int) and not isinstance(v, bool)]
    for i in ints + [rng.randint(-10**30, 10**30) for _ in range(ctx.pick(100, 2000))]:
        direct("int.repr", {"op": "int.repr", "v": str(i)}, str(i))
        out.case(("int.repr", i))
    alpha = "0123456789" * 3 + "__+- \t\n" + "xe."
    istrs = ["", " ", "-", "+", "_", "0", "-0", "+0", "00", "007", "1_000", "1__0", "_1", "1_", " 12 ", "\n-3\t", "+ 4", "--1", "1 2", "0x10", "1e3", "1.0",
             "True", "\x0b5\x0c", "\x1f7", " 8", " 9　", "5\x85"]
    istrs += ["".join(rng.choice(alpha) for _ in range(rng.randint(1, 8))) for _ in range(ctx.pick(400, 6000))]
    for s in istrs:
        try:
            iv = str(int(s))
        except ValueError:
            iv = None
        direct("int.parse", {"op": "int.parse", "s": s}, iv)
        out.case(("int.parse", s))
    ralpha = "0123456789" * 2 + "+-::" + "T.\n "
    rstrs = ["", "+01:00", "x+01:00", "-0100", "2021-07-23T15:00:00.000+02:00", "2021-07-23T15:00:00.000+0200", "a+05:30:15", "a+05:30:15.000123",
             "a+01:00\n", "a+0100\n", "a+01:00\n\n", "12:34", "+12:34:56", "+1234", "-12345", "+12:3", "1+12:34", "++12:34", ":+12:34", "+12::34"]
    rstrs += ["".join(rng.choice(ralpha) for _ in range(rng.randint(3, 12))) for _ in range(ctx.pick(1500, 20000))]
    rstrs += [rng.choice("ab1") + rng.choice("+-") + "".join(rng.choice("0123456789:") for _ in range(rng.randint(3, 6))) + rng.choice(["", "\n"])
              for _ in range(ctx.pick(1500, 20000))]
    for n in re_missing:
        out.disagree("re." + n[3:], f"DatetimePOD.{n}", "attribute no longer exists", "modelled as reSet/reGet")
    for s in rstrs:
        direct("re.set", {"op": "re.set", "s": s}, re_set.sub("", s))
        direct("re.get", {"op": "re.get", "s": s}, re_get.sub(":", s))
        out.case(("re", s), nontrivial=re_set.sub("", s) != s or re_get.sub(":", s) != s)
    # ---- (2b) the timestamp codec directly: isoformat / the stored text / truncation for aware datetimes over the whole
    #      range (years 1..9999 incl. all field-width boundaries, every kind of offset), and fromisoformat on the written
    #      shapes with digits and separators disturbed (in-shape but out-of-range fields must be ValueError = "bad")
    td = datetime.timedelta
    dts = [v for _, v in pools["datetime"] if isinstance(v, datetime.datetime) and is_aware(v)]
    for _ in range(ctx.pick(300, 5000)):
        y = rng.choice([1, 2, 9, 10, 99, 100, 999, 1000, 1582, 1970, 2024, 9998, 9999, rng.randint(1, 9999)])
        mo = rng.randint(1, 12)
        dmax = [31, 29 if (y % 4 == 0 and (y % 100 != 0 or y % 400 == 0)) else 28, 31, 30, 31, 30, 31, 31, 30, 31, 30, 31][mo - 1]
        offk = rng.randrange(6)
        off = [td(0), td(minutes=rng.randint(-1439, 1439)), td(seconds=rng.randint(-86399, 86399)),
               td(seconds=rng.randint(-86399, 86399), microseconds=rng.randint(0, 999999)) if rng.random() < 0.9 else td(microseconds=rng.randint(-999999, 999999)),
               rng.choice([1, -1]) * td(hours=23, minutes=59, seconds=59, microseconds=rng.choice([0, 999999])), td(hours=rng.randint(-23, 23))][offk]
        if abs(off) >= td(hours=24):
            off = td(0)
        dts.append(datetime.datetime(y, mo, rng.choice([1, dmax, rng.randint(1, dmax)]), rng.choice([0, 23, rng.randint(0, 23)]), rng.choice([0, 59, rng.randint(0, 59)]),
                                     rng.choice([0, 59, rng.randint(0, 59)]), rng.choice([0, 1, 999, 1000, 999499, 999500, 999999, rng.randint(0, 999999)]),
                                     tzinfo=datetime.timezone(off)))
    dt_dist: dict[str, int] = {}

    def dt_format_case(t: datetime.datetime):
        iso = t.isoformat("T", "milliseconds")
        want = {"iso": iso, "stored": re_set.sub("", iso), "valid": True, "isoOk": not subsecond_offset(t),
                "trunc": dt_fields(t.replace(microsecond=t.microsecond // 1000 * 1000))}
        cls = ("utc" if off_us(t) == 0 else "subsecond" if subsecond_offset(t) else "minutes" if off_us(t) % 60_000_000 == 0
               else "seconds" if off_us(t) % 1_000_000 == 0 else "microseconds")
        dt_dist[cls] = dt_dist.get(cls, 0) + 1
        dt_dist[f"year-digits:{len(str(t.year))}"] = dt_dist.get(f"year-digits:{len(str(t.year))}", 0) + 1

        def h(ans, want=want, t=t, cls=cls):
            if ans.get("ok") != want:
                out.disagree("dt.format", {"dt": dt_fields(t)}, want, ans.get("ok", ans))
            out.hit(f"dt.format.{cls}")
        ask({"op": "dt.format", "f": dt_fields(t)}, h)
        out.case(("dt.format", tuple(dt_fields(t))))
        # the stored text read back by CPython: the theorem's instance on the implementation
        back = datetime.datetime.fromisoformat(re_get.sub(":", want["stored"]))
        if not subsecond_offset(t):
            if dt_fields(back) == want["trunc"]:
                out.traces_validated += 1
            else:
                out.find("law|isoformat-roundtrip", f"fromisoformat(re_get(re_set(isoformat({t!r})))) = {back!r}", {"kind": "law-dt", "id": dt_id(t)})

    for t in dts:
        dt_format_case(t)

    def dt_parse_case(sx: str):
        try:
            b = datetime.datetime.fromisoformat(sx)
            want = {"ok": dt_fields(b)} if is_aware(b) else "naive"
        except ValueError:
            want = "bad"

        def h(ans, want=want, sx=sx):
            m = ans.get("ok", ans)
            if m == "foreign":
                out.hit("dt.parse.foreign")  # a shape the code never writes: the model defers to CPython (oracle)
                return
            if m != want:
                out.disagree("dt.parse", {"s": sx}, want, m)
            out.hit("dt.parse." + ("bad" if m == "bad" else "ok"))
        ask({"op": "dt.parse", "s": sx}, h)
        out.case(("dt.parse", sx))

    for t in rng.sample(dts, min(len(dts), ctx.pick(200, 3000))):
        base = t.isoformat("T", "milliseconds")
        dt_parse_case(base)
        for _ in range(3):
            cs = list(base)
            for _ in range(rng.choice([1, 1, 2])):
                i = rng.randrange(len(cs))
                r = rng.random()
                if cs[i].isdigit() and r < 0.75:
                    cs[i] = rng.choice("0123456789")
                elif r < 0.85:
                    cs[i] = rng.choice("0123456789:-+.T Z")
                elif r < 0.92:
                    del cs[i]
                else:
                    cs.insert(i, rng.choice("0123456789:"))
            dt_parse_case("".join(cs))
    for sx in ["2021-02-29T00:00:00.000+01:00", "2020-02-29T00:00:00.000+01:00", "1900-02-29T00:00:00.000+00:00", "2000-02-29T00:00:00.000+00:00",
               "0000-01-01T00:00:00.000+00:00", "2021-13-01T00:00:00.000+00:00", "2021-00-10T00:00:00.000+00:00", "2021-04-31T00:00:00.000+00:00",
               "2021-01-01T24:00:00.000+00:00", "2021-01-01T23:60:00.000+00:00", "2021-01-01T23:59:60.000+00:00", "2021-01-01T00:00:00.000+24:00",
               "2021-01-01T00:00:00.000+23:60", "2021-01-01T00:00:00.000-23:59:59.999999", "2021-01-01T00:00:00.000+23:59:60", "2021-01-01T00:00:00.000+01:00:61",
               "2021-01-01T00:00:00.000+00:99", "2021-01-01T00:00:00.000-00:00", "2021-01-01T00:00:00.000+00:00:00.500000", "2021-01-01T00:00:00.000-00:00:00.000001",
               "2021-01-01T00:00:00.000Z", "2021-01-01T00:00:00.000", "2021-01-01 00:00:00.000+00:00", "2021-01-01T00:00:00,000+00:00", "2021-01-01T00:00:00.000+0000",
               "2021-01-01T00:00:00.0+00:00", "２０２１-01-01T00:00:00.000+00:00", "2021-01-01T00:00:00.000+00:00\n"]:
        dt_parse_case(sx)
    out.extra["datetime_distribution"] = dt_dist

    probe = etree.Element("p")
    cps = list(range(0, 0x300)) + [0xD7FF, 0xE000, 0xFFFD, 0xFFFE, 0xFFFF, 0x10000, 0x10FFFF] + [rng.randint(0x300, 0x10FFFF) for _ in range(ctx.pick(200, 3000))]
    for cp in cps:
        if 0xD800 <= cp <= 0xDFFF:
            continue
        s = "a" + chr(cp)
        try:
            probe.set("k", s)
            ok = True
        except ValueError:
            ok = False
        if ok != xml_legal(s):
            out.find("harness|xml-legal-oracle", f"lxml accepts U+{cp:04X}: {ok}", {"kind": "xmlchar", "cp": cp})
        direct("xml.ok", {"op": "xml.ok", "s": s}, ok)
        out.case(("xmlchar", cp), nontrivial=False)

    # ---- (3) HTML repair: idempotence sampled on the implementation
    frags = ([s for _, s in pools["html"] if isinstance(s, str)] + [rand_html(rng) for _ in range(ctx.pick(300, 5000))]
             + [rand_plain(rng) for _ in range(ctx.pick(300, 5000))])
    nrep = 0
    for s in frags:
        if not xml_legal(s):  # outside the value domain (the attribute could not hold it either)
            out.extra["html_fragments_skipped_illegal_input"] = out.extra.get("html_fragments_skipped_illegal_input", 0) + 1
            continue
        r1 = repair(s)
        if r1 is None:
            continue
        nrep += 1
        if xml_legal(r1):  # otherwise the attribute cannot hold it and the assignment is refused
            laws["html_wellformed"] = laws.get("html_wellformed", 0) + 1
            for wcls in not_wellformed(r1):
                out.find(f"repair_html|not-wellformed|{wcls}", f"repair_html({s!r}) = {r1!r} is not well-formed XML content", {"kind": "wellformed", "value": s})
        r2 = repair(r1)
        laws["repair_idem"] += 1
        if r2 != r1:
            out.find(f"repair_html|not-idempotent|{repair_class(s)}", f"repair_html({s!r}) = {r1!r}, repaired again = {r2!r}", {"kind": "repair", "value": s})
        out.case(("repair", s), nontrivial=r1 != s)
    out.extra["html_fragments_repaired"] = nrep

    # ---- (4) _Specification, (5) live model incl. save / reload
    spec_part(ctx, out, ask, capellambse, helpers, _descriptors, etree, xml_legal, spec_slots, classes)
    live_part(ctx, out, capellambse, helpers, pvmt_config, xml_legal, monitor_expect, py_equal, pools, enum_pool)
    reload_part(ctx, out, capellambse, pvmt_config, monitor_expect, py_equal, pools, enum_pool)

    # ---- (6) informational: the latent EnumPOD case outside the quantifier (a plain Enum without the stringy mixin)
    class _Plain(enum.Enum):
        A = "a"
        B = "b"

    class _Host:
        kind = _pods.EnumPOD("k", _Plain)

        def __init__(self):
            self._element = etree.Element("x")

    hobj = _Host()
    hobj.kind = "B"
    hobj.kind = "A"
    out.extra["latent_plain_enum_default_by_name_elided"] = "k" not in hobj._element.attrib

    # ---- run the model on everything
    if use_model and req:
        answers = run_model(req)
        for h, ans in zip(handlers, answers):
            h(ans)
    out.extra["law_samples"] = laws
    out.extra["case_stats"] = stats
    # kernel-checked obligations of the generated table files (counted from the files that were just built)
    gen_dir = common.LEAN / "Capella" / "Gen"
    out.table_obligations = sum(f.read_text().count(":= by decide +kernel") for f in gen_dir.glob("Pods*.lean"))
    out.extra["source_fingerprints"] = {
        **common.source_fingerprint("capellambse/model/_pods.py", [
            "BasePOD.__get__", "BasePOD.__set__", "BasePOD.__delete__", "StringPOD", "HTMLStringPOD", "BoolPOD", "IntPOD", "FloatPOD",
            "DatetimePOD", "EnumPOD"]),
        **common.source_fingerprint("capellambse/helpers.py", ["repair_html", "process_html_fragments", "escape_linked_text", "unescape_linked_text"]),
        **common.source_fingerprint("capellambse/model/_descriptors.py", ["_Specification"]),
        **common.source_fingerprint("capellambse/extensions/pvmt/_config.py", ["PVMTDescriptionProperty"]),
    }
    return out


def repair_class(s: str) -> str:
    """class of a fragment on which repair_html is not idempotent"""
    low = s.lower()
    if "<script" in low or "<style" in low:
        return "rawtext-element"  # HTML raw-text content is re-escaped by the XML serialiser on every pass
    return "other"


def run_model(lines: list[dict]) -> list:
    """common.model with '\n'-only line splitting (str.splitlines also splits on U+0085, U+2028, … which the
    Lean JSON printer leaves unescaped inside strings)."""
    import json

    payload = "\n".join(json.dumps(l, ensure_ascii=False, separators=(",", ":")) for l in lines) + "\n"
    try:
        p = common._run(["lake", "env", "lean", "--run", "Capella/Driver/Pods.lean"], common.LEAN, timeout=3000, input=payload)
    except Exception as e:  # subprocess.TimeoutExpired
        raise common.InfraError(f"model driver: {e!r}") from None
    if p.returncode != 0:
        raise common.InfraError(f"model driver failed: {p.stderr[-2000:]}")
    outs = [json.loads(l) for l in p.stdout.split("\n") if l.strip()]
    if len(outs) != len(lines):
        raise common.InfraError(f"model driver answered {len(outs)} lines for {len(lines)} requests: {p.stderr[-500:]}")
    return outs


# ---------------------------------------------------------------- _Specification

LT_TEXT_PARTS = ["&", "<", ">", '"', "'", "&amp;", "&lt;b&gt;", "<b>", "</a>", "&#65;", "&nbsp;", " ", "  ", "\n", "\t", "x", "speed", "é", "漢", "\U0001F600",
                 "a && b", "1 < 2 > 0", "]]>", "hlink://", ";", "="]
DEAD_UUID = "00000000-dead-4bad-8bad-000000000000"


def lt_lstrip(v: str) -> str:
    """v without a whitespace-only text run in front of its first link (or '' when v is whitespace only)"""
    m = re.match(r"^\s+(?=<a |$)", v)
    return v[m.end():] if m else v


MALFORMED_IDS = ["a b c", "", "x#y#z", 'q"uote', "two  spaces#id", "#", "id with space"]


def rand_lt(rng, targets: list[tuple[str, str]], dead_ok: bool, extra: dict | None = None) -> dict:
    """A linked-text value as tokens: leading text, then links each followed by its tail text. Text runs are arbitrary
    XML-legal characters incl. markup-significant ones and entity look-alikes; links point to live targets (link text =
    the target's current name, sometimes the `#uuid` spelling) or, if `dead_ok`, to dead ones: a well-formed id that
    does not exist, an id `follow_link` calls malformed, a target without a name (`extra`), a stale link text.
    -> {"lead": str, "links": [{"id", "name", "tail", "kind"}]}"""
    extra = extra or {}

    def run() -> str:
        k = rng.choice([0, 1, 1, 2, 3])
        raw = "".join(rng.choice(LT_TEXT_PARTS) if rng.random() < 0.7 else rand_xml_string(rng, 1) for _ in range(k))
        return raw.replace("\r", " ")

    links = []
    for _ in range(rng.choice([0, 1, 1, 2, 3])):
        r = rng.random()
        if dead_ok and r < 0.12:
            links.append({"id": DEAD_UUID, "name": "gone", "kind": "dead"})
        elif dead_ok and r < 0.18:
            links.append({"id": rng.choice(MALFORMED_IDS), "name": "odd", "kind": "malformed"})
        elif dead_ok and r < 0.24 and extra.get("unnamed"):
            u = rng.choice(extra["unnamed"])
            links.append({"id": u, "name": f"<unnamed element {u}>", "kind": "unnamed"})
        elif dead_ok and r < 0.28:
            uuid, name = rng.choice(targets)
            links.append({"id": uuid, "name": name + " (old name)", "kind": "stale"})
        else:
            uuid, name = rng.choice(targets)
            links.append({"id": ("#" + uuid) if dead_ok and rng.random() < 0.1 else uuid, "name": name, "kind": "live"})
        links[-1]["tail"] = run()
    return {"lead": run(), "links": links}


def render_value(lt: dict) -> str:
    """the HTML form the getter returns (the harness's own rendering; compared with the model's `renderValue`)"""
    import html

    return html.escape(lt["lead"]) + "".join(
        f'<a href="hlink://{html.escape(l["id"])}">{html.escape(l["name"])}</a>{html.escape(l["tail"])}' for l in lt["links"])


def rand_linked_text(rng, targets: list[tuple[str, str]], dead_ok: bool) -> tuple[str, bool]:
    """A linked-text value in the form the getter returns: an arbitrary interleaving of plain-text runs and links —
    text before the first, between two (possibly empty) and after the last link. Returns (value, has_dead_link)."""
    lt = rand_lt(rng, targets, dead_ok)
    return render_value(lt), any(l["kind"] != "live" for l in lt["links"])


def frags_json(s: str):
    """what lxml.html.fragments_fromstring(s) returns, as the model's `Frags`"""
    import lxml.html

    def node(el):
        return {"tag": el.tag if isinstance(el.tag, str) else "<!>", "href": el.get("href") if isinstance(el.tag, str) else None,
                "text": el.text or "", "kids": [node(c) for c in el], "tail": el.tail or ""}

    fr = lxml.html.fragments_fromstring(s)
    lead = fr[0] if fr and isinstance(fr[0], str) else None
    return {"lead": lead, "nodes": [node(e) for e in fr if not isinstance(e, str)]}


def frags_hrefs(fj: dict) -> list[str]:
    out = []

    def walk(n):
        if n["tag"] == "a" and n["href"] is not None:
            out.append(n["href"])
        for c in n["kids"]:
            walk(c)

    for n in fj["nodes"]:
        walk(n)
    return out


def spec_answer(out, ans, impl_res, final, kids, steps):
    """compare one answer of the driver's `spec` op with what the implementation did"""
    m = ans.get("ok")
    iv = {"results": impl_res, "kids": final}
    if m is None or {"results": m.get("results"), "kids": m.get("kids")} != iv:
        out.disagree("spec", {"kids": kids, "steps": steps}, iv, m if m is not None else ans)
        return
    out.hit("spec.ops", len(steps))
    for st in steps:
        out.hit(f"spec.op.{st['o']}")
    # linked-text strings the model's own codec handled vs. those answered by the oracle tables (foreign to the sub-language)
    for k in ("escModelled", "escForeign", "unescModelled", "unescForeign"):
        if m.get(k):
            out.hit(f"spec.linked.{k}", m[k])
    if m.get("wellPaired"):
        out.hit("spec.wellPaired")
        if m.get("dictSame") is not True:  # theorem specRun_refines, observed through the driver
            out.disagree("spec.dict", {"kids": kids, "steps": steps}, "same results as the reference dict", m.get("dictSame"))


def spec_part(ctx, out, ask, capellambse, helpers, _descriptors, etree, xml_legal, spec_slots=(), classes=None):
    rng = ctx.rng
    model = capellambse.MelodyModel(str(common.REPO / "tests/data/melodymodel/5_2/Melody Model Test.aird"))
    loader = model._loader
    live = [o for o in model.search("LogicalComponent", "LogicalFunction")[:6]]
    dead = "00000000-dead-4bad-8bad-000000000000"

    def esc(s):
        try:
            return str(helpers.escape_linked_text(loader, s))
        except ValueError:
            return None

    def unesc(s):
        return str(helpers.unescape_linked_text(loader, s))

    def classify(href: str) -> list:
        """`loader[href]` + `target.get("name")` as the model's `Target`"""
        try:
            t = loader[href]
        except KeyError:
            return [href, "missing"]
        except (ValueError, TypeError):
            return [href, "malformed"]
        nm = t.get("name")
        return [href, "named", nm] if nm else [href, "unnamed"]

    def look_table(raws) -> list:
        hrefs: dict[str, None] = {}
        for raw in raws:
            try:
                for h in frags_hrefs(frags_json(raw)):
                    hrefs.setdefault(h, None)
            except Exception:
                pass
        return [classify(h) for h in hrefs if lean_ok(h)]

    keys = ["capella:linkedText", "LinkedText", "python", "", "other lang"]
    plain_vals = ["", "x", "a < b && c", "<b>not html here</b>", "  spaced  ", "é\U0001F600", "\x00", "multi\nline"]
    lt_vals = ["", "plain", "a &amp; b", "x < y"] + [f'<a href="hlink://{o.uuid}">{o.name}</a> is live' for o in live[:3]]
    lt_vals += [f'pre <a href="hlink://{live[0].uuid}">stale text</a>', f'<a href="hlink://{dead}">gone</a> dead', "<a>no href</a>", "<b>bold</b>",
                '<a href="http://x">web</a>', f'<a href="hlink://{live[1].uuid}"><i>n</i></a>']

    def mk(kids):
        e = etree.Element("ownedSpecification")
        for tag, text in kids:
            c = etree.SubElement(e, tag)
            c.text = text
        return e

    def kids_of(e):
        return [[c.tag, c.text] for c in e]

    def spec_of(elm, it):
        """the mapping over `elm`: built directly, or — for every row of the generated `specSlots` table in turn — obtained
        through the real `SpecificationAccessor` of an instance of that class"""
        if not spec_slots or it % 2 == 0:
            return _descriptors._Specification(model, elm)
        cname, pyname, _ = spec_slots[(it // 2) % len(spec_slots)]
        cls = classes[cname]
        o = cls.__new__(cls)
        o._element = etree.Element("x")
        o._model = model
        try:
            getattr(o, pyname)
            out.find("spec.accessor|no-child-no-error", f"{cname}.{pyname} without an ownedSpecification child does not raise AttributeError",
                     {"kind": "spec-accessor", "cls": cname})
        except AttributeError:
            out.hit("spec.accessor.absent-attributeerror")
        etree.SubElement(o._element, "somethingElse")
        o._element.append(elm)
        sp = getattr(o, pyname)
        if sp._element is not elm:
            out.find("spec.accessor|wrong-element", f"{cname}.{pyname} does not wrap the ownedSpecification child", {"kind": "spec-accessor", "cls": cname})
        out.hit(f"spec.accessor.{cname.rsplit('.', 1)[-1]}.{pyname}")
        return sp

    layouts = [
        [], [("bodies", "b0"), ("languages", "python")], [("languages", "capella:linkedText"), ("bodies", "A test spec.")],
        [("bodies", "b0"), ("bodies", "b1"), ("languages", "python"), ("languages", "capella:linkedText")],
        [("x", "noise"), ("bodies", "b0"), ("y", None), ("languages", "python"), ("bodies", None), ("languages", "")],
        [("languages", "python")], [("bodies", "b0"), ("languages", "python"), ("languages", "other lang")],
        [("bodies", "b0"), ("languages", "python"), ("bodies", "b1"), ("languages", "python")],
        [("bodies", "b0"), ("languages", None)],
    ]
    n = ctx.pick(150, 2500)
    for it in range(n):
        kids = [list(k) for k in rng.choice(layouts)]
        elm = mk(kids)
        spec = spec_of(elm, it)
        steps, impl_res = [], []
        oracle_esc, oracle_unesc = {}, {}
        balanced = len([k for k in kids if k[0] == "bodies"]) == len([k for k in kids if k[0] == "languages"])
        nodup = len({k[1] for k in kids if k[0] == "languages"}) == len([k for k in kids if k[0] == "languages"])
        # reference semantics for direction "behaves like a Python dict": a real dict, keys aliased, run next to the
        # implementation whenever the initial children pair up, every language has a text and the keys are distinct
        wellpaired = balanced and nodup and all(kd[1] is not None for kd in kids if kd[0] == "languages")
        ref = dict(zip([kd[1] for kd in kids if kd[0] == "languages"], [kd[1] or "" for kd in kids if kd[0] == "bodies"])) if wellpaired else None
        for _ in range(rng.choice([1, 2, 3, 4, 5, 6, 12, 25]) if ctx.thorough or rng.random() < 0.3 else rng.randint(1, 6)):
            o = rng.choice(["get", "set", "set", "del", "keys", "len"])
            k = rng.choice(keys)
            linked = k in ("capella:linkedText", "LinkedText")
            before_kids = kids_of(elm)
            if o == "get":
                steps.append({"o": "get", "k": k})
                try:
                    impl_res.append({"ok": str(spec[k])})
                except KeyError:
                    impl_res.append({"exc": "KeyError"})
            elif o == "keys":
                steps.append({"o": "keys"})
                impl_res.append({"ok": list(spec)})
            elif o == "len":
                steps.append({"o": "len"})
                impl_res.append({"ok": len(spec)})
            elif o == "del":
                steps.append({"o": "del", "k": k})
                try:
                    del spec[k]
                    impl_res.append({"ok": None})
                except KeyError:
                    impl_res.append({"exc": "KeyError"})
                else:
                    ak = "capella:linkedText" if k == "LinkedText" else k
                    wellformed = all(kd[1] for kd in kids if kd[0] == "languages") and ak != ""
                    if balanced and nodup and wellformed and ak in list(spec):
                        out.find("spec.del|key-still-present", f"del spec[{k!r}] left the key behind: {kids_of(elm)}", {"kind": "spec", "kids": kids, "steps": steps})
            else:
                v = rng.choice(lt_vals if linked else plain_vals)
                steps.append({"o": "set", "k": k, "v": v})
                if linked:
                    oracle_esc[v] = esc(v)
                try:
                    spec[k] = v
                    impl_res.append({"ok": None})
                except ValueError:
                    impl_res.append({"exc": "ValueError"})
                    if kids_of(elm) != before_kids:
                        # as coded: a refused value (XML-illegal text) leaves two empty children behind for a *new* key and
                        # wipes the old body text for an existing key (lxml drops the old text before it validates the new
                        # one). Not part of C07's statement; the model reports only the error. Counted, state restored.
                        out.extra["spec_rejected_set_modified_element"] = out.extra.get("spec_rejected_set_modified_element", 0) + 1
                        for c in list(elm):
                            elm.remove(c)
                        for tag, text in before_kids:
                            etree.SubElement(elm, tag).text = text
                except KeyError:
                    impl_res.append({"exc": "KeyError"})
                else:
                    # monitor: plain bodies read back as written; linked text: canonical live links read back equal
                    if balanced and nodup:
                        try:
                            got = str(spec[k])
                        except KeyError:
                            got = None
                        if not linked and got != v:
                            out.find("spec.set|plain-body-read-back-differs", f"spec[{k!r}] = {v!r} read back {got!r}", {"kind": "spec", "kids": kids, "steps": steps})
                        if linked:
                            bare = re.sub(r"<a [^>]*>[^<]*</a>", "", v)
                            cls = "unescaped-text" if ("<" in bare and "<a" not in bare and "<b" not in bare) or re.search(r"&(?!amp;|lt;|gt;|quot;)", bare) else "dead-link" if dead in v else ("stale-link-text" if "stale text" in v else ("non-hlink-anchor" if "<a" in v and "hlink://" not in v else
                                  ("nested" if "<i>" in v else "canonical")))
                            if got != v and cls == "canonical":
                                out.find("spec.linkedtext|canonical-read-back-differs", f"spec[{k!r}] = {v!r} read back {got!r}", {"kind": "spec", "kids": kids, "steps": steps})
                            elif got != v and cls == "dead-link":
                                out.find("spec.linkedtext|dead-link-reads-as-placeholder", f"spec[{k!r}] = {v!r} (dead link) reads back {got!r}; "
                                         "re-assigning what was read replaces the link by literal text", {"kind": "spec", "kids": kids, "steps": steps})
                            out.hit(f"spec.linked.{cls}")
            if ref is not None:
                ak = "capella:linkedText" if k == "LinkedText" else k
                last = impl_res[-1]
                bad = None
                if o == "keys" and last != {"ok": list(ref)}:
                    bad = f"keys {last} vs dict {list(ref)}"
                elif o == "len" and last != {"ok": len(ref)}:
                    bad = f"len {last} vs dict {len(ref)}"
                elif o == "get":
                    if ak not in ref and last != {"exc": "KeyError"}:
                        bad = f"get of an absent key gives {last}"
                    elif ak in ref and not linked and last != {"ok": ref[ak]}:
                        bad = f"get {last} vs dict {ref[ak]!r}"
                elif o == "del":
                    if (ak in ref) != (last == {"ok": None}):
                        bad = f"del {last} but key present in dict: {ak in ref}"
                    ref.pop(ak, None)
                elif o == "set" and last == {"ok": None}:
                    ref[ak] = next((c.text or "" for i, c in enumerate(elm.iterchildren("bodies")) if i == list(ref).index(ak)), None) if ak in ref else None
                    if ref[ak] is None:  # a new key: its body is the last one
                        ref[ak] = list(elm.iterchildren("bodies"))[-1].text or ""
                    if not linked and ref[ak] != steps[-1]["v"]:
                        bad = f"set stored {ref[ak]!r}"
                if bad is None and list(spec) != list(ref):
                    bad = f"key order {list(spec)} vs dict {list(ref)}"
                if bad:
                    out.find("spec.mapping|differs-from-dict", f"after {steps}: {bad}", {"kind": "spec", "kids": kids, "steps": list(steps)})
                    ref = None
                else:
                    out.hit("spec.dict-reference.step")
            for c in elm:
                if c.tag == "bodies":
                    oracle_unesc[c.text or ""] = unesc(c.text or "")
        final = kids_of(elm)
        strs = [x for kd in kids for x in kd if x] + [st.get("v", "") for st in steps]
        out.case(("spec", it, str(kids), str(steps)), {"spec": kids, "steps": steps[:3]} if it < 2 else None)
        if not all(lean_ok(s) for s in strs):
            continue

        def cmp(ans, impl_res=impl_res, final=final, kids=kids, steps=steps):
            spec_answer(out, ans, impl_res, final, kids, steps)

        ask({"op": "spec", "kids": kids, "steps": steps,
             "oracle": {"esc": [[k, v] for k, v in oracle_esc.items()], "unesc": [[k, v] for k, v in oracle_unesc.items()],
                        "look": look_table(oracle_unesc)}}, cmp)

    # ---- linked text as an arbitrary interleaving of text runs and links (token level): get(set(v)) == v, what was read
    #      can be assigned back without changing the XML or the value; the same tokens go to the model (`lt.value`): its
    #      rendering, its stored form and its view are compared with what the code does, and where the model says
    #      "all links live, text kept" the implementation must return the value itself (theorem linked_text_roundtrip)
    import html as _html

    targets = [(o.uuid, o.name) for o in live if o.name]
    unnamed = []
    for tree in loader.trees.values():
        for el in tree.root.iter():
            if el.get("id") and not el.get("name") and len(unnamed) < 4 and isinstance(el.tag, str) and classify(el.get("id"))[1] == "unnamed":
                unnamed.append(el.get("id"))
    fixed = []
    for u, nm in targets[:2]:
        L = {"id": u, "name": nm, "kind": "live"}
        fixed += [{"lead": "", "links": [dict(L, tail=" < 5 & rising")]}, {"lead": "", "links": [dict(L, tail="<b>not bold</b>")]},
                  {"lead": "", "links": [dict(L, tail=" &amp; "), dict(L, tail=" > 0")]}, {"lead": "a < b, see ", "links": [dict(L, tail="")]},
                  {"lead": "", "links": [dict(L, tail=""), dict(L, tail="")]}, {"lead": '"', "links": [dict(L, tail="' "), dict(L, tail=" end")]},
                  {"lead": "", "links": [dict(L, tail="\n&")]}, {"lead": " \t", "links": [dict(L, tail=" ")]}, {"lead": "\xa0", "links": []},
                  {"lead": "", "links": [dict(L, id="#" + u, tail="")]}]
    for bad in MALFORMED_IDS:
        fixed.append({"lead": "see ", "links": [{"id": bad, "name": "odd", "kind": "malformed", "tail": "."}]})
    cases = fixed + [rand_lt(rng, targets, True, {"unnamed": unnamed}) for _ in range(ctx.pick(400, 5000))]
    lt_dist: dict[str, int] = {}
    for idx, lt in enumerate(cases):
        v = render_value(lt)
        kinds = {l["kind"] for l in lt["links"]}
        has_dead = bool(kinds - {"live"})
        key = rng.choice(["LinkedText", "capella:linkedText"])
        kids = [["bodies", "old"], ["languages", "capella:linkedText"]] if rng.random() < 0.7 else []
        elm = mk(kids)
        spec = _descriptors._Specification(model, elm)
        rp = {"kind": "spec", "kids": kids, "steps": [{"o": "set", "k": key, "v": v}]}
        cls = ("malformed-link-id" if "malformed" in kinds else "dead-link" if "dead" in kinds else "stale-link-text" if "stale" in kinds
               else "unnamed-target" if "unnamed" in kinds else "interleaved")
        lt_dist[cls] = lt_dist.get(cls, 0) + 1
        lt_dist["links:%d" % len(lt["links"])] = lt_dist.get("links:%d" % len(lt["links"]), 0) + 1
        out.case(("spec-lt", v), {"linked_text": v[:120]} if idx < 2 else None, nontrivial=bool(v))
        out.hit(f"spec.linked.{cls}")
        raw = got = raw2 = got2 = None
        try:
            spec[key] = v
            raw = next(elm.iterchildren("bodies")).text or ""
        except Exception as e:
            out.find(f"spec.linkedtext|valid-value-fails|{cls}", f"spec[{key!r}] = {v!r}: {type(e).__name__}: {e}", rp)
        if raw is not None:
            try:
                got = str(spec[key])
            except Exception as e:
                out.find(f"spec.linkedtext|written-value-unreadable|{cls}", f"spec[{key!r}] = {v!r} is accepted and stored as {raw!r}; reading it back "
                         f"raises {type(e).__name__}: {e}", dict(rp, expect="readable"))
        if got is not None and got != v:
            if cls in ("dead-link", "malformed-link-id"):
                out.find("spec.linkedtext|dead-link-reads-as-placeholder", f"spec[{key!r}] = {v!r} (dead link) reads back {got!r}; "
                         "re-assigning what was read replaces the link by literal text", rp)
            elif cls == "stale-link-text":
                out.hit("spec.linked.stale-reads-current-name")  # reading taken: live links show the target's current name
            elif got == lt_lstrip(v):
                out.find("spec.linkedtext|whitespace-only-leading-text-dropped", f"spec[{key!r}] = {v!r} read back {got!r}: a whitespace-only text run "
                         "before the first link (or a whitespace-only value) is dropped by lxml.html.fragments_fromstring", rp)
            else:
                out.find("spec.linkedtext|canonical-read-back-differs", f"spec[{key!r}] = {v!r} read back {got!r} (XML body {raw!r})", rp)
        # what was read must be assignable again and read the same (and, without dead links, leave the XML unchanged)
        if got is not None:
            try:
                spec[key] = got
                raw2 = next(elm.iterchildren("bodies")).text or ""
                got2 = str(spec[key])
            except Exception as e:
                out.find(f"spec.linkedtext|read-value-not-reassignable|{cls}", f"spec[{key!r}] = {v!r} reads {got!r}; assigning that back raises "
                         f"{type(e).__name__}: {e}", rp)
            else:
                if got2 != got or (cls in ("interleaved", "unnamed-target", "stale-link-text") and raw2 != raw):
                    out.find(f"spec.linkedtext|read-value-not-reassignable|{cls}", f"spec[{key!r}] = {v!r} reads {got!r}; assigning that back gives XML "
                             f"{raw2!r} (was {raw!r}) and reads {got2!r}", rp)
                out.traces_validated += 1
        if got2 is not None and lean_ok(v) and lean_ok(got):
            steps = [{"o": "set", "k": key, "v": v}, {"o": "get", "k": key}, {"o": "set", "k": key, "v": got}, {"o": "get", "k": key}]
            impl_res = [{"ok": None}, {"ok": got}, {"ok": None}, {"ok": got2}]
            final = kids_of(elm)

            def cmp2(ans, impl_res=impl_res, final=final, kids=kids, steps=steps):
                spec_answer(out, ans, impl_res, final, kids, steps)

            ask({"op": "spec", "kids": kids, "steps": steps,
                 "oracle": {"esc": [[x, esc(x)] for x in {v, got}], "unesc": [[x, unesc(x)] for x in {raw or "", raw2 or "", "old"}],
                            "look": look_table([raw or "", raw2 or ""])}}, cmp2)
        # the same tokens through the model's codec
        if lean_ok(v):
            look = [classify(l["id"]) for l in lt["links"]]

            def cmp3(ans, v=v, raw=raw, got=got, lt=lt, cls=cls):
                m = ans.get("ok")
                case = {"tokens": lt}
                if m is None:
                    out.disagree("lt.value", case, "?", ans)
                    return
                if m["value"] != v:
                    out.disagree("lt.render", case, v, m["value"])
                if not m["ok"]:
                    out.hit("lt.value.outside-domain")  # (a character the codec does not keep: CR) judged by the monitor only
                    return
                if raw is not None and m["raw"] != raw:
                    out.disagree("lt.escape", case, raw, m["raw"])
                rb = m["readBack"]
                impl_rb = {"ok": got} if got is not None else {"exc": "ValueError"}
                if raw is not None and rb != impl_rb:
                    out.disagree("lt.readback", case, impl_rb, rb)
                if got is not None and m["view"] != got:
                    out.disagree("lt.view", case, got, m["view"])
                if m["live"] and m["leadKept"]:
                    # hypothesis of theorem linked_text_roundtrip holds: the implementation must return the value itself
                    if got == v:
                        out.traces_validated += 1
                    else:
                        out.disagree("theorem-instance.linkedtext", case, got, v)
                    out.hit("lt.value.live")
                else:
                    out.hit("lt.value.view-only")

            ask({"op": "lt.value", "lead": lt["lead"], "links": [[l["id"], l["name"], l["tail"]] for l in lt["links"]], "look": look}, cmp3)
    out.extra["linked_text_distribution"] = lt_dist

    # ---- the two walks on what libxml2 parses (Frags level: any HTML), and the model's own parser on its sub-language
    soup = (lt_vals + [render_value(c) for c in cases[:ctx.pick(150, 1500)]] + HTML_FRAGMENTS
            + [rand_html(rng) for _ in range(ctx.pick(150, 2000))] + [rand_plain(rng) for _ in range(ctx.pick(100, 1000))]
            + ['<a href="hlink://x"><b>n</b></a>', '<a>no href</a>t', '<a href="hlink://u">x</a><!-- c -->y', '<p><a href="u"/>in p</p>tail',
               '<a href="u"/>', '<a href=""/>x', "<a href='u'/>x", '<a href="u" class="c"/>x', '<A HREF="u"/>x', '<a  href="u"/>x', '<a href="u" />x',
               '<a href="u"></a>x', '<a href="u">t</a >x', 'x<a href="u"/>y<a href="v">w</a>z', 'a\rb', 'a\r\nb<a href="u"/>\r', '&#x27;&quot;&gt;&lt;&amp;',
               '&apos;', '&#39;', '&AMP;', 'a &amp b', '<a href="u&amp;v"/>', '<a href="u&ampv"/>', '<a href="u\tv\nw"/>', '<a href="u"/> \n\t ', ' \n<a href="u"/>',
               '　x', '　', '<a href="u>v"/>', "<a href=\"u'v\"/>", '<a href="u">a&gt;b</a>', '<a href="u">a<b</a>', '<a href="u">a</a', '<a href="u"/'])
    raws_seen = [r for r in (esc(x) for x in soup[:400]) if r]
    soup += raws_seen
    fr_dist = {"modelled": 0, "foreign": 0, "parser-error": 0}
    for sx in soup:
        if not lean_ok(sx) or not xml_legal(sx):
            continue
        try:
            fj = frags_json(sx)
        except Exception:
            fr_dist["parser-error"] += 1  # lxml refuses the document (empty, …): both functions raise the same; nothing to model
            continue
        if not all(lean_ok(x) for x in frags_hrefs(fj)):
            continue
        try:
            ie = {"ok": str(helpers.escape_linked_text(loader, sx))}
        except ValueError:
            ie = {"exc": "ValueError"}
        try:
            iu = {"ok": str(helpers.unescape_linked_text(loader, sx))}
        except (ValueError, TypeError):
            iu = {"exc": "ValueError"}
        look = [classify(h) for h in dict.fromkeys(frags_hrefs(fj))]
        out.case(("lt-frags", sx), nontrivial=bool(fj["nodes"]))

        def cmpf(stream, want):
            def h(ans, want=want, sx=sx):
                if ans.get("ok") != want:
                    out.disagree(stream, {"s": sx}, want, ans.get("ok", ans))
                out.hit(stream + ("." + next(iter(want)) if isinstance(want, dict) else ""))
            return h

        ask({"op": "lt.escape.frags", "frags": fj}, cmpf("lt.escape.frags", ie))
        ask({"op": "lt.unescape.frags", "frags": fj, "look": look}, cmpf("lt.unescape.frags", iu))

        def cmpp(ans, fj=fj, sx=sx):
            m = ans.get("ok") if "ok" in ans else ans
            if m is None:
                fr_dist["foreign"] += 1
                out.hit("lt.parse.foreign")
                return
            fr_dist["modelled"] += 1
            if m != fj:
                out.disagree("lt.parse", {"s": sx}, fj, m)
            out.hit("lt.parse.modelled")

        ask({"op": "lt.parse", "s": sx}, cmpp)
    out.extra["linked_text_parser_distribution"] = fr_dist



# ---------------------------------------------------------------- live model, save and reload


def live_part(ctx, out, capellambse, helpers, pvmt_config, xml_legal, monitor_expect, py_equal, pools, enum_pool):
    rng = ctx.rng
    src = common.REPO / "tests/data/melodymodel/5_2"
    rounds = ctx.pick(2, 8)
    wanted = ["Requirement", "IntegerValueAttribute", "RealValueAttribute", "DateValueAttribute", "BooleanValueAttribute", "StringValueAttribute",
              "PhysicalComponent", "LogicalFunction", "Class", "Property", "ExchangeItem", "ComponentExchange", "LiteralNumericValue", "Constraint",
              "ControlNode", "FunctionalChain", "Collection", "Union", "NumericType", "ComponentPort"]
    from capellambse.model import _pods

    for rd in range(rounds):
        dst = ctx.scratch / f"live{rd}"
        shutil.copytree(src, dst)
        model = capellambse.MelodyModel(str(dst / "Melody Model Test.aird"))
        planned = []  # (uuid, pyname, kind, value, expected)
        for clsname in wanted:
            objs = list(model.search(clsname))
            rng.shuffle(objs)
            for obj in objs[: ctx.pick(2, 4)]:
                cls = type(obj)
                for name in sorted(dir(cls)):
                    d = getattr(cls, name, None)
                    if not isinstance(d, _pods.BasePOD) or type(d).__name__ not in KINDS:
                        continue
                    kind = KINDS[type(d).__name__]
                    if not d.writable:
                        present = d.attribute in obj._element.attrib
                        snap = dict(obj._element.attrib)
                        v = rng.choice([x for _, x in (enum_pool(d) if kind == "enum" else pools[kind])][:6])
                        try:
                            setattr(obj, name, v)
                            raised = None
                        except Exception as e:
                            raised = type(e).__name__
                        replay = {"kind": "live-readonly", "class": clsname, "pyname": name, "present": present}
                        if present and (raised != "TypeError" or dict(obj._element.attrib) != snap):
                            out.find(f"pod.set|readonly-present-not-rejected|{kind}", f"live {clsname}.{name} accepted {v!r}", replay)
                            obj._element.attrib.clear()
                            obj._element.attrib.update(snap)
                        if not present and raised is None and dict(obj._element.attrib) != snap:
                            out.find("pod.set|readonly-absent-accepts-write", f"read-only {cls.__name__}.{name} of a loaded {clsname} accepts a write while its "
                                     f"XML attribute {d.attribute!r} is absent (write-once): {v!r} -> {obj._element.get(d.attribute)!r}", replay)
                            obj._element.attrib.pop(d.attribute, None)
                        out.case(("live-ro", rd, obj.uuid, name))
                        continue
                    pool = enum_pool(d) if kind == "enum" else pools[kind]
                    # (sub-second UTC offsets: known finding, judged in memory by the descriptor cases; not planned here)
                    cands = [(lab, v) for lab, v in pool if monitor_expect(kind, d, v)[0] and not (isinstance(v, str) and len(v) > 3000)
                             and not subsecond_offset(v)]
                    label, v = rng.choice(cands)
                    valid, want, is_default = monitor_expect(kind, d, v)
                    try:
                        setattr(obj, name, v)
                        got = getattr(obj, name)
                    except Exception as e:
                        out.find(f"pod.live|valid-value-fails|{kind}:{label}", f"live {clsname}.{name} = {v!r}: {type(e).__name__}: {e}",
                                 {"kind": "live", "class": clsname, "pyname": name, "value": repr(v)[:200]})
                        continue
                    if not py_equal(kind, got, want):
                        out.find(f"pod.get|read-back-differs|{kind}:{label}", f"live {clsname}.{name} = {v!r} read back {got!r}",
                                 {"kind": "live", "class": clsname, "pyname": name, "value": repr(v)[:200]})
                    planned.append((obj.uuid, name, kind, label, v, want, obj._element.get(d.attribute)))
                    out.case(("live", rd, obj.uuid, name, repr(v)[:60]), nontrivial=not is_default)
        lt_planned = []
        lt_targets = [(o.uuid, o.name) for o in list(model.search("LogicalFunction"))[:8] if o.name]
        cons = [c for c in model.search("Constraint") if next(c._element.iterchildren("ownedSpecification"), None) is not None]
        rng.shuffle(cons)
        for con in cons[: ctx.pick(6, 12)]:
            v, _ = rand_linked_text(rng, lt_targets, False)
            try:
                con.specification["LinkedText"] = v
                got = str(con.specification["LinkedText"])
            except Exception as e:
                out.find("spec.linkedtext|valid-value-fails|interleaved", f"live Constraint.specification['LinkedText'] = {v!r}: {type(e).__name__}: {e}",
                         {"kind": "live-spec", "value": v})
                continue
            if got != v and got == lt_lstrip(v):
                out.find("spec.linkedtext|whitespace-only-leading-text-dropped", f"live Constraint.specification['LinkedText'] = {v!r} read back {got!r}",
                         {"kind": "live-spec", "value": v})
            elif got != v:
                out.find("spec.linkedtext|canonical-read-back-differs", f"live Constraint.specification['LinkedText'] = {v!r} read back {got!r}",
                         {"kind": "live-spec", "value": v})
            lt_planned.append((con.uuid, got))  # after save and reload the same value must be read
            out.case(("live-lt", rd, con.uuid, v), nontrivial=bool(v))
        try:
            model.save()
            model2 = capellambse.MelodyModel(str(dst / "Melody Model Test.aird"))
        except Exception as e:
            out.find("pod.reload|save-or-reload-failed", f"after assigning valid values to {len(planned)} typed attributes: {type(e).__name__}: {str(e)[:200]}",
                     {"kind": "live-reload", "round": rd})
            shutil.rmtree(dst, ignore_errors=True)
            continue
        for uuid, v in lt_planned:
            try:
                got = str(model2.by_uuid(uuid).specification["LinkedText"])
            except Exception as e:
                got = f"{type(e).__name__}: {e}"
            if got != v:
                out.find("spec.reload|linkedtext-differs-after-save-reload", f"Constraint.specification['LinkedText'] = {v!r} reads {got!r} after save and reload",
                         {"kind": "live-spec", "value": v})
            out.traces_validated += 1
            out.hit("reload.linkedtext")
        for uuid, name, kind, label, v, want, xml in planned:
            o2 = model2.by_uuid(uuid)
            d = getattr(type(o2), name)
            try:
                got = getattr(o2, name)
            except Exception as e:
                got = e
            xml2 = o2._element.get(d.attribute)
            if isinstance(got, Exception) or not py_equal(kind, got, want) or xml2 != xml:
                cls = "ws" if isinstance(v, str) and any(c in v for c in "\t\n\r") else label
                out.find(f"pod.reload|value-differs-after-save-reload|{kind}:{cls}", f"{type(o2).__name__}.{name} = {v!r}: XML before save {xml!r}, after reload {xml2!r}, "
                         f"value {got!r}", {"kind": "live-reload", "pyname": name, "value": repr(v)[:200]})
            if kind == "html" and isinstance(got, str):
                for wcls in not_wellformed(str(got)):
                    out.find(f"repair_html|not-wellformed|{wcls}", f"{type(o2).__name__}.{name} = {v!r}: the value after save and reload {str(got)!r} is not "
                             "well-formed XML content", {"kind": "wellformed", "value": str(v)})
            out.traces_validated += 1
            out.hit(f"reload.{kind}")
        shutil.rmtree(dst, ignore_errors=True)


# ---------------------------------------------------------------- save and reload on every corpus model

NL_FAMILY = ["\n", "\r\n", "\r", "\t", "\x85", "\u2028", "\u2029"]


def nl_values(rng, n: int) -> list[str]:
    """string values with newline-family characters (LF, CRLF, CR, TAB, NEL, LS, PS) at the start, in the middle, at
    the END, doubled and alone — what line-oriented serialisers get wrong — plus `n` random mixtures"""
    fixed = []
    for nl in NL_FAMILY:
        fixed += [nl, "a" + nl, nl + "a", "a" + nl + "b", "a" + nl + nl, nl + nl + "a", " " + nl + " ", "x = 1" + nl + "  y" + nl]
    rnd = ["".join(rng.choice(NL_FAMILY + ["a", " ", "é", "<", "&", "]]>"]) for _ in range(rng.randint(1, 6))) for _ in range(n)]
    return fixed + rnd


def nl_class(v: str) -> str:
    if v and v[-1] in "\n\r\x85\u2028\u2029":
        return "trailing-linebreak"
    if "\r" in v:
        return "cr"
    if any(c in v for c in "\x85\u2028\u2029"):
        return "unicode-linebreak"
    if "\n" in v:
        return "inner-newline"
    if "\t" in v:
        return "tab"
    return "plain"


def corpus_models() -> list:
    base = common.REPO / "tests" / "data"
    return sorted(base.rglob("*.aird"))


def reload_part(ctx, out, capellambse, pvmt_config, monitor_expect, py_equal, pools, enum_pool):
    """For every corpus model (quick: a seeded choice that always has one with specifications; thorough: all): every
    writable POD slot of every class that has an instance in the model gets a valid value (string-like slots: half of
    them newline-family values), every specification gets plain bodies with newline-family values and a linked text;
    then save(), reload, and every value and its XML text must be what it was before saving."""
    from capellambse.model import _pods

    rng = ctx.rng
    allm = corpus_models()
    with_spec = [p for p in allm if "melodymodel" in p.parts]
    if ctx.thorough:
        chosen = allm
    else:
        first = rng.choice(with_spec) if with_spec else None
        rest = [p for p in allm if p != first]
        chosen = ([first] if first else []) + rng.sample(rest, min(2, len(rest)))
    dist = {"models": [], "pod_values": 0, "pod_nl_values": 0, "spec_bodies": 0, "linked_texts": 0, "classes_with_instances": 0, "skipped_models": []}
    for mi, aird in enumerate(chosen):
        rel = str(aird.relative_to(common.REPO / "tests" / "data"))
        dst = ctx.scratch / f"reload{mi}"
        shutil.copytree(aird.parent, dst)
        kw = {}
        if aird.parent.name == "Library Project":  # references the library next to it
            lib = ctx.scratch / f"reload{mi}-lib"
            shutil.copytree(aird.parent.parent / "Library Test", lib)
            kw = {"resources": {"Library Test": str(lib)}}
        try:
            model = capellambse.MelodyModel(str(dst / aird.name), **kw)
        except Exception as e:  # a corpus model the library cannot open as is: not this property's concern
            dist["skipped_models"].append(f"{rel}: {type(e).__name__}")
            shutil.rmtree(dst, ignore_errors=True)
            continue
        dist["models"].append(rel)
        by_type: dict[type, list] = {}
        try:
            everything = list(model.search())
        except Exception as e:
            dist["skipped_models"].append(f"{rel}: search: {type(e).__name__}")
            everything = []
        # save() writes the primary resource only (libraries are read-only by design): plan on its elements alone
        def in_primary(obj) -> bool:
            try:
                return model._loader.find_fragment(obj._element).parts[0] == "\0"
            except Exception:
                return False

        n_all = len(everything)
        everything = [o for o in everything if in_primary(o)]
        dist["elements_in_read_only_libraries_skipped"] = dist.get("elements_in_read_only_libraries_skipped", 0) + n_all - len(everything)
        for obj in everything:
            by_type.setdefault(type(obj), []).append(obj)
        planned = []
        nl_pool = nl_values(rng, ctx.pick(10, 60))
        for cls in sorted(by_type, key=lambda c: f"{c.__module__}.{c.__qualname__}"):
            objs = by_type[cls]
            slots = []
            for name in sorted(dir(cls)):
                d = getattr(cls, name, None)
                if isinstance(d, _pods.BasePOD) and type(d).__name__ in KINDS and d.writable:
                    slots.append((name, d))
            if not slots:
                continue
            dist["classes_with_instances"] += 1
            for obj in rng.sample(objs, min(len(objs), ctx.pick(1, 3))):
                for name, d in slots:
                    kind = KINDS[type(d).__name__]
                    if kind in ("string", "html") and rng.random() < 0.5:
                        label, v = "newline-family", rng.choice(nl_pool)
                        dist["pod_nl_values"] += 1
                    else:
                        pool = enum_pool(d) if kind == "enum" else pools[kind]
                        cands = [(lab, x) for lab, x in pool if monitor_expect(kind, d, x)[0] and not (isinstance(x, str) and len(x) > 3000)
                                 and not subsecond_offset(x)]
                        label, v = rng.choice(cands)
                    valid, want, is_default = monitor_expect(kind, d, v)
                    if not valid:
                        continue
                    rp = {"kind": "reload", "model": rel, "class": f"{cls.__module__}.{cls.__qualname__}", "pyname": name, "value": repr(v)[:200]}
                    try:
                        setattr(obj, name, v)
                        got = getattr(obj, name)
                    except Exception as e:
                        out.find(f"pod.live|valid-value-fails|{kind}:{label}", f"{rel}: {cls.__name__}.{name} = {v!r}: {type(e).__name__}: {e}", rp)
                        continue
                    if not py_equal(kind, got, want):
                        out.find(f"pod.get|read-back-differs|{kind}:{label}", f"{rel}: {cls.__name__}.{name} = {v!r} read back {got!r}", rp)
                    planned.append((obj.uuid, cls, name, kind, label, v, want, obj._element.get(d.attribute), rp))
                    dist["pod_values"] += 1
                    out.case(("reload", rel, obj.uuid, name, repr(v)[:60]), nontrivial=not is_default)
        # specifications: plain bodies under fresh and existing keys, and a linked text
        spec_planned = []
        owners = []
        for obj in everything:
            if next(obj._element.iterchildren("ownedSpecification"), None) is not None and hasattr(type(obj), "specification"):
                owners.append(obj)
        rng.shuffle(owners)
        lt_targets = [(o.uuid, o.name) for o in everything[:400] if getattr(o, "name", None) and isinstance(o.name, str) and o.name.strip() == o.name][:8]
        for oi, own in enumerate(owners[: ctx.pick(12, 40)]):
            try:
                spec = own.specification
            except AttributeError:
                continue
            keys = ["python", "ocl"] + [k for k in list(spec) if k and k != "capella:linkedText"][:1]
            for k in keys[: 1 + oi % 3]:
                v = rng.choice(nl_pool)
                rp = {"kind": "reload-spec", "model": rel, "key": k, "value": v}
                try:
                    spec[k] = v
                    got = str(spec[k])
                except Exception as e:
                    out.find(f"spec.set|valid-value-fails|{nl_class(v)}", f"{rel}: specification[{k!r}] = {v!r}: {type(e).__name__}: {e}", rp)
                    continue
                if got != v:
                    out.find("spec.set|plain-body-read-back-differs", f"{rel}: specification[{k!r}] = {v!r} read back {got!r}", rp)
                spec_planned.append((own.uuid, k, v, got, rp, nl_class(v)))
                dist["spec_bodies"] += 1
                out.case(("reload-spec", rel, own.uuid, k, v))
            if lt_targets:
                v, _ = rand_linked_text(rng, lt_targets, False)
                v = v + rng.choice(["", "\n", " \n", "\t", "\u2028", "x\x85"])
                rp = {"kind": "reload-spec", "model": rel, "key": "LinkedText", "value": v}
                try:
                    spec["LinkedText"] = v
                    got = str(spec["LinkedText"])
                except Exception as e:
                    out.find("spec.linkedtext|valid-value-fails|interleaved", f"{rel}: specification['LinkedText'] = {v!r}: {type(e).__name__}: {e}", rp)
                    continue
                spec_planned.append((own.uuid, "LinkedText", v, got, rp, "linkedtext:" + nl_class(v)))
                dist["linked_texts"] += 1
                out.case(("reload-lt", rel, own.uuid, v))
        try:
            model.save()
            model2 = capellambse.MelodyModel(str(dst / aird.name), **kw)
        except Exception as e:
            out.find("pod.reload|save-or-reload-failed", f"{rel}: after assigning valid values to {len(planned)} typed attributes and "
                     f"{len(spec_planned)} specification bodies: {type(e).__name__}: {str(e)[:200]}", {"kind": "reload", "model": rel})
            shutil.rmtree(dst, ignore_errors=True)
            continue
        for uuid, cls, name, kind, label, v, want, xml, rp in planned:
            try:
                o2 = model2.by_uuid(uuid)
                d = getattr(type(o2), name)
                got = getattr(o2, name)
                xml2 = o2._element.get(d.attribute)
            except Exception as e:
                got, xml2 = e, None
            if isinstance(got, Exception) or not py_equal(kind, got, want) or xml2 != xml:
                c = nl_class(v) if isinstance(v, str) and nl_class(v) != "plain" else label
                out.find(f"pod.reload|value-differs-after-save-reload|{kind}:{c}", f"{rel}: {cls.__name__}.{name} = {v!r}: XML before save {xml!r}, "
                         f"after reload {xml2!r}, value {got!r}", rp)
            out.traces_validated += 1
            out.hit(f"reload.{kind}")
        for uuid, k, v, before, rp, c in spec_planned:
            try:
                got = str(model2.by_uuid(uuid).specification[k])
            except Exception as e:
                got = f"{type(e).__name__}: {e}"
            if got != before:
                out.find(f"spec.reload|body-differs-after-save-reload|{c}", f"{rel}: specification[{k!r}] = {v!r} read {before!r} before save() and "
                         f"{got!r} after save and reload", rp)
            out.traces_validated += 1
            out.hit("reload.spec-linkedtext" if k == "LinkedText" else "reload.spec-body")
        shutil.rmtree(dst, ignore_errors=True)
        shutil.rmtree(ctx.scratch / f"reload{mi}-lib", ignore_errors=True)
    out.extra["reload_distribution"] = dist


KINDS = {"StringPOD": "string", "HTMLStringPOD": "html", "BoolPOD": "bool", "IntPOD": "int", "FloatPOD": "float", "DatetimePOD": "datetime",
         "EnumPOD": "enum", "PVMTDescriptionProperty": "selector"}


# ---------------------------------------------------------------- single-case replay


def replay(ctx: Ctx, case: dict):
    os.environ["XDG_CACHE_HOME"] = str(ctx.scratch / "xdg")
    gen_pods, capellambse, helpers, pvmt_config, _descriptors, _pods, etree = _imports()
    k = case.get("kind")
    if k == "pod":
        classes = {gen_pods.qual(c): c for c in gen_pods.model_classes()}
        cls = classes[case["cls"]]
        desc = getattr(cls, case["pyname"])
        o = cls.__new__(cls)
        o._element = etree.Element("x")
        o._model = None
        for a, b in case["init"]:
            o._element.set(a, b)
        v = dec(case["value"], desc, pvmt_config)
        snap = dict(o._element.attrib)
        present = desc.attribute in snap
        try:
            if case.get("del"):
                delattr(o, case["pyname"])
            else:
                setattr(o, case["pyname"], v)
        except Exception as e:
            if dict(o._element.attrib) != snap:
                return f"set raised {type(e).__name__} but modified the XML"
            if not desc.writable and present:
                return None
            return f"{case['cls']}.{case['pyname']} = {v!r} raised {type(e).__name__}: {e}"
        if not desc.writable:
            if dict(o._element.attrib) != snap:
                return (f"read-only {case['cls']}.{case['pyname']} accepted {v!r} "
                        f"({'attribute present' if present else 'attribute absent: write-once'}): XML now {dict(o._element.attrib)}")
            return None
        try:
            got = getattr(o, case["pyname"])
        except Exception as e:
            return f"{case['cls']}.{case['pyname']} = {v!r} wrote {o._element.get(desc.attribute)!r}; reading back raises {type(e).__name__}: {e}"
        if isinstance(v, datetime.datetime) and isinstance(desc, _pods.DatetimePOD):
            w = v if is_aware(v) else v.astimezone()
            w = w.replace(microsecond=w.microsecond // 1000 * 1000)
            if not isinstance(got, datetime.datetime) or got != w or got.utcoffset() != w.utcoffset():
                return f"{case['cls']}.{case['pyname']} = {v!r} wrote {o._element.get(desc.attribute)!r}, read back {got!r}, expected {w!r}"
        if case["value"]["t"] in ("float", "int", "bool", "str", "member", "selector") and v is not None:
            want = v
            if isinstance(desc, _pods.EnumPOD) and isinstance(v, str):
                want = desc.enumcls[v]
            if isinstance(desc, _pods.HTMLStringPOD):
                want = helpers.repair_html(v)
            if isinstance(v, str) and isinstance(desc, pvmt_config.PVMTDescriptionProperty):
                want = pvmt_config.SelectorRules(v)
            if got != want:
                return f"read back {got!r}, expected {want!r}"
            is_default = (want == desc.default)
            if is_default and desc.attribute in o._element.attrib:
                return f"default {v!r} not elided: {o._element.get(desc.attribute)!r}"
        return None
    if k == "wellformed":
        r1 = str(helpers.repair_html(case["value"]))
        bad = not_wellformed(r1)
        return f"repair_html({case['value']!r}) = {r1!r} is not well-formed XML content ({', '.join(bad)})" if bad else None
    if k == "repair":
        r1 = helpers.repair_html(case["value"])
        r2 = helpers.repair_html(r1)
        return None if r1 == r2 else f"repair_html not idempotent: {r1!r} -> {r2!r}"
    if k == "spec":
        model = capellambse.MelodyModel(str(common.REPO / "tests/data/melodymodel/5_2/Melody Model Test.aird"))
        elm = etree.Element("ownedSpecification")
        for tag, text in case["kids"]:
            etree.SubElement(elm, tag).text = text
        spec = _descriptors._Specification(model, elm)
        last = None
        for st in case["steps"]:
            try:
                if st["o"] == "set":
                    spec[st["k"]] = st["v"]
                    last = st
                elif st["o"] == "del":
                    del spec[st["k"]]
                    last = st
                elif st["o"] == "get":
                    spec[st["k"]]
            except (KeyError, ValueError):
                last = None
        if last and last["o"] == "set":
            try:
                got = str(spec[last["k"]])
            except Exception as e:
                return f"spec[{last['k']!r}] = {last['v']!r} is accepted; reading it back raises {type(e).__name__}: {e}"
            if got != last["v"] and case.get("expect") != "readable":
                return f"spec[{last['k']!r}] = {last['v']!r} reads back {got!r}"
        if last and last["o"] == "del" and last["k"] in list(spec):
            return f"del spec[{last['k']!r}] left the key behind"
        return None
    # live / law cases: re-run the whole check and look for the same class of finding
    o = run(ctx)
    for f in o.findings:
        if f.replay.get("kind") == k:
            return f.what
    return None


def dec(e: dict, desc, pvmt_config):
    t = e["t"]
    if t == "none":
        return None
    if t == "bool":
        return e["v"]
    if t == "int":
        return int(e["v"])
    if t == "float":
        return float(e["v"])
    if t == "str":
        return e["v"]
    if t == "member":
        import importlib

        mod, _, qn = e["cls"].rpartition(".")
        return getattr(importlib.import_module(mod), qn)[e["name"]]
    if t == "aware" and "f" in e:
        y, mo, d, h, mi, sc, us, off = e["f"]
        return datetime.datetime(y, mo, d, h, mi, sc, us, tzinfo=datetime.timezone(datetime.timedelta(microseconds=off)))
    if t in ("aware", "naive"):
        return datetime.datetime.fromisoformat(e["v"])
    if t == "selector":
        return pvmt_config.SelectorRules(e["v"])
    return object()
