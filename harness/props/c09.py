"""C09 — deleting an object is all-or-nothing and leaves no reachable reference to it.

Model: Capella.Delete (reference graph by accessor kind, two-phase deletion under one ExitStack).
Theorems: Props/C09.lean. Tie: for each deletion the harness extracts, by a raw scan, the references
into/out of the target subtree and classifies each by the accessor of the owner's class that exposes it;
the Lean model predicts refusal and the set of surviving references; the implementation must agree.
Monitor (independent of the model): deleted ids are gone and unresolvable, no relation of a former
referrer yields a deleted object, nothing else is removed or altered, a refused deletion leaves every
fragment byte-identical and the indexes untouched.

The declarative entry point (`decl.apply` with `delete:`) is a model of its own (Capella.DeclDelete: the loop of
`_operate_delete` over the per-object deletion of Capella.Delete): instructions that name k >= 2 members of one list in
every order, members of two lists of one parent, whole attributes mixed with members go to the model and to
`decl.apply`; outcome, deleted members, surviving elements and references are compared, and the monitor judges the
instruction as a whole (exactly the named objects are gone, every other member is still there, in order, resolvable;
after a refusal exactly the objects named in front of the refused one are gone).
"""

from __future__ import annotations

import random
import re

import common
import objlayer as ol
import accsession
import objops
import objsession as S
from common import Ctx, Outcome

DRIVERS = ["Delete", "Accessor"]
TABLES = True
RULE = ("deletion targets drawn from every corpus model: random objects, most-referenced objects, objects referenced from "
        "physical link ends (refusing), subtree roots; after 0-10 random prior edits; through del lst[i], lst.remove(x), "
        "del owner.attr, assigning [] and the declarative 'delete' (one object; k >= 2 members of one list named in "
        "ascending, descending and arbitrary order; members of two lists of one parent; whole attributes mixed with members); "
        "distinct = (model, entry point with the shape of the instruction, outcome, number of incoming references by kind); non-trivial = the target has incoming references or descendants, or the deletion is refused")
ASSUMPTIONS = [
    "references not exposed by any accessor of the owner's class are outside the claim (they are counted and reported as 'unexposed')",
    "purge exits that swallow an exception (logged by the library) would leave a reference behind: the monitor checks the outcome, the model assumes exits succeed",
]
TRUSTED = ["C09: classification of a raw reference by accessor kind (harness/props/c09.py: classify) is part of the trusted harness"]
MANIFEST = dict(
    text=("Lean theorems over the two-phase deletion on the reference graph: a successful deletion leaves no reference "
          "exposed by a writable relation to any deleted element, adds and redirects nothing, keeps the order of what "
          "remains and removes only the deleted elements and purged link elements; a reference that refuses purging makes "
          "the deletion raise before anything is written. Tied to /repo by extracting the reference graph around each "
          "deletion target with a raw scan and comparing refusal and surviving references with the model, and by an "
          "independent monitor (raw tree diff, relation reads of former referrers, byte comparison after a refusal)."
          ' Deletions are additionally executed by the accessor model over the real tree (enter-all / remove / exit-all with reference search and per-kind purge contexts); a refusal in the enter phase is proved to change nothing.'
          " The declarative entry point is modelled as the loop of _operate_delete over the per-object deletion: proved to delete exactly the named members whatever the order they are named in (every permutation leaves the same list), and after a refusal exactly the objects named in front of the refused one; tied by sending each generated instruction to the model and to decl.apply."),
    design_ref="§6 C09",
    note="Trusted: Lean kernel; the harness's classification of references by accessor kind; find_references' XPath pre-filter is validated by the raw scan (C10 covers it in depth).",
    technique="Lean 4 proof (two-phase deletion on a reference graph: coverage of purge contexts, refusal before write) + differential correspondence and raw-diff monitor on real deletions",
)

QUICK = [("write", 40), ("write+frag", 25), ("t52", 30), ("libproj", 10), ("t50", 25)]
THOROUGH = [("write", 60), ("write+frag", 60), ("t52+frag", 40), ("empty52", 10), ("filtering", 20), ("libproj", 25), ("t50", 40), ("t52", 70), ("t60", 40), ("pvmt", 15)]
TOKEN = re.compile(r"#([0-9a-f]{8}-[0-9a-f]{4}-[0-9a-f]{4}-[0-9a-f]{4}-[0-9a-f]{12})")


def semantic_elems(loader):
    for fname, tree in loader.trees.items():
        if tree.fragment_type.name != "SEMANTIC":
            continue
        for e in tree.root.iter():
            if isinstance(e.tag, str):
                yield e


def accessors_of(cls):
    from capellambse.model import _descriptors as D

    out = []
    for attr in dir(cls):
        if attr.startswith("_"):
            continue
        try:
            acc = getattr(cls, attr)
        except Exception:  # noqa: BLE001
            continue
        if isinstance(acc, D.Accessor):
            out.append((attr, acc))
    return out


_ACC_CACHE: dict = {}


def classify(model, e, attrname: str):
    """(kind, owner element, slot, carrier element) for a reference stored in attribute `attrname` of `e`"""
    from capellambse.model import _descriptors as D
    from capellambse.model import _obj as O

    def accs(elem):
        try:
            cls = type(O.ModelElement.from_model(model, elem))
        except Exception:  # noqa: BLE001
            return []
        if cls not in _ACC_CACHE:
            _ACC_CACHE[cls] = accessors_of(cls)
        return _ACC_CACHE[cls]

    p = e.getparent()
    if p is not None:
        xt = ol.xtype_of(e)
        for _, acc in accs(p):
            if type(acc).__name__ == "LinkAccessor" and acc.tag in (None, e.tag) and acc.follow == attrname and xt in acc.xtypes:
                return "linkElem", p, acc.tag or "*", e
    kinds = []
    for _, acc in accs(e):
        if isinstance(acc, D.AttrProxyAccessor) and acc.attr == attrname:
            if isinstance(acc, D.PhysicalLinkEndsAccessor):
                kinds.append("refusing")
            elif acc.aslist is not None:
                kinds.append("attrList")
            else:
                kinds.append("attrSingle")
    for k in ("refusing", "attrList", "attrSingle"):
        if k in kinds:
            return k, e, attrname, e
    return "unexposed", e, attrname, e


def subtree(loader, elem):
    return [elem, *loader.iterdescendants_xt(elem)]


def extract_graph(model, target_elem, extra=()):
    """references into and out of the target subtree(s), plus the element universe around them"""
    loader = model._loader
    sub = subtree(loader, target_elem)
    for x in extra:
        sub += [y for y in subtree(loader, x) if all(y is not z for z in sub)]
    sub_n = {id(x) for x in sub}
    ids = {x.get("id"): x for x in sub if x.get("id")}
    by_id = {}
    for e in semantic_elems(loader):
        if e.get("id"):
            by_id[e.get("id")] = e
    refs = []
    keep = []
    for e in semantic_elems(loader):
        for k, v in e.attrib.items():
            if k in ("id", "href") or "#" not in v:   # href = containment placeholder of a fragment, not a reference
                continue
            toks = TOKEN.findall(v)
            if not toks:
                continue
            inside = id(e) in sub_n or any(id(a) in sub_n for a in e.iterancestors())
            if not inside and not any(t in ids for t in toks):
                continue
            kind, owner, slot, carrier = classify(model, e, k)
            for t in toks:
                te = by_id.get(t)
                if te is None:
                    continue
                if not (t in ids or inside):
                    # a sibling link in the same list: needed because rewriting the list keeps it
                    pass
                refs.append({"owner": id(owner), "slot": slot, "kind": kind, "target": id(te), "carrier": id(carrier),
                             "_e": e, "_attr": k, "_tid": t})
                keep += [owner, te, carrier]
    elems = list({id(x): x for x in [*sub, *keep]}.values())
    ol._KEEP.append((elems, refs))
    return sub, elems, refs


_ROOTS: set = set()


def attached_to_model(e) -> bool:
    r = e
    while r.getparent() is not None:
        r = r.getparent()
    return id(r) in _ROOTS


def pick_target(model, rng: random.Random, mode: str):
    from capellambse.model import _obj as O

    if mode == "referenced":
        return objops.referenced_target(model, rng)
    if mode == "port_with_link":
        for pl in rng.sample(list(model.search("PhysicalLink")), min(3, len(model.search("PhysicalLink")))):
            try:
                ends = list(pl.ends)
            except Exception:  # noqa: BLE001
                continue
            if ends:
                return rng.choice(ends)
        return None
    objs = ol.all_objects(model)
    if mode == "owner_of_port":
        # an ancestor of a port that is a physical link end: other references into the subtree are
        # discovered before the refusing one (the refusal must still leave everything untouched)
        pls = list(model.search("PhysicalLink"))
        for pl in rng.sample(pls, min(4, len(pls))):
            try:
                ends = list(pl.ends)
            except Exception:  # noqa: BLE001
                continue
            for e in ends:
                try:
                    anc = e.parent
                    if rng.random() < 0.5 and anc.parent is not None:
                        anc = anc.parent if getattr(anc.parent, "parent", None) is not None else anc
                    if anc is not None and anc._element.getparent() is not None:
                        return anc
                except Exception:  # noqa: BLE001
                    continue
        return None
    if mode == "double_linked":
        # a target that ONE owner links to through several link elements / attributes
        per: dict[tuple, list] = {}
        for e in semantic_elems(model._loader):
            par = e.getparent()
            if par is None:
                continue
            for k, v in e.attrib.items():
                if k in ("id", "href") or "#" not in v:
                    continue
                for tkn in set(TOKEN.findall(v)):
                    per.setdefault((id(par), e.tag, k, tkn), []).append(e)
        # several link ELEMENTS of one relation of one owner pointing at the same target
        multi = sorted({key[3] for key, es in per.items() if len(es) >= 2 and classify(model, es[0], key[2])[0] == "linkElem"})
        rng.shuffle(multi)
        for t in multi[:10]:
            try:
                el = model._loader[t]
                o = O.ModelElement.from_model(model, el)
                if o.parent is not None and el.getparent() is not None:
                    return o
            except Exception:  # noqa: BLE001
                continue
        return None
    if mode == "big_subtree":
        # a subtree root with several id-carrying members that are referenced from outside
        referenced: dict[str, set] = {}
        for e in semantic_elems(model._loader):
            for k, v in e.attrib.items():
                if k not in ("id", "href") and "#" in v:
                    par = e.getparent()
                    for tkn in TOKEN.findall(v):
                        referenced.setdefault(tkn, set()).update({id(e), id(par) if par is not None else 0})
        best, score = None, 0
        for o in rng.sample(objs, min(120, len(objs))):
            try:
                if o.parent is None or o._element.getparent() is None:
                    continue
            except Exception:  # noqa: BLE001
                continue
            members = [x.get("id") for x in o._element.iter() if isinstance(x.tag, str) and x.get("id")]
            if not 2 <= len(members) <= 80:
                continue
            inside = {id(x) for x in o._element.iter()}
            per_owner: dict[int, int] = {}
            for m in members:
                for ow in referenced.get(m, ()):
                    if ow not in inside:
                        per_owner[ow] = per_owner.get(ow, 0) + 1
            # prefer subtrees in which ONE outside owner refers to SEVERAL members (shared purge context)
            sc = 10 * max(per_owner.values(), default=0) + len(per_owner)
            if sc > score:
                best, score = o, sc
        if best is not None:
            return best
    for _ in range(20):
        o = rng.choice(objs)
        try:
            if o.parent is not None and o._element.getparent() is not None:
                return o
        except Exception:  # noqa: BLE001
            continue
    del O
    return None


def entry_points(model, tgt, rng: random.Random):
    """(name, callable) ways of deleting `tgt` through the API"""
    out = []
    try:
        parent = tgt.parent
    except Exception:  # noqa: BLE001
        return out
    for r in objops.discover_for(model, parent):
        if not r.contain:
            continue
        try:
            lst = r.get()
        except Exception:  # noqa: BLE001
            continue
        if tgt in lst:
            i = lst.index(tgt)
            out.append(("delitem", lambda lst=lst, i=i: lst.__delitem__(i), r))
            out.append(("delitem-neg", lambda lst=lst, i=i: lst.__delitem__(i - len(lst)), r))
            out.append(("remove", lambda lst=lst: lst.remove(tgt), r))
            if len(lst) == 1 and r.kind in ("DirectProxyAccessor", "AttributeMatcherAccessor"):
                # (RoleTagAccessor.__set__ on a list raises NotImplementedError by design: not a deletion entry point)
                out.append(("delattr", lambda r=r: delattr(r.owner, r.attr), r))
                out.append(("assign-empty", lambda r=r: setattr(r.owner, r.attr, []), r))
            if len(lst) >= 2 and r.kind in ("DirectProxyAccessor", "AttributeMatcherAccessor") and len(lst) <= 12:
                # the whole list at once: one refusing member must keep ALL members (and everything else) untouched
                others = [x for x in lst if x is not tgt]
                out.append(("delattr-all", lambda r=r: delattr(r.owner, r.attr), r, *others))
            out.append(decl_entry(model, "decl-delete", [(r, [tgt])]))
            if len(lst) >= 2 and i + 1 < len(lst):
                out.append(decl_entry(model, "decl-delete-2", [(r, [tgt, lst[i + 1]])]))   # two members, in list order
            out += decl_entries(model, parent, r, lst, tgt, rng)
            break
    return out


WHOLE_KINDS = ("DirectProxyAccessor", "AttributeMatcherAccessor")
DECL_MULTI = ("decl-delete-perm", "decl-delete-attr", "decl-delete-multi")


class Instr:
    """one declarative `delete:` instruction on one parent: entries (relation, None = the whole attribute | the objects
    named, in the order named)"""

    def __init__(self, model, entries):
        self.entries = entries
        self.owner = entries[0][0].owner
        self.lists = [(r, list(r.get())) for r, _ in entries]    # the members of every list the instruction touches, before
        self.roots = []                                           # the objects the instruction is to delete, in instruction order
        self.blocks = []                                          # (first, last+1) positions in `roots` of whole-attribute entries
        for (r, named), (_, members) in zip(entries, self.lists):
            if named is None:
                self.blocks.append((len(self.roots), len(self.roots) + len(members)))
                self.roots += members
            else:
                self.roots += named

    def doc(self) -> str:
        doc = f"- parent: !uuid {self.owner.uuid}\n  delete:\n"
        for r, named in self.entries:
            doc += f"    {r.attr}:\n"
            for x in named or ():
                doc += f"      - !uuid {x.uuid}\n"
        return doc

    def shape(self) -> str:
        def order(named, members):
            pos = [members.index(x) for x in named]
            return "one" if len(pos) == 1 else "asc" if pos == sorted(pos) else "desc" if pos == sorted(pos, reverse=True) else "perm"
        return ",".join("whole" if named is None else f"{len(named)}{order(named, ms)}" for (r, named), (_, ms) in zip(self.entries, self.lists))


def decl_entry(model, name, entries):
    instr = Instr(model, entries)

    def fn():
        from capellambse import decl

        decl.apply(model, __import__("io").StringIO(instr.doc()))

    fn.instr = instr
    tgt = instr.roots[0] if instr.roots else None
    return (name, fn, entries[0][0], *[x for x in instr.roots if x is not tgt])


def ordered(rng: random.Random, lst, named):
    """the named members in ascending list order, descending, or an arbitrary permutation"""
    how = rng.choice(["asc", "desc", "perm", "perm"])
    named = sorted(named, key=lst.index)
    if how == "desc":
        named.reverse()
    elif how == "perm":
        rng.shuffle(named)
    return named


def decl_entries(model, parent, r, lst, tgt, rng: random.Random):
    """declarative instructions that delete `tgt` together with other children of the same parent: k >= 2 members of
    one list in every order, members of two lists of the parent, whole attributes mixed with members"""
    out = []
    if len(lst) >= 2:
        k = rng.randint(2, min(4, len(lst)))
        named = [tgt] + rng.sample([x for x in lst if x != tgt], k - 1)
        out.append(decl_entry(model, "decl-delete-perm", [(r, ordered(rng, lst, named))]))
    if r.kind in WHOLE_KINDS and len(lst) <= 12:
        out.append(decl_entry(model, "decl-delete-attr", [(r, None)]))
    # a second containment list of the same parent with other members
    mine = {id(x._element) for x in lst}
    second = []
    for r2 in objops.discover_for(model, parent):
        if not r2.contain or r2.attr == r.attr:
            continue
        try:
            l2 = r2.get()
        except Exception:  # noqa: BLE001
            continue
        if 1 <= len(l2) <= 12 and not mine & {id(x._element) for x in l2}:
            second.append((r2, l2))
    if second:
        r2, l2 = rng.choice(second)
        k1 = rng.randint(1, min(3, len(lst)))
        e1 = (r, ordered(rng, lst, [tgt] + rng.sample([x for x in lst if x != tgt], k1 - 1)))
        if r2.kind in WHOLE_KINDS and rng.random() < 0.5:
            e2 = (r2, None)
        else:
            e2 = (r2, ordered(rng, l2, rng.sample(list(l2), rng.randint(1, min(3, len(l2))))))
        if r.kind in WHOLE_KINDS and len(lst) <= 12 and e2[1] is not None and rng.random() < 0.25:
            e1 = (r, None)
        entries = [e1, e2]
        rng.shuffle(entries)
        out.append(decl_entry(model, "decl-delete-multi", entries))
    return out


def decl_order_scenario(ctx: Ctx, out: Outcome, key: str, req, impl, meta, model=None):
    """Deterministic coverage of the naming order: on owners of the longest containment lists of the model, one
    instruction each that names three members in descending list order, one in a rotated order (neither ascending nor
    descending) and one that names two in descending order."""
    if model is None:
        model = ol.load(ctx, key)
    ol.raw_scan(model._loader)   # pins every lxml proxy: python id() is the element identity of the snapshots
    _ROOTS.clear()
    _ROOTS.update(id(t.root) for t in model._loader.trees.values())
    rng = random.Random(f"c09o:{ctx.seed}:{key}")
    sized = []
    for r in objops.discover(model, rng, max_objs=600):
        if not r.contain:
            continue
        try:
            n = len(r.get())
        except Exception:  # noqa: BLE001
            continue
        if n >= 3:
            sized.append((n, r.key(), r))
    sized.sort(key=lambda t: (-t[0], t[1]))
    pool = [t[2] for t in sized[:12] if t[0] >= 8] or [t[2] for t in sized[:12]]   # 8 members: enough for all three instructions
    rng.shuffle(pool)
    done = 0
    for r in pool:
        for how in ("desc3", "rot3", "desc2"):
            try:
                lst = r.get()
                if len(lst) < 3 or not attached_to_model(r.owner._element):
                    break
                named = sorted(rng.sample(list(lst), 3 if how != "desc2" else 2), key=lst.index)
            except Exception:  # noqa: BLE001
                break
            named = named[::-1] if how != "rot3" else [named[1], named[2], named[0]]
            ep = decl_entry(model, "decl-delete-perm", [(r, named)])
            one_deletion(ctx, out, model, key, named[0], ep[0], ep[1], ep[2], "naming-order", req, impl, meta, instr=ep[1].instr)
            out.hit(f"scenario.naming-order.{how}")
        done += 1
        if done >= ctx.pick(2, 5):
            break


def refusing_list_scenario(ctx: Ctx, out: Outcome, key: str, req, impl, meta):
    """Deterministic: a whole containment list is deleted at once (`del owner.rel`) while one member that is NOT
    the first refuses (a port that is a physical link end): nothing at all may change."""
    model = ol.load(ctx, key)
    _ROOTS.clear()
    _ROOTS.update(id(t.root) for t in model._loader.trees.values())
    rng = random.Random(f"c09r:{ctx.seed}:{key}")
    done = 0
    for pl in list(model.search("PhysicalLink")):
        try:
            ends = list(pl.ends)
        except Exception:  # noqa: BLE001
            continue
        for tgt in ends:
            eps = [e for e in entry_points(model, tgt, rng) if e[0] == "delattr-all"]
            if not eps:
                continue
            ep = eps[0]
            try:
                lst0 = ep[2].get()
                if lst0[0] == tgt:   # prior edit: put a fresh member in front of the refusing one
                    spare = lst0.create(name="verif spare")
                    ep[2].get().insert(0, spare)
                    ep = next(e for e in entry_points(model, tgt, rng) if e[0] == "delattr-all")
            except Exception:  # noqa: BLE001
                continue
            one_deletion(ctx, out, model, key, tgt, ep[0], ep[1], ep[2], "refusing-member-in-list", req, impl, meta, extra=[x._element for x in ep[3:]])
            out.hit("scenario.refusing-member-in-list")
            done += 1
            break
        if done >= ctx.pick(2, 6):
            break
    return model


def run(ctx: Ctx) -> Outcome:
    import os

    out = Outcome(rule=RULE)
    req, impl, meta = [], [], []
    for key in (["t50", "t52", "t60"] if ctx.thorough else ["t50"]):
        model = refusing_list_scenario(ctx, out, key, req, impl, meta)
        decl_order_scenario(ctx, out, key, req, impl, meta, model=model)   # in the state the first scenario leaves behind
    for key, ndel in (THOROUGH if ctx.thorough else QUICK):
        rng = random.Random(f"c09:{ctx.seed}:{key}")
        model = None
        left = 0
        acc = None
        prev_model = None
        for d in range(ndel):
            if model is None or left <= 0:
                model = ol.load(ctx, key)
                left = 6
                _ROOTS.clear()
                _ROOTS.update(id(t.root) for t in model._loader.trees.values())
                # prior edits
                pre_out = Outcome()
                if acc is not None:
                    acc.final = True
                    acc.end(prev_model)
                prev_model = model
                acc = accsession.AccessorTie(out, dump_every=0)
                acc.keep_open = True
                S.run_history(ctx, pre_out, key, rng.randrange(0, 11), [acc], model=model, hist_id=1000 + d, rng=random.Random(f"c09pre:{ctx.seed}:{key}:{d}"),
                              weights={"delitem": 0, "remove": 0, "clear": 0, "setitem": 0, "delete_referenced": 0, "create_nested": 0})
                _ROOTS.update(id(t.root) for t in model._loader.trees.values())
            left -= 1
            mode = rng.choice(["referenced", "referenced", "random", "port_with_link", "owner_of_port", "big_subtree", "big_subtree", "big_subtree", "double_linked", "double_linked"])
            tgt = pick_target(model, rng, mode)
            out.hit(f"mode.{mode}.{'target' if tgt is not None else 'none'}")
            if tgt is None:
                continue
            eps = entry_points(model, tgt, rng)
            if not eps:
                continue
            ep = rng.choice([e for e in eps if e[0] not in DECL_MULTI])
            multi = [e for e in eps if e[0] in DECL_MULTI]
            if multi and rng.random() < 0.3:
                # the declarative entry point with several objects per instruction (every naming order, two lists, whole attributes)
                two = [e for e in multi if e[0] == "decl-delete-multi"]
                ep = rng.choice(two) if two and rng.random() < 0.5 else rng.choice(multi)
            if mode in ("port_with_link", "owner_of_port"):
                # a refusing member somewhere in the list: prefer deleting the whole list at once
                alls = [e for e in eps if e[0] == "delattr-all"]
                if alls and rng.random() < 0.6:
                    ep = alls[0]
                    # prior edit: make sure the refusing member is not the first of its list
                    try:
                        lst0 = ep[2].get()
                        if len(lst0) and lst0[0] == tgt:
                            spare = lst0.create(name="verif spare")
                            lst1 = ep[2].get()
                            lst1.insert(0, spare)
                            eps = entry_points(model, tgt, rng)
                            ep = next((e for e in eps if e[0] == "delattr-all"), ep)
                            out.hit("prior-edit.spare-member-first")
                            if acc is not None and acc.drv is not None:
                                acc.resync(model)   # the prior edit was made behind the accessor tie's back: transfer the state again
                    except Exception:  # noqa: BLE001
                        pass
            name, fn, rel = ep[:3]
            instr = getattr(fn, "instr", None)
            if acc is not None:
                fn = acc.wrap(model, fn, deletion_call(acc, name, rel, tgt), f"delete.{name}", rel)
            one_deletion(ctx, out, model, key, tgt, name, fn, rel, mode, req, impl, meta, extra=[x._element for x in ep[3:]], instr=instr)
            if _ROOTS != {id(t.root) for t in model._loader.trees.values()}:
                _ROOTS.clear()
                _ROOTS.update(id(t.root) for t in model._loader.trees.values())
        if acc is not None:
            acc.final = True
            acc.end(model)
    if os.environ.get("VERIF_NO_MODEL") != "1" and req:
        answers = common.model(req, driver="Delete")
        for m, iv, ans in zip(meta, impl, answers):
            mv = ans.get("ok", {"err": ans.get("err")})
            if isinstance(iv, dict) and "deleted" in iv:
                # a declarative instruction: outcome, the members that are gone, surviving elements and references
                if isinstance(mv, dict) and "deleted" in mv:
                    mv = {"outcome": mv["outcome"], "deleted": sorted(mv["gone"]), "refs": sorted(mv["refs"]), "elems": sorted(mv["elems"])}
                if mv != iv:
                    detail = None
                    if isinstance(mv, dict) and "deleted" in mv:
                        names = m[4]
                        detail = {"impl_outcome": iv["outcome"], "model_outcome": mv["outcome"],
                                  "deleted_by_impl_only": [names.get(i, i) for i in sorted(set(iv["deleted"]) - set(mv["deleted"]))],
                                  "deleted_by_model_only": [names.get(i, i) for i in sorted(set(mv["deleted"]) - set(iv["deleted"]))],
                                  "refs": [m[3][i] for i in sorted(set(mv["refs"]) ^ set(iv["refs"])) if i < len(m[3])][:6]}
                        iv = {k: (v if k in ("outcome",) else len(v)) for k, v in iv.items()}
                        mv = {k: (v if k in ("outcome",) else len(v)) for k, v in mv.items()}
                    out.disagree("decl-delete", list(m[:3]) + [m[5], detail], iv, mv)
                out.hit("decl-delete.model." + str(iv["outcome"] if isinstance(iv, dict) else iv))
                continue
            if isinstance(mv, dict) and "refs" in mv:
                mv = {"refs": sorted(mv["refs"]), "elems": sorted(mv.get("elems", []))}
            if mv != iv:
                detail = None
                if isinstance(mv, dict) and isinstance(iv, dict):
                    diff = sorted(set(mv["refs"]) ^ set(iv["refs"]))
                    detail = [m[3][i] for i in diff if i < len(m[3])]
                    if not diff:
                        detail = [f"{len(set(iv['elems']) - set(mv['elems']))} element(s) survive that the model removes (purged link elements), "
                                  f"{len(set(mv['elems']) - set(iv['elems']))} removed that the model keeps"]
                out.disagree("delete", list(m[:3]) + [detail], iv, mv)
            out.hit("delete.model." + ("refused" if iv == "NotImplementedError" else "ok"))
    return out


def deletion_call(acc, name, rel, tgt):
    """the API-level description of a deletion entry point for the accessor model"""
    try:
        ids = [id(e) for e in rel.get()._elements]
        i = ids.index(id(tgt._element))
    except Exception:  # noqa: BLE001
        return {"_decline": "target-not-in-list"}
    if name == "delitem":
        return acc.rel_call(rel, "delitem", i=i, elems=ids)
    if name == "delitem-neg":
        return acc.rel_call(rel, "delitem", i=i - len(ids), elems=ids)
    if name == "remove":
        return acc.rel_call(rel, "delitem", i=i, elems=ids)
    if name in ("delattr", "delattr-all"):
        return acc.rel_call(rel, "del")
    if name == "assign-empty":
        return acc.rel_call(rel, "set", vs=[])
    return {"_decline": f"entry:{name}"}


MODELLED_OUTCOMES = ("ok", "NotImplementedError", "KeyError", "ValueError")


def one_deletion(ctx, out, model, key, tgt, name, fn, rel, mode, req, impl, meta, extra=(), instr=None):
    loader = model._loader
    tgt_el = tgt._element
    tgt_uuid = tgt.uuid
    root_els = [tgt_el, *extra]
    if instr is not None:
        # a declarative instruction: the objects it is to delete, in instruction order
        root_els = [x._element for x in instr.roots]
        tgt_el, extra = root_els[0], root_els[1:]
    sub, elems, refs = extract_graph(model, tgt_el, extra)

    def root_of(x):
        while x.getparent() is not None:
            x = x.getparent()
        return id(x)

    tgt_roots = {root_of(x) for x in root_els}
    local_sub = [id(x) for x in sub if root_of(x) in tgt_roots]   # what parent.remove() detaches (computed before the deletion)
    # the deleting accessor's own containment relation is not a stored reference; nothing to exclude
    snap0 = ol.tree_snapshot(loader)
    h0, d0 = ol.frag_hashes(loader), ol.index_dump(loader)
    parentless = [id(x) for x in root_els if x.getparent() is None]   # roots of fragment files among the elements the call deletes (before the call)
    ref_json = [{k: v for k, v in r.items() if not k.startswith("_")} for r in refs]
    subs_of, decl_req, shape, lists_before, members_all = {}, None, None, [], {}
    if instr is not None:
        subs_of = {id(r): subtree(loader, r) for r in root_els}   # per named object, before the call
        members_all = {id(x._element): x._element for _, ms in instr.lists for x in ms}
        elems = list({id(x): x for x in [*elems, *members_all.values()]}.values())
        ol._KEEP.append((elems, refs))
        lists_before = [(r, [x.uuid for x in ms], [id(x._element) for x in ms]) for r, ms in instr.lists]
        shape = instr.shape()
        decl_req = {"op": "decl-delete", "elems": [id(x) for x in elems], "refs": ref_json,
                    "parentless": [id(x) for x in members_all.values() if x.getparent() is None],
                    "subs": [[id(r), [id(x) for x in subs_of[id(r)]], [id(x) for x in subs_of[id(r)] if root_of(x) == root_of(r)]] for r in root_els],
                    "lists": [[r.attr, ids] for r, _, ids in lists_before],
                    "entries": [[r.attr, None if named is None else [id(x._element) for x in named]] for r, named in instr.entries]}

    def scope(roots):
        """the elements that go with `roots`, and the references that point into them from outside"""
        if instr is None:
            sb = sub
        else:
            sb = []
            for r in roots:
                seen = {id(z) for z in sb}
                sb += [y for y in subs_of[id(r)] if id(y) not in seen]
        sb_n = {id(x) for x in sb}
        inc = [r for r in refs if r["target"] in sb_n and r["owner"] not in sb_n and r["carrier"] not in sb_n]
        return sb, sb_n, [x.get("id") for x in sb if x.get("id")], inc, len({root_of_before.get(id(x)) for x in sb}) > 1

    root_of_before = {id(x): root_of(x) for x in sub}
    sub, sub_n, sub_ids, incoming, spanning = scope(root_els)   # spanning: the subtree continues in other fragment files
    kinds = sorted({r["kind"] for r in incoming})
    try:
        fn()
        outcome = "ok"
    except (KeyboardInterrupt, SystemExit):
        raise
    except BaseException as e:  # noqa: BLE001
        outcome = type(e).__name__
    nontrivial = bool(incoming) or len(sub) > 1 or outcome != "ok"
    sample = {"model": key, "entry": name, "target": tgt_uuid, "class": type(tgt).__name__, "subtree": len(sub),
              "incoming": {k: sum(1 for r in incoming if r["kind"] == k) for k in kinds}, "outcome": outcome}
    if instr is not None:
        sample["instruction"] = shape
        out.extra.setdefault("decl_instruction_shapes", {})
        out.extra["decl_instruction_shapes"][shape] = out.extra["decl_instruction_shapes"].get(shape, 0) + 1
        for part in shape.split(","):
            out.hit("decl.entry." + part.lstrip("0123456789"))
    out.case((key, name if instr is None else f"{name}[{shape}]", outcome, tuple(kinds), min(len(incoming), 5)), sample, nontrivial)
    out.hit(f"entry.{name}.{'ok' if outcome == 'ok' else outcome}")
    for k in kinds:
        out.hit(f"incoming.{k}")
    out.traces_validated += 1

    def find(sig, msg):
        out.find(sig, f"{key}: {name} of {type(tgt).__name__} {tgt_uuid} ({mode}): {msg}",
                 {"kind": "deletion", "model": key, "entry": name, "target": tgt_uuid, "mode": mode, "failure": sig,
                  **({"instruction": instr.doc()} if instr is not None else {})})

    ref_meta = [f"{r['kind']}:{r['slot']} on <{r['_e'].tag}> inside_sub={r['owner'] in sub_n or r['carrier'] in sub_n} target_in_sub={r['target'] in sub_n}" for r in refs]

    def surviving_refs():
        return sorted(i for i, r in enumerate(refs) if ("#" + r["_tid"]) in r["_e"].get(r["_attr"], "") and attached_to_model(r["_e"]))

    def refused_unchanged():
        h1, d1 = ol.frag_hashes(loader), ol.index_dump(loader)
        if h1 != h0:
            find(f"refused-deletion-changed-model|{outcome}", f"raised {outcome} but fragments {[f for f in h0 if h0[f] != h1.get(f)]} differ")
        if d1 != d0:
            find(f"refused-deletion-changed-index|{outcome}", f"raised {outcome} but the indexes differ")

    if instr is not None:
        # ---- tie: the whole instruction on the model (Model/DeclDelete.lean: operateDelete)
        if outcome in MODELLED_OUTCOMES:
            req.append(decl_req)
            names = {nid: f"{e.tag} {e.get('id')}" for nid, e in members_all.items()}
            meta.append((key, name, tgt_uuid, ref_meta, names, shape))
            impl.append({"outcome": outcome, "deleted": sorted(nid for nid, e in members_all.items() if not attached_to_model(e)),
                         "refs": surviving_refs(), "elems": sorted(id(x) for x in elems if attached_to_model(x))})
        else:
            out.extra.setdefault("unmodelled_refusals", {})
            out.extra["unmodelled_refusals"][outcome] = out.extra["unmodelled_refusals"].get(outcome, 0) + 1
        # ---- monitor, per instruction: which of the objects it names are gone?
        gone = [i for i, r in enumerate(root_els) if not attached_to_model(r)]
        if outcome == "ok":
            judged = root_els            # all of them must be (checked below: deleted-id-still-in-tree)
        else:
            # the statement is per object: the instruction deletes the objects one after the other (a whole attribute
            # at once), so what is gone must be exactly the objects in front of the refused one
            if gone != list(range(len(gone))):
                find(f"decl-delete|refused-instruction|deleted-not-a-prefix|{outcome}",
                     f"raised {outcome}; of the objects to delete (in instruction order) those at positions {gone} are gone")
            if any(a < len(gone) < b for a, b in instr.blocks):
                find(f"decl-delete|refused-instruction|whole-attribute-half-deleted|{outcome}",
                     f"raised {outcome} with a whole-attribute entry partly executed")
            if not gone:
                refused_unchanged()
                return
            out.hit("decl-delete.refused-after-prefix")
            judged = [root_els[i] for i in gone]
        judged_n = {id(r) for r in judged}
        sub, sub_n, sub_ids, incoming, spanning = scope(judged)
        # exactly the named members have left the lists; all others are still there, in their order, and resolvable
        purged_ok = {r["carrier"] for r in incoming if r["kind"] == "linkElem"}   # members that ARE references to a deleted object go with it
        for r, uu_before, ids_before in lists_before:
            expected = [u for u, nid in zip(uu_before, ids_before) if nid not in judged_n and nid not in purged_ok]
            try:
                after = [x.uuid for x in r.get()]
            except Exception as ex:  # noqa: BLE001
                find("decl-delete|list-unreadable-afterwards", f"{type(r.owner).__name__}.{r.attr} raises {type(ex).__name__} after the instruction")
                continue
            if after != expected:
                lost = [u for u in expected if u not in after]
                kept = [u for u, nid in zip(uu_before, ids_before) if nid in judged_n and u in after]
                kind = "unnamed-member-removed" if lost else "named-member-survives" if kept else "order-changed"
                find(f"decl-delete|{kind}", f"{type(r.owner).__name__}.{r.attr} ({shape}): removed although never named {lost[:3]}, named but still a member {kept[:3]}; "
                                            f"{len(uu_before)} members before, {len(after)} after, {len(expected)} expected")
            for u in expected:
                try:
                    loader[u]
                except KeyError:
                    find("decl-delete|unnamed-member-unresolvable", f"by_uuid({u}) fails although the object was never named")
                    break
    else:
        # model request
        req.append({"op": "delete", "elems": [id(x) for x in elems], "refs": ref_json, "sub": [id(x) for x in sub],
                    "local": local_sub, "parentless": parentless})
        meta.append((key, name, tgt_uuid, ref_meta))
        if outcome != "ok":
            if outcome == "NotImplementedError":
                impl.append("NotImplementedError")
            else:
                # a refusal the model does not describe (e.g. TypecastAccessor.purge_references raising
                # AttributeError in its enter phase): outside the theorem's domain, judged by the monitor only
                req.pop()
                meta.pop()
                out.extra.setdefault("unmodelled_refusals", {})
                out.extra["unmodelled_refusals"][outcome] = out.extra["unmodelled_refusals"].get(outcome, 0) + 1
            refused_unchanged()
            return  # raising is allowed by the property as long as nothing changed (checked above)
    span = "|fragment-spanning" if spanning else ""
    surviving = surviving_refs()
    if instr is None:
        impl.append({"refs": surviving, "elems": sorted(id(x) for x in elems if attached_to_model(x))})
    # ---- monitor
    scan_ids = {e.get("id") for e in semantic_elems(loader) if e.get("id")}
    for k in sub_ids:
        if k in scan_ids:
            find("deleted-id-still-in-tree" + span, f"id {k} of the deleted subtree is still in a fragment")
        try:
            loader[k]
            find("deleted-id-still-resolvable" + span, f"by_uuid({k}) still succeeds")
        except KeyError:
            pass
    # relations of former referrers must not yield a deleted object
    from capellambse.model import _obj as O
    seen_owner = set()
    for r in incoming:
        e = r["_e"] if r["kind"] != "linkElem" else r["_e"].getparent()
        if e is None or id(e) in seen_owner or not attached_to_model(e):
            continue
        seen_owner.add(id(e))
        try:
            obj = O.ModelElement.from_model(model, e)
        except Exception:  # noqa: BLE001
            continue
        for attr, acc in accessors_of(type(obj)):
            if type(acc).__name__ not in ("AttrProxyAccessor", "LinkAccessor", "PhysicalLinkEndsAccessor", "TypecastAccessor", "IndexAccessor"):
                continue
            try:
                v = getattr(obj, attr)
            except Exception as ex:  # noqa: BLE001
                if r["kind"] != "unexposed" and isinstance(ex, KeyError):
                    find(f"relation-raises-after-delete|{type(acc).__name__}", f"{type(obj).__name__}.{attr} raises {type(ex).__name__} after the deletion (dangling link)")
                continue
            vals = list(v) if isinstance(v, O.ElementList) else ([v] if v is not None else [])
            bad = [getattr(x, "uuid", None) for x in vals if getattr(x, "uuid", None) in sub_ids]
            if bad:
                find(f"relation-yields-deleted|{type(acc).__name__}", f"{type(obj).__name__}.{attr} still yields deleted {bad[:2]}")
    # frame: only the subtree and referring attributes / link elements may differ
    snap1 = ol.tree_snapshot(loader)
    gone = set(snap0) - set(snap1)
    gone_ids = {dict(snap0[n][3][1]).get("id") for n in gone} - {None}
    alive_ids = {dict(snap1[n][3][1]).get("id") for n in snap1} - {None}
    if spanning:
        # the members that survive in their fragment file are reported above; for the frame they count as deleted
        alive_ids -= set(sub_ids)
        gone_ids |= set(sub_ids)

    def refs_of(sig):
        return set(TOKEN.findall(" ".join(v for k, v in sig[1] if k != "id")))

    def under(nid, roots, snap):
        while nid is not None:
            if nid in roots:
                return True
            nid = snap[nid][1] if nid in snap else None
        return False

    bad = []
    sub_gone_ids = set(sub_ids)
    purged = {n for n in gone if n not in sub_n and not under(n, sub_n, snap0) and (refs_of(snap0[n][3]) & sub_gone_ids)}
    for n in gone:
        if n in sub_n or under(n, sub_n, snap0):
            continue
        if n in purged or under(n, purged, snap0):
            continue  # purged link element (with whatever it contains)
        bad.append(("removed", snap0[n][3][0], dict(snap0[n][3][1]).get("id")))
    for n in set(snap1) - set(snap0):
        bad.append(("added", snap1[n][3][0], dict(snap1[n][3][1]).get("id")))
    for n in set(snap0) & set(snap1):
        a, b = snap0[n], snap1[n]
        if a[1] != b[1]:
            bad.append(("re-parented", a[3][0], dict(a[3][1]).get("id")))
        if a[3] != b[3]:
            lost = {t for t in refs_of(a[3]) - refs_of(b[3]) if t in alive_ids}
            if lost:
                bad.append(("lost-live-reference", a[3][0], sorted(lost)[:2]))
            elif not (refs_of(a[3]) & gone_ids):
                bad.append(("altered", a[3][0], dict(a[3][1]).get("id")))
            else:
                # only references may have changed: compare everything else
                rest_a = {k: v for k, v in a[3][1] if not TOKEN.search(v)}
                rest_b = {k: v for k, v in b[3][1] if not TOKEN.search(v)}
                if {k: v for k, v in rest_a.items() if k in rest_b} != {k: v for k, v in rest_b.items() if k in rest_a} or a[3][2] != b[3][2]:
                    bad.append(("altered-beyond-references", a[3][0], dict(a[3][1]).get("id")))
    if bad:
        kinds_b = sorted({x[0] for x in bad})
        find(f"side-effect|{name}|{'+'.join(kinds_b)}", f"changed other parts of the model: {bad[:4]} ({len(bad)} in total)")
    # a link element IS the reference: it must go, not merely lose its target attribute
    husks = [r for r in incoming if r["kind"] == "linkElem" and attached_to_model(r["_e"])]
    if husks:
        find("link-element-survives-without-target", f"{len(husks)} link element(s) that pointed at a deleted element are still in the model, e.g. <{husks[0]['_e'].tag}> {husks[0]['_e'].get('id')}")
    # exposed references that survived
    left = [r for i, r in enumerate(refs) if i in surviving and r["target"] in sub_n and r["owner"] not in sub_n and r["kind"] not in ("unexposed",)]
    if left:
        find(f"exposed-reference-survives|{left[0]['kind']}", f"{len(left)} exposed reference(s) to deleted elements remain, e.g. {left[0]['slot']} on {left[0]['_e'].tag}")
    out.extra["unexposed_dangling"] = out.extra.get("unexposed_dangling", 0) + sum(
        1 for i, r in enumerate(refs) if i in surviving and r["target"] in sub_n and r["owner"] not in sub_n and r["kind"] == "unexposed")


def replay(ctx: Ctx, case: dict):
    out = run(Ctx(ctx.prop, "quick", ctx.seed))
    for f in out.findings:
        if f.signature == case.get("failure"):
            return f.what
    return None
