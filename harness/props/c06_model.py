"""C06 correspondence: the Lean model's `split` and navigation vs. the implementation on the fragmented layout.

`collect` turns the monolithic main file (raw lxml) into the model's `Tree` (key = preorder index), asks the
model for the split store and for navigation answers, and records what the implementation answers on the
fragmented loader; `compare` runs the driver once for all layouts and diffs."""

from __future__ import annotations

import posixpath

import common
from props import c05 as links

XSI_T = links.XSI_T


def _tree_json(root, helpers):
    """([key, tag, xt, kids], key->element, id->key) for a monolithic semantic file"""
    keyof: dict[int, int] = {}
    elems: list = []

    def walk(e):
        k = len(elems)
        elems.append(e)
        keyof[id(e)] = k
        kids = [walk(c) for c in e if isinstance(c.tag, str)]
        return [k, e.tag, helpers.xtype_of(e), kids]

    t = walk(root)
    idkey = {e.get("id"): k for k, e in enumerate(elems) if e.get("id")}
    return t, elems, idkey


def _impl_file(root, helpers, is_fragment: bool):
    """a loaded file in the model's shape, ids instead of keys"""

    def walk(e, top):
        if e.get("href") is not None:
            return ["href", e.tag, helpers.xtype_of(e), e.get("href").split("#")[-1]]
        tag = helpers.xtype_of(e) if (top and is_fragment) else e.tag
        return ["elem", e.get("id"), tag, helpers.xtype_of(e), [walk(c, False) for c in e if isinstance(c.tag, str)]]

    return walk(root, True)


def _model_file(node, key2id):
    if node[0] == "href":
        return ["href", node[1], node[2], key2id.get(node[3])]
    return ["elem", key2id.get(node[1]), node[2], node[3], [_model_file(c, key2id) for c in node[4]]]


def collect(ctx, out, spec, mono, frag, lay, cases: list, tag: str) -> None:
    _, helpers, _ = links._imports()
    mroot = None
    for fr, tree in mono._loader.trees.items():
        if fr.parts[0] == "\0" and posixpath.splitext(fr.parts[-1])[1] in (".capella", ".melodymodeller"):
            mroot = tree.root
    if mroot is None:
        return
    tjson, elems, idkey = _tree_json(mroot, helpers)
    key2id = {k: e.get("id") for k, e in enumerate(elems)}
    cut = sorted(idkey[i] for i in lay.fragments.values())
    n = len(elems)
    big = n > 400

    fl = frag._loader
    fels: dict[str, object] = {}
    ffiles = {}
    for fr, tree in fl.trees.items():
        if fr.parts[0] != "\0" or posixpath.splitext(fr.parts[-1])[1] not in links.SEMANTIC:
            continue
        rel = "/".join(fr.parts[1:])
        ffiles[tree.root.get("id")] = _impl_file(tree.root, helpers, rel != lay.main)
        for e in tree.root.iter():
            if isinstance(e.tag, str) and e.get("id") and e.get("href") is None:
                fels[e.get("id")] = e
    root_of_file = {f: i for f, i in lay.fragments.items()}
    root_of_file[lay.main] = mroot.get("id")

    ids = [i for i in idkey if i in fels]
    roots = list(lay.fragments.values())
    near = list(dict.fromkeys(roots + [a.get("id") for r in roots for a in list(fels[r].iterchildren())[:3] if a.get("id")]
                              + [p.get("id") for r in roots for p in list(elems[idkey[r]].iterancestors())[:2] if p.get("id")]))
    rest = [i for i in ids if i not in near]
    ctx.rng.shuffle(rest)
    sample = near + rest[: (25 if big else 120)]
    tags = sorted({e.tag for e in elems if not e.tag.startswith("{")})
    xts = sorted({helpers.xtype_of(e) for e in elems if helpers.xtype_of(e)})

    queries: list = [["files"]]
    impl: list = [ffiles]
    kinds: list = ["files"]

    def guard(fn):
        try:
            return {"r": fn()}
        except KeyError:
            return {"e": "KeyError"}

    for i in sample:
        e = fels[i]
        k = idkey[i]
        xsel = [] if ctx.rng.random() < 0.5 else ctx.rng.sample(xts, min(2, len(xts)))
        queries.append(["children", k, xsel])
        impl.append(guard(lambda: [[c.get("id"), helpers.xtype_of(c)] for c in fl.iterchildren_xt(e, *xsel)]))
        kinds.append("children")
        tsel = [] if ctx.rng.random() < 0.5 else ctx.rng.sample(tags, min(2, len(tags)))
        if not big or i in near[:6]:
            queries.append(["desc", k, tsel])
            impl.append(guard(lambda: [[x.get("id"), helpers.xtype_of(x)] for x in fl.iterdescendants(e, *tsel)]))
            kinds.append("desc")
            queries.append(["descxt", k, xsel])
            impl.append(guard(lambda: [[x.get("id"), helpers.xtype_of(x)] for x in fl.iterdescendants_xt(e, *xsel)]))
            kinds.append("descxt")
        queries.append(["ancestors", k])
        impl.append([a.get("id") for a in fl.iterancestors(e)])
        kinds.append("ancestors")
        queries.append(["fileof", k])
        impl.append(root_of_file.get("/".join(fl.find_fragment(e).parts[1:])))
        kinds.append("fileof")
        queries.append(["raw", k])
        impl.append({"r": [c.get("id") for c in e if isinstance(c.tag, str) and c.get("href") is None]})
        kinds.append("raw")
        out.case(("model-nav", tag, i), None, nontrivial=i in near)
    for i in (near[:2] if big else near[:8] + rest[:4]):
        obj = frag.by_uuid(i)
        queries.append(["search", idkey[i], []])
        impl.append(sorted(o.uuid for o in frag.search(below=obj)))
        kinds.append("search")
    cases.append({"req": {"op": "frag.run", "tree": tjson, "cut": cut, "fuel": 2 * n + 8, "queries": queries},
                  "impl": impl, "kinds": kinds, "key2id": key2id, "spec": spec,
                  "xt": {k: helpers.xtype_of(e) for k, e in enumerate(elems)}})
    out.extra.setdefault("model_layouts", 0)
    out.extra["model_layouts"] += 1


def compare(out, cases: list) -> None:
    answers = common.model([c["req"] for c in cases], driver="Frag")
    for c, ans in zip(cases, answers):
        if "ok" not in ans:
            raise common.InfraError(f"frag.run failed: {ans}")
        key2id, xt = c["key2id"], c["xt"]
        for q, kind, iv, mv in zip(c["req"]["queries"], c["kinds"], c["impl"], ans["ok"]):
            if kind == "files":
                mfiles = {}
                for f in mv:
                    mf = _model_file(f, key2id)
                    mfiles[mf[1]] = mf
                got = mfiles
            elif kind in ("children",):
                got = {"r": [[key2id.get(p[0]), p[1]] for p in mv["r"]]} if "r" in mv else mv
            elif kind in ("desc", "descxt"):
                got = {"r": [[key2id.get(p[1]), p[2]] for p in mv["r"]]} if "r" in mv else mv
            elif kind == "ancestors":
                got = [key2id.get(k) for k in mv]
            elif kind == "fileof":
                got = key2id.get(mv) if mv is not None else None
            elif kind == "raw":
                got = {"r": [key2id.get(k) for k in mv["r"]]} if "r" in mv else mv
            elif kind == "search":
                # model.search() lists typed, id-bearing elements only
                got = sorted(key2id[k] for k in mv if key2id.get(k) and xt.get(k))
            else:
                got = mv
            if got != iv:
                out.disagree("frag." + kind, {"layout": c["spec"], "query": q if kind != "files" else "files"},
                             _short(iv), _short(got))
            out.hit("frag." + kind)
            out.traces_validated += 1


def _short(v):
    s = repr(v)
    return v if len(s) < 600 else s[:600] + "…"
