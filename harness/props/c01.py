"""C01 — unmodified load-then-save reproduces Capella's files byte for byte.

Correspondence: Lean `Capella.Xml` (writer: escape, attribute order, namespace sorting, running
column / wrapping, text, comments, declaration; reader: lexer, tree builder, namespace resolution)
against `capellambse.loader.exs.serialize/_escape`, `ModelFile.write_xml` and lxml's parser, byte
for byte, on (a) every fragment of the corpus, (b) Capella-shaped trees derived from the corpus by
mutation plus synthetic and deliberately non-Capella-shaped ones, (c) `_escape` over code points.

Monitor (does not use the model): an untouched model is loaded and saved into a copy — every file
must be byte-identical to the original; every Capella-shaped generated tree is written, re-parsed
the way `ModelFile` parses, written again — the bytes must be equal (and the parse must succeed).
"""

from __future__ import annotations

import copy
import io
import json
import os
import pathlib
import re
import shutil
import sys

import common
from common import Ctx, Outcome

sys.path.insert(0, str(pathlib.Path(__file__).resolve().parent.parent))

DRIVERS = ["Xml"]
TABLES = True
LEVEL = "proof"
RULE = ("(a) every fragment (.capella/.aird/.afm, Capella 5.0/5.2/6.0, projects and libraries) of the corpus under "
        "tests/data [quick: the files below 400 kB]; (b) trees derived from corpus elements (element + its "
        "ancestor chain) by: sweeping one attribute value over every length 0..100 (column crosses 70..90), strings over "
        "an alphabet of every escapable character plus > ' TAB LF CR ]]> U+0080-9F U+2028 astral code points in attribute "
        "values and text, comments before/after the root, namespaces added/removed/declared on children, bodies "
        "empty/non-empty, synthetic random trees, sub-element serialisation, line lengths {80, sys.maxsize, 0..120}; plus "
        "deliberately non-Capella-shaped trees (mixed content, tails, default namespace, shadowed prefixes) for the model "
        "tie only; (c) _escape for every code point 0..0x2FF x 3 patterns exhaustively plus boundary/astral samples and "
        "random strings. distinct = distinct (tree, line length, siblings) resp. (string, pattern); non-trivial = the "
        "output has a wrapped tag, an entity, a comment, a namespace declaration or text")
ASSUMPTIONS = [
    "what Capella writes is known only through the corpus under /repo/tests/data (31 files of 10 models)",
    "lxml/libxml2 (parser with remove_blank_text=True) is the oracle for the reader model; it is not verified",
    "os.linesep == '\\n' (POSIX); encoding utf-8 (the only one MelodyLoader.save uses)",
    "lone surrogates cannot be sent to the Lean driver (Lean's Char excludes them); lxml refuses them as well",
]
TRUSTED = ["C01: UTF-8 encoding of the model's characters is done by Lean's String.toUTF8 resp. CPython's str.encode",
           "C01: tree export lxml -> JSON (harness/props/c01.py: export_doc), re-checked by rebuilding nsmap from it"]
MANIFEST = dict(
    text=("Lean model of the Eclipse-style XML writer (exs.py: escaping, xmi/xsi-first attribute order, sorted namespace "
          "declarations, running column and 80-column attribute wrapping, forced break after the root's id, always-expanded "
          "tags, text/comment handling exactly as coded) and of the reader (lexer, tree builder with libxml2's blank-text "
          "rule, namespace resolution). Theorems: escaping is invertible and boundary-safe for every string; the writer's "
          "line breaks follow a closed formula and never change what is read back; parse(serialize(t)) = t for every "
          "well-formed Capella-shaped tree and every line length, hence write-parse-write is a fixpoint. The model is tied to "
          "/repo byte for byte on all corpus fragments, on mutated Capella-shaped trees and on _escape over code points; "
          "the writer's constants are re-read from the live module into kernel-checked obligations. An independent "
          "monitor saves untouched models and diffs bytes, and checks the write-parse-write fixpoint with lxml."),
    design_ref="§6 C01",
    note=("Trusted: Lean kernel; lxml/libxml2 as the parser oracle; the corpus as the only witness of what Capella writes; "
          "tree export to JSON. Mixed content, comments inside elements and non-UTF-8 encodings are outside the theorem's "
          "WF domain (the former is modelled as coded and tied by correspondence only)."),
    technique="Lean 4 proof (induction over strings/trees, token-level round trip) + byte-exact differential correspondence with exs.py and lxml",
)

MAXSIZE = sys.maxsize
XMI = "http://www.omg.org/XMI"
XSI = "http://www.w3.org/2001/XMLSchema-instance"

# ------------------------------------------------------------------ model driver


def driver_modules(root: str = "Capella.Driver.Xml") -> list[str]:
    """the driver and every `Capella.*` module it imports (transitively), as paths below the Lake root"""
    seen: dict[str, None] = {}
    todo = [root]
    while todo:
        mod = todo.pop()
        if mod in seen:
            continue
        seen[mod] = None
        src = (common.LEAN / (mod.replace(".", "/") + ".lean")).read_text()
        todo.extend(re.findall(r"^import\s+(Capella\.\S+)", src, re.M))
    return sorted(m.replace(".", "/") for m in seen)



def native_driver() -> list[str] | None:
    """The Xml driver compiled to a native executable by Lean's own compiler (`leanc` on the C files `lake build`
    already produced): 10-15x faster than `lean --run`. Cached under .lake/build/bin, rebuilt when a module
    changes; None (-> interpreter) if anything about this fails."""
    import fcntl
    import hashlib
    import subprocess

    ir = common.LEAN / ".lake" / "build" / "ir"
    try:
        mods = driver_modules()
        key = hashlib.sha256(b"".join((ir / (m + ".c.hash")).read_bytes() for m in mods)).hexdigest()[:16]
        bindir = common.LEAN / ".lake" / "build" / "bin"
        bindir.mkdir(parents=True, exist_ok=True)
        exe = bindir / f"xmldrv-{key}"
        with open(bindir / "xmldrv.lock", "w") as lk:
            fcntl.flock(lk, fcntl.LOCK_EX)
            if not exe.exists():
                for old in bindir.glob("xmldrv-*"):
                    old.unlink()
                tmp = bindir / f"xmldrv-{key}.tmp"
                p = subprocess.run(["leanc", "-O2", "-o", str(tmp), *[str(ir / (m + ".c")) for m in mods]],
                                   capture_output=True, timeout=600)
                if p.returncode != 0 or not tmp.exists():
                    return None
                tmp.rename(exe)
        return [str(exe)]
    except (OSError, subprocess.SubprocessError):
        return None


def run_model(lines: list[dict], driver: str = "Xml", timeout: int = 3000) -> list:
    """`common.model`, but answers are split on "\n" only: the model's output legitimately contains U+0085,
    U+2028, U+001C... which `str.splitlines()` (used by common.model) treats as line ends; and the driver runs
    natively compiled when possible."""
    import subprocess

    if not lines:
        return []
    payload = "\n".join(json.dumps(l, ensure_ascii=True, separators=(",", ":")) for l in lines) + "\n"
    cmd = (native_driver() if os.environ.get("VERIF_INTERPRET") != "1" else None) or \
        ["lake", "env", "lean", "--run", f"Capella/Driver/{driver}.lean"]
    try:
        p = subprocess.run(cmd, cwd=common.LEAN, capture_output=True, timeout=timeout, input=payload.encode("utf-8"),
                           env={k: v for k, v in os.environ.items() if k != "PYTHONPATH"})
    except subprocess.TimeoutExpired:
        raise common.InfraError("model driver timed out") from None
    if p.returncode != 0:
        raise common.InfraError(f"model driver failed: {p.stderr.decode('utf-8', 'replace')[-2000:]}")
    outs = [json.loads(l) for l in p.stdout.decode("utf-8").split("\n") if l.strip()]
    if len(outs) != len(lines):
        raise common.InfraError(f"model driver answered {len(outs)} lines for {len(lines)} requests")
    return outs


# ------------------------------------------------------------------ implementation access


def impl():
    if str(common.REPO) not in sys.path:
        sys.path.insert(0, str(common.REPO))
    from lxml import etree

    from capellambse.loader import core, exs

    return etree, exs, core


def parser(etree):
    return etree.XMLParser(remove_blank_text=True, huge_tree=True)


def corpus_files(ctx: Ctx) -> list[pathlib.Path]:
    _, _, core = impl()
    files = sorted(p for p in (common.REPO / "tests" / "data").rglob("*") if p.suffix in core.VALID_EXTS)
    if not ctx.thorough:
        files = [p for p in files if p.stat().st_size < 400_000]
    return files


def corpus_models(ctx: Ctx) -> list[pathlib.Path]:
    airds = sorted((common.REPO / "tests" / "data").rglob("*.aird"))
    if not ctx.thorough:
        airds = [p for p in airds if p.stat().st_size < 100_000]
    return airds


def frag_kind(core, p: pathlib.PurePath) -> str:
    return "semantic" if p.suffix in core.SEMANTIC_EXTS else "visual" if p.suffix in core.VISUAL_EXTS else "other"


# ------------------------------------------------------------------ lxml <-> JSON


def ns_items(e) -> list[list[str]]:
    return [["" if p is None else p, u] for p, u in e.nsmap.items()]


def no_child_decls(root) -> bool:
    """True when certainly no element below a parentless root declares a namespace: libxml2 writes every declaration
    as ` xmlns:p="..."` / ` xmlns="..."`, so if the serialised tree has exactly as many of those as the root declares,
    there is none further down (text that merely looks like a declaration makes this False: the slow path decides).
    `element.nsmap` walks the ancestor chain; asking every element twice dominated the run time of large models."""
    if root.getparent() is not None:
        return False
    blob = impl()[0].tostring(root, with_tail=False)
    return blob.count(b" xmlns:") + blob.count(b" xmlns=") == len(root.nsmap)


def export_elem(e, flags: set, nodecl: bool = False) -> list:
    """[tag, own nsdecls, attrs, text, tail, kids]; flags collect what the format cannot carry. `nodecl`: the caller
    knows (no_child_decls) that nothing below the root declares a namespace."""
    parent = e.getparent()
    if nodecl and parent is not None:
        kids = []
        for c in e:
            if not isinstance(c.tag, str):
                flags.add("non-element-child")
                continue
            kids.append(export_elem(c, flags, True))
        return [e.tag, [], [[k, v] for k, v in e.items()], e.text, e.tail, kids]
    pitems = ns_items(parent) if parent is not None else []
    pm = {p: u for p, u in pitems}
    items = ns_items(e)
    own = [[p, u] for p, u in items if pm.get(p) != u]
    ownkeys = {p for p, _ in own}
    if own + [[p, u] for p, u in pitems if p not in ownkeys] != items:
        flags.add("nsmap-order")
    kids = []
    for c in e:
        if not isinstance(c.tag, str):
            flags.add("non-element-child")
            continue
        kids.append(export_elem(c, flags, nodecl))
    return [e.tag, own, [[k, v] for k, v in e.items()], e.text, e.tail, kids]


def export_doc(root, flags: set, siblings: bool = True) -> dict:
    pre, post = [], []
    if siblings:
        for c in reversed(list(root.itersiblings(preceding=True))):
            if c.tag is not impl()[0].Comment:
                flags.add("non-comment-sibling")
            pre.append([c.text or "", c.tail])
        for c in root.itersiblings():
            if c.tag is not impl()[0].Comment:
                flags.add("non-comment-sibling")
            post.append([c.text or "", c.tail])
    return {"pre": pre, "root": export_elem(root, flags, no_child_decls(root)), "post": post}


def build_elem(etree, j, parent=None):
    tag, own, attrs, text, tail, kids = j
    nsmap = {(p or None): u for p, u in own} or None
    if parent is None:
        e = etree.Element(tag, nsmap=nsmap)
    else:
        e = etree.SubElement(parent, tag, nsmap=nsmap)
    for k, v in attrs:
        e.set(k, v)
    e.text = text
    e.tail = tail
    for k in kids:
        build_elem(etree, k, e)
    return e


def build_doc(etree, d):
    root = build_elem(etree, d["root"])
    for text, tail in d["pre"]:
        c = etree.Comment(text)
        root.addprevious(c)
    for text, tail in reversed(d["post"]):
        c = etree.Comment(text)
        root.addnext(c)
    return root


# ------------------------------------------------------------------ shapes


def capella_shaped(doc: dict) -> bool:
    """The domain of the property's quantifier (and of the Lean predicate `WFDoc`): no mixed content, no
    tails, text only on childless elements and not the empty string, no default namespace, no shadowed prefix, namespace URIs free of
    markup characters, comments without '>' / line breaks."""
    for text, tail in doc["pre"] + doc["post"]:
        if tail is not None or any(ch in text for ch in ">\n\r"):
            return False
    if doc["root"][4] is not None:
        return False

    def ok(e, scope: dict) -> bool:
        tag, own, attrs, text, tail, kids = e
        for p, u in own:
            if p == "" or p in scope or not u or any(ch in u for ch in '"&<\t\n\r') or u in scope.values():
                return False
        if len({u for _, u in own}) != len(own):
            return False
        sc = dict(scope)
        sc.update({p: u for p, u in own})
        if text is not None:
            if kids or text == "":
                return False
        names = [tag] + [k for k, _ in attrs]
        for n in names:
            if n.startswith("{"):
                if n[1:].split("}")[0] not in sc.values():
                    return False
        for k in kids:
            if k[4] is not None or not ok(k, sc):
                return False
        return True

    return ok(doc["root"], {})


def features(doc: dict) -> list[str]:
    """coarse class of a generated tree, used in finding signatures"""
    f = []
    texts, attrs = [], []

    def walk(e):
        if e[3]:
            texts.append(e[3])
        attrs.extend(v for _, v in e[2])
        for k in e[5]:
            walk(k)

    walk(doc["root"])
    if any("]]>" in t for t in texts):
        f.append("cdata-end-in-text")
    if any(">" in c[0] for c in doc["pre"] + doc["post"]):
        f.append("gt-in-comment")
    if any(re.search("[\x80-\x9f\u2028\u2029]", t) for t in texts + attrs):
        f.append("c1-or-linesep-char")
    if doc["pre"] or doc["post"]:
        f.append("comments")
    if texts:
        f.append("text")
    return f or ["plain"]


# ------------------------------------------------------------------ independent oracles on the written text

# what the property says about line lengths, stated here independently of loader.core (a generated-table obligation
# compares the model's copy with core.SEMANTIC_EXTS / VISUAL_EXTS)
SEMANTIC_SUFFIXES = {".capella", ".capellafragment", ".melodyfragment", ".melodymodeller"}


def expected_line_length(suffix: str) -> int:
    return 80 if suffix in SEMANTIC_SUFFIXES else MAXSIZE


def wrap_monitor(text: str, ll: int) -> str | None:
    """The 80-column rule read off the written characters alone: inside a start tag an attribute follows on the same
    line iff the column reached (in characters) is <= ll and no break is forced (after the root's `id`); a line break
    inside a tag needs column > ll or the forced break, and is followed by the attribute indent (tag column + 4).
    For Capella-shaped documents; a non-ASCII tag name puts the counter ahead by its continuation bytes until the first break in that tag. Returns a description of the first violation."""
    i, n, col = 0, len(text), 0
    seen_root = False
    while i < n:
        ch = text[i]
        if ch == "<" and text.startswith("<!--", i):
            j = text.index("-->", i) + 3
            seg = text[i:j]
            col = len(seg) - seg.rfind("\n") - 1 if "\n" in seg else col + len(seg)
            i = j
            continue
        if ch == "<" and text.startswith("<?", i):
            j = text.index("?>", i) + 2
            col += j - i
            i = j
            continue
        if ch == "<" and i + 1 < n and text[i + 1] != "/":
            # a start tag
            is_root = not seen_root
            seen_root = True
            tag_col = col
            j = i + 1
            while text[j] not in " \n/>":
                j += 1
            # the writer counts the tag in UTF-8 bytes: the counter is ahead of the column by the tag's continuation
            # bytes until the first break inside this tag (Props/C01 stag_column_exact); 0 for ASCII names
            extra = len(text[i + 1:j].encode("utf-8")) - (j - i - 1)
            col += j - i
            i = j
            prev_attr = None
            while True:
                ch = text[i]
                if ch == ">" or (ch == "/" and text[i + 1] == ">"):
                    step = 1 if ch == ">" else 2
                    col += step
                    i += step
                    break
                forced = is_root and prev_attr == "id"
                if ch == " ":
                    if col + extra > ll:
                        return f"an attribute follows on the same line although column {col}{f' (+{extra} tag bytes)' if extra else ''} > {ll}: ...{text[max(0, i - 60):i + 30]!r}"
                    if forced:
                        return f"no line break after the root's id: ...{text[max(0, i - 40):i + 30]!r}"
                    col += 1
                    i += 1
                elif ch == "\n":
                    if not (col + extra > ll or forced):
                        return f"line break inside a tag at column {col}{f' (+{extra} tag bytes)' if extra else ''} <= {ll} without need: ...{text[max(0, i - 60):i + 30]!r}"
                    extra = 0
                    j = i + 1
                    while text[j] == " ":
                        j += 1
                    if j - i - 1 != tag_col + 4:
                        return f"attribute indent {j - i - 1}, expected {tag_col + 4}: ...{text[max(0, i - 30):j + 20]!r}"
                    col = j - i - 1
                    i = j
                else:
                    return f"unexpected character {ch!r} inside a tag"
                # attribute name="value"
                j = text.index("=", i)
                prev_attr = text[i:j]
                k = text.index('"', j + 2)
                col += k + 1 - i
                i = k + 1
            continue
        if ch == "\n":
            col = 0
        else:
            col += 1
        i += 1
    return None


def norm_doc(doc: dict):
    """information content of an exported document: attribute and declaration order dropped, '' text = no text"""
    def ne(e):
        tag, own, attrs, text, tail, kids = e
        return (tag, tuple(sorted(map(tuple, own))), tuple(sorted(map(tuple, attrs))), text or None, tail or None,
                tuple(ne(k) for k in kids))
    return (tuple(map(tuple, doc["pre"])), ne(doc["root"]), tuple(map(tuple, doc["post"])))


# ------------------------------------------------------------------ generators

ALPHA = ['"', "&", "<", ">", "'", "\t", "\n", "\r", "\x7f", " ", "  ", "a", "Z", "0", "\xe9", "\x80", "\x85", "\x9f",
         "\xa0", "\u2028", "\u2029", "\u3000", "\ufffd", "\U0001F600", "\U0010FFFF", "]]>", "]]", "]", ";", "&amp;",
         "&#x9;", "--", "<!--", "/>", '="', "\r\n", "x" * 10, "=", "/", "?>", "<?"]
MILD = list("abcdefghijklmnopqrstuvwxyzABCDEFGHIJKLMNOPQRSTUVWXYZ0123456789 _-.#/:")
TAGS = ["ownedFunctions", "ownedFeatures", "bodies", "ownedConstraints", "ownedExtensions", "children", "styles",
        "ownedDiagramElements", "x", "semanticResources", "ownedPropertyValues"]
PREFIXES = ["xmi", "xsi", "org.polarsys.capella.core.data.fa", "Requirements", "CapellaRequirements", "libraries",
            "a", "B", "b", "xml1", "xs", "xm", "xsj", "z9", "description_1", "notation", "re"]


def rstr(rng, alpha, lo, hi) -> str:
    return "".join(rng.choice(alpha) for _ in range(rng.randint(lo, hi)))


def rll(rng) -> int:
    return rng.choice([80, 80, 80, MAXSIZE, 0, 1, 40, 79, 81, 120, rng.randint(0, 130)])


def skeleton(etree, e, rng, max_kids=3):
    """copy of the ancestor chain of `e` (without other children) and of `e` itself (few kids)"""
    chain = [e] + list(e.iterancestors())
    chain.reverse()
    top = chain[0]
    new = etree.Element(top.tag, nsmap=top.nsmap)
    for k, v in top.items():
        new.set(k, v)
    root = cur = new
    for a in chain[1:]:
        own = {p: u for p, u in a.nsmap.items() if a.getparent().nsmap.get(p) != u}
        cur = etree.SubElement(cur, a.tag, nsmap=own or None)
        for k, v in a.items():
            cur.set(k, v)
    cur.text = e.text
    n = sum(1 for _ in e.iterdescendants())
    if n <= 25:
        for k in e:
            cur.append(copy.deepcopy(k))
    else:
        for k in list(e)[:max_kids]:
            if isinstance(k.tag, str):
                kk = etree.SubElement(cur, k.tag)
                for a, v in k.items():
                    kk.set(a, v)
    return root, cur


def synth(rng, depth=0) -> list:
    """a synthetic Capella-like tree in export format (declares its namespaces at the root)"""
    own = []
    if depth == 0:
        own = [["xmi", XMI], ["xsi", XSI]]
        for p in rng.sample(PREFIXES[2:], rng.randint(0, 4)):
            own.append([p, "http://www.polarsys.org/capella/" + p + "/" + rng.choice(["5.0.0", "6.0.0", ""])])
        rng.shuffle(own)
    attrs = []
    if depth == 0:
        attrs.append(["{%s}version" % XMI, "2.0"])
    if rng.random() < 0.6:
        attrs.append(["{%s}type" % XSI, "org.polarsys.capella.core.data.fa:" + rstr(rng, MILD[:52], 3, 20)])
    if rng.random() < 0.9:
        attrs.append(["id", rstr(rng, MILD[:62], 8, 36)])
    for _ in range(rng.randint(0, 5)):
        k = rstr(rng, MILD[:52], 1, 14)
        if k not in [a for a, _ in attrs] and k != "xmlns":
            v = rstr(rng, MILD, 0, 60) if rng.random() < 0.8 else rstr(rng, ALPHA, 0, 8)
            attrs.append([k, v])
    if rng.random() < 0.3:
        rng.shuffle(attrs)
    tag = rng.choice(TAGS)
    if depth == 0:
        tag = "{http://www.polarsys.org/capella/x/}Project" if rng.random() < 0.3 else tag
        if tag.startswith("{"):
            own.append(["px", "http://www.polarsys.org/capella/x/"])
    kids, text = [], None
    if depth < 4 and rng.random() < (0.9 if depth == 0 else 0.5):
        kids = [synth(rng, depth + 1) for _ in range(rng.randint(1, 3))]
    elif rng.random() < 0.35:
        text = rstr(rng, MILD + ALPHA, 1, 20)
        if not text.strip():
            text = "t" + text
    return [tag, own, attrs, text, None, kids]


class Cases:
    """Builds cases, runs the implementation on each immediately, queues the model requests."""

    def __init__(self, ctx: Ctx, out: Outcome):
        self.ctx, self.out = ctx, out
        self.etree, self.exs, self.core = impl()
        self.req: list[dict] = []
        self.meta: list[tuple] = []  # (stream, case-id, impl value)
        self.labels: dict[str, int] = {}

    # -- one serialisation case
    def emit(self, obj, ll: int, label: str, siblings: bool | None = None, monitor: bool = True):
        etree, exs = self.etree, self.exs
        is_tree = isinstance(obj, etree._ElementTree)
        root = obj.getroot() if is_tree else obj
        sib = is_tree if siblings is None else siblings
        flags: set = set()
        doc = export_doc(root, flags, siblings=sib)
        parent = root.getparent()
        pns = ns_items(parent) if parent is not None else []
        try:
            b = exs.serialize(obj, line_length=ll, siblings=siblings)
            iv = {"out": b.decode("utf-8")}
        except (AssertionError, ValueError, KeyError, TypeError) as e:
            b = None
            iv = {"raises": type(e).__name__}
        self.labels[label] = self.labels.get(label, 0) + 1
        key = common.sha([doc, pns, ll, sib])
        shaped = not flags and parent is None and capella_shaped(doc)
        text = iv.get("out", "")
        nontrivial = bool(re.search(r"<[^>]*\n|&[#a-z]|<!--|xmlns:|>[^<\n]", text))
        self.out.case(key, {"label": label, "ll": ll, "out": text[:160]} if self.labels[label] == 1 else None, nontrivial)
        self.cover(text, iv)
        if flags:
            self.out.hit("unrepresentable:" + ",".join(sorted(flags)))
            return
        self.req.append({"op": "xml.serialize", "ll": ll, "siblings": sib, "pns": pns,
                         "is_root": parent is None, "doc": doc})
        self.meta.append(("serialize:" + label.split(":")[0], {"label": label, "ll": ll, "doc": doc, "pns": pns, "siblings": sib}, iv))
        shaped_py = parent is None and capella_shaped(doc)
        self.n_emit = getattr(self, "n_emit", 0) + 1
        if parent is None and sib and (not label.startswith("sweep") or self.n_emit % 2 == 0):
            # the statements of the round-trip theorems, evaluated by the model on this very tree; and the
            # Lean predicate wfDoc against the harness' own reading of "Capella-shaped"
            self.req.append({"op": "xml.roundtrip", "ll": ll, "doc": doc})
            want = {"wf": shaped_py}
            if shaped_py:
                want.update({"lex": True, "build": True, "resolve": True, "parse": True, "canon_same_bytes": True})
            self.meta.append(("roundtrip:" + label.split(":")[0], {"label": label, "ll": ll, "doc": doc}, want))
        # reader tie + monitor
        if b is None:
            return
        try:
            rt = etree.fromstring(b, parser(etree))
        except etree.XMLSyntaxError as e:
            rt = None
            err = str(e)
        if parent is None:
            self.req.append({"op": "xml.parse", "s": text})
            want = {"fail": True} if rt is None else {"doc": export_doc(rt, set(), siblings=True)}
            if rt is not None and not sib:
                pass
            self.meta.append(("parse:" + label.split(":")[0], {"label": label, "s": text}, want))
        if not (monitor and shaped):
            return
        self.out.traces_validated += 1
        case = {"kind": "tree", "doc": doc, "ll": ll, "siblings": sib}
        cls = features(doc)[0]
        if rt is None:
            self.out.find(f"exs.serialize|reparse-fails|{cls}",
                          f"a Capella-shaped tree ({label}) is written as XML that lxml cannot read back: {err}", case)
            return
        b2 = exs.serialize(rt.getroottree() if sib else rt, line_length=ll, siblings=sib)
        if b2 != b:
            self.out.find(f"exs.serialize|write-parse-write-differs|{cls}",
                          f"write-parse-write is not a fixpoint for a Capella-shaped tree ({label})", case)
        # what is read back carries the same information (comments included)
        if sib and norm_doc(export_doc(rt, set(), siblings=True)) != norm_doc(doc):
            a, c = norm_doc(export_doc(rt, set(), siblings=True)), norm_doc(doc)
            what = "comment" if (a[0], a[2]) != (c[0], c[2]) else "tree"
            self.out.find(f"exs.serialize|reparse-differs|{what}",
                          f"a Capella-shaped tree ({label}) reads back differently after being written: "
                          + (f"comments {c[0] + c[2]!r} -> {a[0] + a[2]!r}" if what == "comment" else "element tree differs"), case)
        # the wrap rule, read off the characters
        if True:  # every tag name: wrap_monitor accounts for the byte surplus of non-ASCII names
            w = wrap_monitor(text, ll)
            if w:
                self.out.find("exs.serialize|wrap-rule|" + ("missing-break" if "same line" in w or "no line break" in w else "needless-break" if "without need" in w else "indent"),
                              f"{label}, line length {ll}: {w}", case)

    def cover(self, text: str, iv: dict):
        h = self.out.hit
        if "raises" in iv:
            h("raises-" + iv["raises"])
            return
        if re.search(r"<[^>!]*\n", text):
            h("attr-break")
        if "/>" in text:
            h("self-closing")
        if re.search(r"<([^\s>/]+)[^>]*></\1>", text):
            h("expanded-empty")
        if re.search(r">[^<\n][^<]*\n[^<]*</", text):
            h("multiline-text")
        if re.search(r"&(quot|amp|lt|gt);", text):
            h("entity-named")
        if "&#x" in text:
            h("entity-hex")
        if "<!--" in text:
            h("comment")

    # -- generators
    def corpus_trees(self):
        etree = self.etree
        for p in corpus_files(self.ctx):
            yield p, etree.parse(str(p), parser(etree))

    def gen_sweeps(self, pool, n_pairs: int):
        rng, etree = self.ctx.rng, self.etree
        for _ in range(n_pairs):
            e = rng.choice(pool)
            root, new = skeleton(etree, e, rng)
            tgt = rng.choice([new, new, root])
            keys = list(tgt.keys())
            if not keys:
                continue
            k = rng.choice(keys[:-1] or keys)
            ll = rng.choice([80, 80, 80, 60, 100])
            pad = rng.choice(["a", "a", "\xe9", "&", '"', " "])
            for L in range(0, 101):
                tgt.set(k, pad * L)
                self.emit(root.getroottree(), ll, "sweep:attr-length")

    def gen_chars(self, pool, n: int):
        rng, etree = self.ctx.rng, self.etree
        for _ in range(n):
            e = rng.choice(pool)
            root, new = skeleton(etree, e, rng)
            what = rng.random()
            s = rstr(rng, ALPHA + MILD[:10], 1, 10)
            if what < 0.5 and new.keys():
                new.set(rng.choice(new.keys()), s)
                label = "chars:attr"
            elif what < 0.6:
                new.set("name", s)
                label = "chars:attr"
            else:
                leaf = etree.SubElement(new, rng.choice(["bodies", "semanticResources", "languages", rng.choice(TAGS)]))
                leaf.text = s if s.strip() else "x" + s
                label = "chars:text"
            self.emit(root.getroottree(), rll(rng), label)

    def gen_comments(self, pool, n: int):
        rng, etree = self.ctx.rng, self.etree
        alpha = [a for a in ALPHA if "-" not in a] + MILD[:20]
        for _ in range(n):
            e = rng.choice(pool)
            root, _ = skeleton(etree, e.getroottree().getroot(), rng)
            for _ in range(rng.randint(0, 2)):
                root.addprevious(etree.Comment(rng.choice(["Capella_Version_5.0.0", rstr(rng, alpha, 0, 8)])))
            for _ in range(rng.randint(0, 2)):
                root.addnext(etree.Comment(rstr(rng, alpha, 0, 8)))
            self.emit(root.getroottree(), rll(rng), "comments:around-root")
            self.emit(root, rll(rng), "comments:siblings-off")

    def gen_namespaces(self, pool, n: int):
        rng, etree = self.ctx.rng, self.etree
        for _ in range(n):
            e = rng.choice(pool)
            top = e.getroottree().getroot()
            nsmap = dict(top.nsmap)
            variant = rng.choice(["add", "remove", "child-decl", "ns-attr", "same-uri", "shadow", "default", "amp-uri", "fresh"])
            label = "ns:" + variant
            if variant == "add":
                for p in rng.sample(PREFIXES, 3):
                    nsmap.setdefault(p, "http://example.org/" + p)
            elif variant == "remove":
                used = {n.split("}")[0][1:] for x in top.iter() if isinstance(x.tag, str) for n in [x.tag, *x.keys()] if n.startswith("{")}
                nsmap = {p: u for p, u in nsmap.items() if u in used or rng.random() < 0.3}
            elif variant == "same-uri":
                nsmap["zz1"] = nsmap["zz0"] = "http://example.org/same"
            elif variant == "default":
                nsmap[None] = "http://example.org/default"
            elif variant == "amp-uri":
                nsmap["amp"] = "http://example.org/?a=1&b=2"
            elif variant == "fresh":
                nsmap = {p: "http://example.org/" + p for p in rng.sample(PREFIXES, rng.randint(1, 8))}
                nsmap.update({p: u for p, u in top.nsmap.items() if p in ("xmi", "xsi") or u in top.tag})
            root = etree.Element(top.tag, nsmap=nsmap)
            for k, v in top.items():
                root.set(k, v)
            kid = etree.SubElement(root, "ownedKid")
            if variant == "same-uri":
                kid.set("{http://example.org/same}attr", "v")
            if variant == "child-decl":
                k2 = etree.SubElement(kid, "{http://example.org/new}thing", nsmap={"nw": "http://example.org/new", "AA": "http://example.org/aa"})
                etree.SubElement(k2, "{http://example.org/new}deeper").set("{http://example.org/aa}k", "v")
            if variant == "ns-attr":
                kid.set("{%s}id" % XMI, "i") if "xmi" in nsmap else None
                kid.set("plain", "p")
                kid.set("{%s}type" % XSI, "t:T") if "xsi" in nsmap else None
                kid.set("{http://example.org/auto}gen", "g")
                kid.set("{%s}version" % XMI, "2.0") if "xmi" in nsmap else None
            if variant == "shadow" and nsmap:
                p = rng.choice([k for k in nsmap if k])
                etree.SubElement(kid, "{http://example.org/shadow}s", nsmap={p: "http://example.org/shadow"})
            self.emit(root.getroottree(), rll(rng), label)

    def gen_unshaped(self, pool, n: int):
        rng, etree = self.ctx.rng, self.etree
        for _ in range(n):
            e = rng.choice(pool)
            root, new = skeleton(etree, e, rng)
            variant = rng.choice(["tail", "text+kids", "empty-text", "blank-text", "bodies", "root-tail", "kid-tails", "comment-child"])
            s = rstr(rng, ALPHA + MILD[:10], 1, 8)
            if variant == "tail":
                new.tail = s
                etree.SubElement(new, "k1")
                etree.SubElement(new, "k2")
            elif variant == "text+kids":
                new.text = s
                etree.SubElement(new, "k1")
                etree.SubElement(new, "k2").tail = "zz"
            elif variant == "empty-text":
                etree.SubElement(new, "leaf").text = ""
            elif variant == "blank-text":
                etree.SubElement(new, "leaf").text = rng.choice([" ", "\n ", "\t", "\xa0", "\x85", "\u2028 ", "\u3000"])
            elif variant == "bodies":
                b = etree.SubElement(new, rng.choice(["bodies", "{%s}bodies" % XMI if "xmi" in root.nsmap else "bodies"]))
                b.text = rng.choice([None, "", " ", s])
            elif variant == "root-tail":
                root.tail = s
            elif variant == "kid-tails":
                new.text = rng.choice([None, s])
                new.tail = rng.choice([None, s, "a\nb"])
                for _ in range(rng.randint(1, 3)):
                    etree.SubElement(new, "k").tail = rng.choice([None, "t", " "])
            elif variant == "comment-child":
                new.append(etree.Comment("inner"))
            self.emit(root.getroottree(), rll(rng), "unshaped:" + variant)

    def gen_synth(self, n: int):
        rng, etree = self.ctx.rng, self.etree
        for _ in range(n):
            d = {"pre": [], "root": synth(rng), "post": []}
            if rng.random() < 0.3:
                d["pre"].append(["Capella_Version_6.0.0", None])
            root = build_doc(etree, d)
            self.emit(root.getroottree(), rll(rng), "synth:random-tree")

    def gen_nonascii_names(self, n: int):
        """tag and attribute names outside ASCII (legal XML names; Capella has none): the writer counts the tag in
        UTF-8 bytes and everything else in code points - modelled as coded, compared byte for byte, no monitor"""
        rng, etree = self.ctx.rng, self.etree
        names = ["\xe9l\xe9ment", "\u00fcber", "\u6807\u7b7e", "\u0436\u0443\u043a", "\u00e9" * 8, "a\u00e9", "\U00010400\U00010401", "\u0e01\u0e02",
                 "x\u00b7y", "\u03b1\u03b2\u03b3"]
        for _ in range(n):
            root = etree.Element(rng.choice(names + ["root"]), nsmap={"xmi": XMI, "xsi": XSI})
            cur = root
            for _ in range(rng.randint(0, 3)):
                cur = etree.SubElement(cur, rng.choice(names + TAGS[:3]))
                for _ in range(rng.randint(0, 4)):
                    try:
                        cur.set(rng.choice(names + ["id", "name"]), rstr(rng, MILD + ["\xe9", "\u20ac", "\U0001F600"], 0, 30))
                    except ValueError:
                        pass
            for _ in range(rng.randint(0, 4)):
                root.set(rng.choice(names + ["id", "name"]), rstr(rng, MILD + ["\xe9"], 0, 30))
            self.emit(root.getroottree(), rng.choice([20, 40, 60, 80, 80, MAXSIZE]), "nonascii:names")

    def gen_subelems(self, pool, n: int):
        rng = self.ctx.rng
        for _ in range(n):
            e = rng.choice(pool)
            if sum(1 for _ in e.iterdescendants()) > 60:
                continue
            self.emit(e, rll(rng), "subelement:serialize", monitor=False)


# ------------------------------------------------------------------ the run


def run(ctx: Ctx) -> Outcome:
    etree, exs, core = impl()
    for t in sorted(exs.ALWAYS_EXPANDED_TAGS):  # whatever the code expands today is generated, too
        if t not in TAGS:
            TAGS.append(t)
    out = Outcome(rule=RULE)
    cs = Cases(ctx, out)
    rng = ctx.rng

    # ---- (a) corpus fragments: disk == write_xml == model
    pool = []
    for p, tree in cs.corpus_trees():
        root = tree.getroot()
        kind = frag_kind(core, p)
        mf = core.ModelFile.__new__(core.ModelFile)
        mf.filename = pathlib.PurePosixPath(p.name)
        mf.root = root
        buf = io.BytesIO()
        mf.write_xml(buf)
        b, disk = buf.getvalue(), p.read_bytes()
        rel = str(p.relative_to(common.REPO))
        out.case(("corpus", rel), {"file": rel, "bytes": len(b)} if len(out.samples) < 2 else None, True)
        out.traces_validated += 1
        out.hit("corpus-" + kind)
        if b != disk:
            out.find(f"ModelFile.write_xml|bytes-differ|{p.suffix}", f"re-serialising {rel} changes its bytes",
                     {"kind": "file", "path": rel})
        flags: set = set()
        doc = export_doc(root, flags)
        if flags:
            out.hit("unrepresentable:" + ",".join(sorted(flags)))
            continue
        cs.req.append({"op": "xml.write", "kind": kind, "doc": doc})
        cs.meta.append(("corpus.write_xml", {"file": rel}, {"out": b.decode("utf-8")}))
        # the same tree under every file suffix the loader accepts: Capella writes a fragment file exactly like the
        # main file of its kind, so for a suffix of the same kind the bytes on disk are the expected output
        if len(b) < 120_000 or ctx.thorough:
            for sfx in sorted(core.VALID_EXTS):
                mf.filename = pathlib.PurePosixPath("x" + sfx)
                buf = io.BytesIO()
                mf.write_xml(buf)
                bs = buf.getvalue()
                out.case(("corpus-suffix", rel, sfx), None, True)
                same_kind = expected_line_length(sfx) == expected_line_length(p.suffix)
                if same_kind and bs != disk:
                    out.find(f"ModelFile.write_xml|bytes-differ-by-suffix|{sfx}",
                             f"the tree of {rel} written as a '{sfx}' file differs from the bytes Capella wrote for it "
                             f"(line length must be {expected_line_length(sfx) if expected_line_length(sfx) == 80 else 'unbounded'})",
                             {"kind": "file", "path": rel, "suffix": sfx})
                elif not same_kind and kind != "other":
                    w = wrap_monitor(bs.decode("utf-8"), expected_line_length(sfx))
                    if w:
                        out.find(f"ModelFile.write_xml|wrap-rule-by-suffix|{sfx}", f"{rel} written as '{sfx}': {w}",
                                 {"kind": "file", "path": rel, "suffix": sfx})
                cs.req.append({"op": "xml.write", "suffix": sfx, "doc": doc})
                cs.meta.append(("corpus.write_xml.suffix", {"file": rel, "suffix": sfx}, {"out": bs.decode("utf-8")}))
            mf.filename = pathlib.PurePosixPath(p.name)
        if len(b) < 400_000 or ctx.thorough:
            cs.req.append({"op": "xml.parse", "s": disk.decode("utf-8")})
            cs.meta.append(("corpus.parse", {"file": rel}, {"doc": doc}))
        if kind == "semantic" or len(pool) < 200:
            pool.extend([x for x in root.iter() if isinstance(x.tag, str)][: ctx.pick(1500, 20000)])

    # ---- (b) derived trees
    cs.gen_sweeps(pool, ctx.pick(30, 150))
    cs.gen_chars(pool, ctx.pick(1500, 10000))
    cs.gen_comments(pool, ctx.pick(150, 800))
    cs.gen_namespaces(pool, ctx.pick(400, 3000))
    cs.gen_unshaped(pool, ctx.pick(300, 3000))
    cs.gen_synth(ctx.pick(800, 6000))
    cs.gen_subelems(pool, ctx.pick(300, 3000))
    cs.gen_nonascii_names(ctx.pick(250, 2500))
    # round 5: the widened round-trip domain, comments/PIs inside elements, the start-tag column formula, characters
    import props.xml_wide as xml_wide

    xml_wide.generate(cs, pool)

    # ---- (c) _escape
    import inspect

    content_pat = inspect.signature(exs._serialize_text).parameters["pattern"].default
    pats = {"text": exs.P_ESCAPE_TEXT, "comments": exs.P_ESCAPE_COMMENTS, "gt": re.compile(r">"), "content": content_pat}
    cps = list(range(0x300)) + [0x2028, 0x2029, 0x3000, 0xD7FF, 0xE000, 0xFFFD, 0xFFFE, 0xFFFF, 0x10000, 0x1F600, 0x10FFFF]
    cps += [rng.choice([rng.randint(0x300, 0xD7FF), rng.randint(0xE000, 0x10FFFF)]) for _ in range(ctx.pick(200, 3000))]
    strings = [chr(c) for c in cps] + [rstr(rng, ALPHA + MILD[:8] + [chr(c) for c in range(32)], 0, 12)
                                        for _ in range(ctx.pick(400, 6000))]

    def esc(s, pat):
        try:
            return {"out": exs._escape(s, pattern=pat)}
        except KeyError:
            return {"raises": "KeyError"}

    ref = re.compile(r"&(?:#x([0-9A-F]+)|(quot|amp|lt|gt));")
    names = {"quot": '"', "amp": "&", "lt": "<", "gt": ">"}
    for s in strings:
        for cls, pat in pats.items():
            iv = esc(s, pat)
            cs.req.append({"op": "xml.escape", "s": s, "cls": cls})
            cs.meta.append(("escape." + cls, {"s": s, "cls": cls}, iv))
            out.case(("esc", cls, s), None, any(pat.search(ch) for ch in s))
        # monitor: what _escape wrote for text decodes back, and is boundary-safe
        o = exs._escape(s)
        back = ref.sub(lambda m: chr(int(m.group(1), 16)) if m.group(1) else names[m.group(2)], o)
        out.traces_validated += 1
        if back != s or re.search(r'["<\x00-\x1f\x7f]', o) or re.search(r"&(?!(#x[0-9A-F]+|quot|amp|lt|gt);)", o):
            out.find("exs._escape|not-invertible-or-unsafe", f"_escape({s!r}) = {o!r}", {"kind": "escape", "s": s})
        oc = exs._escape(s, pattern=content_pat)
        backc = ref.sub(lambda m: chr(int(m.group(1), 16)) if m.group(1) else names[m.group(2)], oc)
        if backc != s or "]]>" in oc or re.search(r'[<\x00-\x1f\x7f]', oc):
            out.find("exs._escape|content-not-invertible-or-unsafe", f"text {s!r} is written as {oc!r}", {"kind": "escape", "s": s})
    cs.req.append({"op": "xml.classes", "cps": cps})
    cs.meta.append(("classes", {"cps": len(cps)}, {
        "text": [c for c in cps if exs.P_ESCAPE_TEXT.fullmatch(chr(c))],
        "comments": [c for c in cps if exs.P_ESCAPE_COMMENTS.fullmatch(chr(c))],
        "space": [c for c in cps if chr(c).isspace()]}))
    # the UTF-8 boundary: `str.encode` against the model's encoder, the tag width against its length in characters
    enc = [chr(c) for c in (0, 0x7F, 0x80, 0x7FF, 0x800, 0xD7FF, 0xE000, 0xFFFF, 0x10000, 0x10FFFF)] + \
        ["".join(chr(rng.choice([rng.randint(0, 0x7F), rng.randint(0x80, 0x7FF), rng.randint(0x800, 0xD7FF), rng.randint(0xE000, 0xFFFF),
                                  rng.randint(0x10000, 0x10FFFF)])) for _ in range(rng.randint(0, 12))) for _ in range(ctx.pick(300, 3000))]
    for s_ in enc:
        b_ = s_.encode("utf-8")
        cs.req.append({"op": "xml.encode", "s": s_})
        cs.meta.append(("encode", {"s": s_}, {"bytes": list(b_), "width": len(b_), "chars": len(s_)}))
        out.case(("enc", s_), None, len(b_) != len(s_))
    for v, prec in [("5.0.0", 1), ("6.1.2", 1), ("6.1.2", 2), ("1.4", 3), ("7", 1), ("", 1), ("1.", 2), ("..", 1),
                    ("1..2", 2), ("10.20.30.40", 2), ("a.b.c", 1), (".5", 1)] + \
                   [(rstr(rng, list("0123456789..ab"), 0, 9), rng.randint(1, 4)) for _ in range(ctx.pick(100, 1000))]:
        cs.req.append({"op": "xml.roundVersion", "v": v, "prec": prec})
        cs.meta.append(("round_version", {"v": v, "prec": prec}, core._round_version(v, prec)))
        out.case(("rv", v, prec), None, "." in v)

    # ---- monitor: load -> save, byte for byte
    monitor_load_save(ctx, out)
    monitor_fragmented(ctx, out)

    # ---- namespace recomputation before save (update_namespaces): tree-level correspondence streams, and API-level
    # histories that remove the last / add the first user of a namespace (declared == used by raw scan; save ->
    # reload -> save keeps every byte)
    import props.xml_ns as xml_ns

    ns_cases = xml_ns.tree_level_cases(ctx, out)
    monitor_ns_histories(ctx, out, ns_cases)

    # ---- differential comparison
    if os.environ.get("VERIF_NO_MODEL") != "1":
        answers = run_model(cs.req, driver="Xml")
        for (stream, case, iv), ans in zip(cs.meta, answers):
            mv = ans.get("ok", {"err": ans.get("err")})
            out.hit(stream)
            if stream.startswith("roundtrip:") and isinstance(mv, dict) and mv.get("wf") is False and iv == {"wf": False}:
                continue  # outside the theorems' domain: nothing is claimed
            if mv != json.loads(json.dumps(iv)):
                c = dict(case)
                if "doc" in c and len(json.dumps(c["doc"])) > 4000:
                    c["doc"] = "(large)"
                if "s" in c and len(c["s"]) > 2000:
                    c["s"] = c["s"][:2000] + "..."
                short = lambda v: (json.dumps(v, ensure_ascii=False)[:600])  # noqa: E731
                out.disagree(stream, c, short(iv), short(mv))
        xml_ns.compare_all(out, ns_cases, run_model([c[0] for c in ns_cases], driver="Xml"))
    out.extra["case_labels"] = cs.labels
    out.extra["alphabet"] = [a.encode("unicode_escape").decode("ascii") for a in ALPHA]
    out.extra["corpus_files"] = len(corpus_files(ctx))
    return out


def monitor_load_save(ctx: Ctx, out: Outcome) -> None:
    """Load every corpus model from a scratch copy, save it untouched, compare every file with the original."""
    os.environ.setdefault("XDG_CACHE_HOME", str(ctx.scratch / "xdg"))
    if str(common.REPO) not in sys.path:
        sys.path.insert(0, str(common.REPO))
    import logging

    import capellambse

    logging.getLogger("capellambse").setLevel(logging.CRITICAL)
    for aird in corpus_models(ctx):
        rel = str(aird.relative_to(common.REPO))
        work = ctx.scratch / "ls" / common.sha(rel)
        shutil.copytree(aird.parent, work / aird.parent.name)
        for extra in ("Library Test",):
            if aird.parent.name == "Library Project":
                shutil.copytree(aird.parent.parent / extra, work / extra)
        res = {"Library Test": str(work / "Library Test")} if aird.parent.name == "Library Project" else {}
        try:
            m = capellambse.MelodyModel(str(work / aird.parent.name / aird.name), resources=res)
            m.save()
        except Exception as e:  # noqa: BLE001
            out.find("MelodyModel.save|load-save-raises", f"load+save of untouched {rel} raised {type(e).__name__}: {e}",
                     {"kind": "model", "path": rel})
            continue
        for f in sorted(aird.parent.iterdir()):
            if not f.is_file():
                continue
            out.case(("load-save", rel, f.name), None, True)
            out.traces_validated += 1
            got = (work / aird.parent.name / f.name).read_bytes()
            if got != f.read_bytes():
                out.find(f"MelodyModel.save|bytes-differ|{f.suffix}",
                         f"saving the untouched model {rel} changed {f.name}", {"kind": "model", "path": rel})
        extra_files = {p.name for p in (work / aird.parent.name).iterdir()} - {p.name for p in aird.parent.iterdir()}
        if extra_files:
            out.find("MelodyModel.save|extra-files", f"saving {rel} created {sorted(extra_files)}", {"kind": "model", "path": rel})
        out.hit("load-save-model")
        shutil.rmtree(work, ignore_errors=True)


def _ns_models(ctx: Ctx) -> list:
    """(aird, histories, rounds) for the API-level namespace histories"""
    data = common.REPO / "tests" / "data"
    ms = [(data / "writemodel" / "WriteTestModel.aird", ctx.pick(4, 12), 4),
          (data / "melodymodel" / "5_0" / "Melody Model Test.aird", 1, ctx.pick(3, 6))]
    if ctx.thorough:
        ms += [(data / "melodymodel" / "5_2" / "Melody Model Test.aird", 1, 6),
               (data / "melodymodel" / "6_0" / "Melody Model Test.aird", 1, 6),
               (data / "parser" / "TestItems.aird", 3, 4), (data / "filtering" / "Filtered Project.aird", 3, 4),
               (data / "Library Project" / "Library Project.aird", 2, 4)]
    return ms


def _ns_env(ctx: Ctx):
    os.environ.setdefault("XDG_CACHE_HOME", str(ctx.scratch / "xdg"))
    import props.c02 as c02

    capellambse = c02.setup()
    return capellambse, (lambda p: c02.load(capellambse, p)), c02.fresh_copy


def monitor_ns_histories(ctx: Ctx, out: Outcome, cases: list) -> None:
    """API-level histories that remove every user of a type prefix / add the first user of an undeclared one, a save
    after each round (harness/props/xml_ns.py): declared prefixes == prefixes in use (raw scan of the written file),
    save -> reload -> save byte for byte; the in-memory trees before / after save() go to the model (`ns.api`)."""
    import props.xml_ns as xml_ns

    capellambse, loader_fn, fresh_copy = _ns_env(ctx)
    for aird, n, rounds in _ns_models(ctx):
        for hi in range(n):
            xml_ns.ns_api_history(ctx, out, capellambse, loader_fn, aird, hi, cases, rounds, fresh_copy)


def monitor_fragmented(ctx: Ctx, out: Outcome) -> None:
    """Fragmented layouts (semantic fragment files, optionally .airdfragment): harness/fragmenter.py cuts a corpus
    model into fragments (independently of capellambse, written with lxml), the model is loaded and saved; every
    written file must obey the line length of its suffix (wrap rule read off the characters), and saving what was
    loaded from those files again must not change a byte."""
    import logging

    import capellambse
    import fragmenter

    logging.getLogger("capellambse").setLevel(logging.CRITICAL)
    data = common.REPO / "tests" / "data"
    srcs = [data / "decl" / "empty_project_52" / "empty_project_52.aird", data / "writemodel" / "WriteTestModel.aird"]
    if ctx.thorough:
        srcs += [data / "parser" / "TestItems.aird", data / "pvmt" / "PVMTTest.aird", data / "filtering" / "Filtered Project.aird"]
    for si, aird in enumerate(srcs):
        rel = str(aird.relative_to(common.REPO))
        main, _ = fragmenter.find_main(aird)
        cands = [c for c in fragmenter.candidate_cut_points(aird.parent / main) if 2 <= c[2] <= 400 and c[1] <= 5]
        if not cands:
            continue
        for variant in range(ctx.pick(1, 3)):
            picks = ctx.rng.sample(cands, min(len(cands), ctx.rng.randint(1, 3)))
            exts = [".capellafragment", ".melodyfragment"]
            cuts = [(ident, f"fragments/f{i}{ctx.rng.choice(exts)}") for i, (ident, _, _) in enumerate(picks)]
            dst = ctx.scratch / "frag" / f"{si}-{variant}"
            case = {"kind": "fragmented", "path": rel, "cuts": cuts}
            try:
                lay = fragmenter.fragment(aird, dst, cuts, airdfragments=bool(variant % 2))
                m = capellambse.MelodyModel(str(lay.aird))
                m.save()
            except Exception as e:  # noqa: BLE001
                out.hit("fragmented-skipped:" + type(e).__name__)
                shutil.rmtree(dst, ignore_errors=True)
                continue
            pdir = lay.aird.parent
            first = {f.relative_to(pdir): f.read_bytes() for f in pdir.rglob("*") if f.is_file()}
            for f, bts in first.items():
                if f.suffix not in {".capella", ".capellafragment", ".melodyfragment", ".melodymodeller", ".aird", ".airdfragment", ".afm"}:
                    continue
                out.case(("fragmented", rel, variant, str(f)), None, True)
                out.traces_validated += 1
                w = wrap_monitor(bts.decode("utf-8"), expected_line_length(f.suffix))
                if w:
                    out.find(f"MelodyModel.save|wrap-rule-by-suffix|{f.suffix}",
                             f"fragmented copy of {rel}: {f} is not written with the line length of its kind: {w}", case)
            m2 = capellambse.MelodyModel(str(lay.aird))
            m2.save()
            for f, bts in first.items():
                if (pdir / f).read_bytes() != bts:
                    out.find(f"MelodyModel.save|bytes-differ|{f.suffix}",
                             f"fragmented copy of {rel}: loading and saving again changed {f}", case)
            out.hit("fragmented-layout")
            shutil.rmtree(dst, ignore_errors=True)


def replay(ctx: Ctx, case: dict):
    etree, exs, core = impl()
    if case["kind"] == "ns-api-history":
        import props.xml_ns as xml_ns

        capellambse, loader_fn, fresh_copy = _ns_env(ctx)
        return xml_ns.replay_ns_api(ctx, case, capellambse, loader_fn, fresh_copy)
    if case["kind"] == "ns-corpus":
        import props.xml_ns as xml_ns

        o = Outcome()
        xml_ns.gen_corpus(Ctx(ctx.prop, "thorough", ctx.seed), o, [])
        for f in o.findings:
            if f.replay.get("path") == case["path"]:
                return f.what
        return None
    if case["kind"] == "fragmented":
        o = Outcome()
        monitor_fragmented(ctx, o)
        for f in o.findings:
            return f.what
        return None
    if case["kind"] in ("wide", "stag", "inner"):
        import props.xml_wide as xml_wide

        return xml_wide.replay_case(ctx, case)
    if case["kind"] == "tree":
        root = build_doc(etree, case["doc"])
        sib, ll = case["siblings"], case["ll"]
        b = exs.serialize(root.getroottree() if sib else root, line_length=ll, siblings=sib)
        try:
            rt = etree.fromstring(b, parser(etree))
        except etree.XMLSyntaxError as e:
            return f"written XML cannot be read back: {e}; bytes: {b[:300]!r}"
        b2 = exs.serialize(rt.getroottree() if sib else rt, line_length=ll, siblings=sib)
        if b2 != b:
            return f"write-parse-write differs: {b[:200]!r} vs {b2[:200]!r}"
        if sib and norm_doc(export_doc(rt, set(), siblings=True)) != norm_doc(case["doc"]):
            return f"reads back differently: {b[:300]!r}"
        w = wrap_monitor(b.decode("utf-8"), ll)
        return f"wrap rule: {w}" if w else None
    if case["kind"] == "file":
        p = common.REPO / case["path"]
        tree = etree.parse(str(p), parser(etree))
        mf = core.ModelFile.__new__(core.ModelFile)
        mf.filename = pathlib.PurePosixPath("x" + case["suffix"]) if case.get("suffix") else pathlib.PurePosixPath(p.name)
        mf.root = tree.getroot()
        buf = io.BytesIO()
        mf.write_xml(buf)
        if case.get("suffix") and expected_line_length(case["suffix"]) != expected_line_length(p.suffix):
            w = wrap_monitor(buf.getvalue().decode("utf-8"), expected_line_length(case["suffix"]))
            return f"{case['path']} written as '{case['suffix']}': {w}" if w else None
        return None if buf.getvalue() == p.read_bytes() else (
            f"re-serialising {case['path']}" + (f" as a '{case['suffix']}' file" if case.get("suffix") else "") + " changes its bytes")
    if case["kind"] == "escape":
        import inspect

        o = exs._escape(case["s"])
        if re.search(r'["<\x00-\x1f\x7f]', o):
            return f"_escape({case['s']!r}) = {o!r} contains a raw delimiter/control character"
        oc = exs._escape(case["s"], pattern=inspect.signature(exs._serialize_text).parameters["pattern"].default)
        if "]]>" in oc or re.search(r'[<\x00-\x1f\x7f]', oc):
            return f"text {case['s']!r} is written as {oc!r}"
        return None
    if case["kind"] == "model":
        o = Outcome()
        c2 = Ctx(ctx.prop, "thorough", ctx.seed)
        try:
            monitor_load_save(c2, o)
        finally:
            c2.cleanup()
        for f in o.findings:
            if f.replay.get("path") == case["path"]:
                return f.what
        return None
    return None
