"""C10 — queries return exactly what a brute-force scan of the model would.

Monitor: on scratch copies of every corpus model (loaded state, and a state reached by a few random
API edits, and states after `save()` in the same session — with and without a replacement of fragment roots)
compare with independent raw-lxml scans:
  * `model.search` by class / full type string / short name / several / none, with and without `below=`;
  * `model.find_references(y)` for every object y against a reverse index built by evaluating every
    relation of every element without any pre-filter (tuple-level soundness; completeness for the
    link-storing accessor kinds), plus the raw link-shape fact the pre-filter relies on;
  * every back-reference accessor of every object against the same reverse index;
  * list filters: for lists taken from the model, every filterable attribute advertised by dir(list)
    and values occurring in the list: `by_a(v)` and `exclude_as(v)` must be disjoint, complementary,
    order-preserving sub-lists; `single=True` must raise on 0 or several matches; `-`, `in`, `filter`, `map`.
Correspondence: the Lean model `Capella.Query` (type index search, ancestors, XPath pre-filter +
relation evaluation, `_ListFilter.ismatch`, `single`, `__sub__`, `map`) on exports of the same states.
"""

from __future__ import annotations

import collections
import enum
import operator
import os

import c10lists
import c10tables
import common
from common import Ctx, Outcome
from props import c11 as base

DRIVERS = ["Query", "QueryList", "QueryTable"]
TABLES = True
LEVEL = "proof"
RULE = ("cases are (model, state, query) triples enumerated from the live model: every registered class / full type "
        "string / short name occurring in the model (+ unknown ones), `below` anchors sampled from elements with "
        "children; every object as find_references target; every (object, back-reference attribute); for lists "
        "(full search, per-type searches, relation values) every filterable attribute from dir(list) x values occurring "
        "(+ one absent value). distinct = distinct (model, state, query descriptor); non-trivial = the expected answer "
        "is non-empty or the query has a `below`/value that selects a strict subset")
ASSUMPTIONS = [
    "helpers.xtype_of and ModelElement.from_model are used by the oracle to name the type / wrapper of a raw element",
    "link-storing relations are those whose accessor is LinkAccessor, AttrProxyAccessor or PhysicalLinkEndsAccessor "
    "(or an Index/Typecast/Alias wrapper around one); containment and derived relations (DirectProxy, RoleTag, "
    "AttributeMatcher, reqif relation/attribute accessors, diagrams) are judged for soundness only",
    "short type names denote registered wrapper classes; an unregistered short name must raise ValueError",
    "for the by/exclude monitor lists longer than 1500 (quick) / 6000 (thorough) elements are replaced by a window of that size at a random offset",
]
TRUSTED = ["C10: lxml iteration order = document order; Python `is` identity of lxml proxies kept alive by the harness"]
MANIFEST = dict(
    text=("Lean model of type search over the hand-maintained type index with optional ancestor test, of find_references "
          "as XPath pre-filter followed by relation evaluation, of back-reference accessors, and of list filters "
          "(_ListFilter.ismatch as coded and as repaired, single, __sub__, map). Theorems: search is sound and complete "
          "w.r.t. a full scan under index consistency; the pre-filter never drops a true reference (every link contains "
          "'#'+id), so find_references equals the brute-force evaluation; back-references equal the scan; by/exclude split "
          "every list into disjoint, complementary, order-preserving parts (interleaving reconstruction) — for the coded "
          "ismatch only when every element has the attribute (witness otherwise); single fails on 0 or several matches. "
          "Tied to /repo by exporting real model states (incl. the implementation's own type index) to the model and by an "
          "independent brute-force monitor over all corpus models, also after random edits and — in the same session — after "
          "save() with and without a replacement of fragment roots (model of update_namespaces: the rebuilt index is exact, "
          "search after save equals the scan; the rebuilt index is compared bucket by bucket)."),
    design_ref="§6 C10",
    note=("Trusted: Lean kernel; lxml document order; helpers.xtype_of/from_model to name element types in the oracle. "
          "Relation evaluation itself (follow_link etc.) is C05's subject and is used by both sides of the find_references comparison."),
    technique="Lean 4 proof (list induction, sublist/interleaving, infix reasoning on link strings) + brute-force differential monitor on all corpus models and edited states",
)

XSI = base.XSI
MAXLIST = 1500
ORPHAN = 10**9


def guarded(out: Outcome, section: str, rep: dict, fn, *a, **k):
    """Run one part of the check; if evaluating what the implementation returned blows up (an unexpected
    type, a missing attribute, ...) that is a finding with a replay, never a crash of the harness."""
    try:
        return fn(*a, **k)
    except common.InfraError:
        raise
    except Exception as e:  # noqa: BLE001
        import traceback

        tb = traceback.extract_tb(e.__traceback__)
        where = next((f"{fr.name}:{fr.lineno}" for fr in reversed(tb) if fr.filename.endswith("c10.py")), "?")
        out.find(f"{section}|unexpected-result|{type(e).__name__}",
                 f"[{rep.get('model')}/{rep.get('state')}] evaluating the result of {section} failed with {type(e).__name__}: "
                 f"{str(e)[:160]} (at {where}) — the implementation returned something a query must not return",
                 dict(rep, guard=section))
        return None


# ------------------------------------------------------------------ raw scans (oracle side)


def sem_elements(model) -> list:
    out = []
    for f in model._loader.trees.values():
        if f.fragment_type.name == "SEMANTIC":
            out += [e for e in f.root.iter() if isinstance(e.tag, str)]
    return out


def nonvisual_elements(model) -> list:
    out = []
    for f in model._loader.trees.values():
        if f.fragment_type.name != "VISUAL":
            out += [e for e in f.root.iter() if isinstance(e.tag, str)]
    return out


def raw_descendants(model, anchor) -> set:
    """ids of strict descendants, following fragment placeholders (href children)."""
    ld = model._loader
    seen = set()
    stack = [anchor]
    while stack:
        cur = stack.pop()
        for ch in cur:
            if not isinstance(ch.tag, str):
                continue
            tgt = ch
            href = ch.get("href")
            if href and ch.get("id") is None:
                try:
                    tgt = ld.follow_link(ch, href)
                except Exception:  # noqa: BLE001
                    tgt = ch
            if id(tgt) in seen:
                continue
            seen.add(id(tgt))
            if tgt is not ch:
                seen.add(id(ch))
            stack.append(tgt)
    return seen


def descriptors(model) -> list:
    from capellambse import aird

    return list(aird.enumerate_descriptors(model._loader))


# ------------------------------------------------------------------ A. search


def check_search(ctx: Ctx, out: Outcome, model, label: str, state: str, keep: list, only: dict | None = None) -> None:
    from capellambse import helpers
    from capellambse.model import _xtype

    rng = ctx.rng
    elems = sem_elements(model)
    keep.append(elems)
    xt_of = {id(e): helpers.xtype_of(e) for e in elems}
    # a placeholder (href) stands for a fragment root that is found in its own file: not an object of its own
    typed = [e for e in elems if xt_of[id(e)] is not None and "href" not in e.attrib]
    desc = descriptors(model)
    keep.append(desc)
    handlers = _xtype.XTYPE_HANDLERS[None]
    present = sorted({xt_of[id(e)] for e in typed})
    shorts = sorted({x.split(":")[-1] for x in present})
    anchors = [e for e in typed if len(e) and e.get("id")]

    def run_query(args, kind: str, expect_ids: set | None, expect_exc=None, below=None):
        desc_txt = [a if isinstance(a, str) else a.__name__ for a in args]
        key = (label, state, "search", kind, tuple(desc_txt), below.get("id") if below is not None else None)
        try:
            bobj = model.by_uuid(below.get("id")) if below is not None else None
            res = model.search(*args, below=bobj)
            got = [id(e) for e in res._elements]
            exc = None
        except Exception as e:  # noqa: BLE001
            got, exc = None, type(e).__name__
        nontrivial = bool(expect_ids) or below is not None
        out.case(key, {"model": label, "search": desc_txt, "kind": kind, "below": key[-1],
                       "expected": len(expect_ids or ())} if len(out.samples) < 2 else None, nontrivial)
        out.hit(f"search:{kind}" + (":below" if below is not None else ""))
        rep = {"kind": "search", "model": label, "state": state, "args": desc_txt, "argkind": kind,
               "below": below.get("id") if below is not None else None}
        if expect_exc is not None:
            if exc != expect_exc:
                out.find(f"search|{kind}|expected-{expect_exc}", f"[{label}/{state}] search{tuple(desc_txt)} should raise {expect_exc}, got {exc or 'a result'}", rep)
            return
        if exc is not None:
            out.find(f"search|{kind}|raises-{exc}", f"[{label}/{state}] search{tuple(desc_txt)} raised {exc}", rep)
            return
        gs = set(got)
        if len(gs) != len(got):
            out.find(f"search|{kind}|duplicates", f"[{label}/{state}] search{tuple(desc_txt)} returned {len(got) - len(gs)} duplicates", rep)
        if gs != expect_ids:
            miss, extra = len(expect_ids - gs), len(gs - expect_ids)
            cls = "incomplete" if miss and not extra else ("unsound" if extra and not miss else "differs")
            out.find(f"search|{kind}{'|below' if below is not None else ''}|{cls}",
                     f"[{label}/{state}] search{tuple(desc_txt)} below={rep['below']}: {miss} objects of the full scan missing, {extra} not in the scan", rep)

    def with_below(ids: set, anchor) -> set:
        d = raw_descendants(model, anchor)
        return {i for i in ids if i in d}

    if only is not None and only.get("argkind") == "class-multi":
        only = None  # the whole class loop is cheap; the finding is matched by signature below
    if only is not None:
        # replay of one recorded query: rebuild the arguments and the expectation with the same oracle
        byname = {c.__name__: c for c in handlers.values()}
        kind = only["argkind"]
        args = []
        for a in only["args"]:
            args.append(byname[a] if (":" not in a and a in byname and kind in ("class", "multi")) else a)
        below = next((e for e in elems if e.get("id") == only.get("below")), None) if only.get("below") else None
        if kind == "short" and not [k for k in handlers if k.endswith(":" + args[0])]:
            run_query(args, kind, None, expect_exc="ValueError")
            return
        exp: set = set()
        if kind == "all" or not args:
            exp = {id(e) for e in typed} | {id(e) for e in desc}
        for a in args:
            if isinstance(a, str) and ":" in a:
                exp |= {id(e) for e in typed if xt_of[id(e)] == a}
                if a == "viewpoint:DRepresentationDescriptor":
                    exp |= {id(e) for e in desc}
            elif isinstance(a, str) and kind != "all":
                keys = [k for k in handlers if k.endswith(":" + a)]
                exp |= {id(e) for e in typed if xt_of[id(e)] in keys}
            elif not isinstance(a, str):
                exp |= {id(e) for e in typed if handlers.get(xt_of[id(e)]) is a}
        run_query(args, kind, with_below(exp, below) if below is not None else exp, below=below)
        return
    n_below = ctx.pick(2, 6)
    # full type strings
    for xt in present:
        exp = {id(e) for e in typed if xt_of[id(e)] == xt}
        if xt == "viewpoint:DRepresentationDescriptor":
            exp |= {id(e) for e in desc}
        run_query([xt], "full", exp)
        if anchors and rng.random() < ctx.pick(10, 100) / 100:
            for a in rng.sample(anchors, min(n_below, len(anchors))):
                run_query([xt], "full", with_below(exp, a), below=a)
    run_query(["org.example:NoSuchType"], "full", set())
    # classes
    classes = sorted({handlers[x] for x in present if x in handlers}
                     | ({handlers["viewpoint:DRepresentationDescriptor"]} if desc and "viewpoint:DRepresentationDescriptor" in handlers else set()),
                     key=lambda c: c.__name__)
    for cls in classes:
        regd = [k for k, c in handlers.items() if c is cls]
        exp = {id(e) for e in typed if handlers.get(xt_of[id(e)]) is cls}
        if "viewpoint:DRepresentationDescriptor" in regd:
            exp |= {id(e) for e in desc}
        try:
            built = _xtype.build_xtype(cls)
        except TypeError:
            built = None
        if regd != [built]:
            # a class registered under other types than the one build_xtype derives from its name: search(cls) looks
            # for the derived type only (generated table: `handlers_whose_class_builds_another_type`)
            try:
                got = {id(e) for e in model.search(cls)._elements}
            except Exception:  # noqa: BLE001
                got = None
            out.case((label, state, "search", "class-multi", cls.__name__), None, bool(exp))
            if got is not None and got != exp and got <= exp:
                out.find("search|class|registered-under-other-types",
                         f"[{label}/{state}] search({cls.__name__}) returns {len(got)} objects, the scan finds {len(exp)} whose wrapper class is "
                         f"{cls.__name__} (registered for {regd}, build_xtype gives {built!r})",
                         {"kind": "search", "model": label, "state": state, "args": [cls.__name__], "argkind": "class-multi", "below": None})
            elif got != exp:
                run_query([cls], "class", exp)
            continue
        run_query([cls], "class", exp)
        if anchors and rng.random() < ctx.pick(10, 100) / 100:
            a = rng.choice(anchors)
            run_query([cls], "class", with_below(exp, a), below=a)
    # short names
    for sh in shorts:
        keys = [k for k in handlers if k.endswith(":" + sh)]
        if not keys:
            run_query([sh], "short", None, expect_exc="ValueError")
            continue
        exp = {id(e) for e in typed if xt_of[id(e)] in keys}
        if "viewpoint:DRepresentationDescriptor" in keys:
            exp |= {id(e) for e in desc}
        run_query([sh], "short", exp)
        if anchors and rng.random() < ctx.pick(10, 100) / 100:
            a = rng.choice(anchors)
            run_query([sh], "short", with_below(exp, a), below=a)
    run_query(["NoSuchClassName"], "short", None, expect_exc="ValueError")
    # everything
    allexp = {id(e) for e in typed} | {id(e) for e in desc}
    run_query([], "all", allexp)
    for g in ("ModelElement", "GenericElement", "ModelObject"):
        run_query([g], "all", allexp)
    for a in rng.sample(anchors, min(len(anchors), ctx.pick(6, 40))):
        run_query([], "all", with_below(allexp, a), below=a)
    # the root element of every semantic fragment: found under its own type (string / class / short name), and as
    # `below=` anchor — once as the object `by_uuid` hands out, once as the object the type search itself hands out
    for f in model._loader.trees.values():
        if f.fragment_type.name != "SEMANTIC":
            continue
        r = f.root
        rxt = xt_of.get(id(r))
        if rxt is None or "href" in r.attrib:
            continue
        out.hit("search:root-probe")
        rexp = {id(e) for e in typed if xt_of[id(e)] == rxt}
        run_query([rxt], "root", rexp)
        if rxt in handlers and [k for k, c in handlers.items() if c is handlers[rxt]] == [rxt]:
            run_query([handlers[rxt]], "root", rexp)
        if r.get("id") and len(r):
            sub = rng.sample(present, min(len(present), ctx.pick(2, 6)))
            for xt in sub:
                exp = {id(e) for e in typed if xt_of[id(e)] == xt}
                run_query([xt], "root", with_below(exp, r), below=r)
            run_query([], "root", with_below(allexp, r), below=r)
            # anchors taken from the result of the search for the root's type
            try:
                found = list(model.search(rxt))
            except Exception:  # noqa: BLE001  (reported by run_query above)
                found = []
            for x in found[:3]:
                xe = getattr(x, "_element", None)
                if xe is None:
                    continue
                keep.append(xe)
                xt = rng.choice(present)
                exp = with_below({id(e) for e in typed if xt_of[id(e)] == xt}, xe)
                key = (label, state, "search", "root-found-anchor", xt, xe.get("id"))
                out.case(key, None, True)
                try:
                    got = {id(e) for e in model.search(xt, below=x)._elements}
                except Exception as e:  # noqa: BLE001
                    out.find(f"search|root|below-found|raises-{type(e).__name__}", f"[{label}/{state}] search({xt!r}, below=<{rxt} found by search>) raised {type(e).__name__}",
                             {"kind": "search", "model": label, "state": state, "args": [xt], "argkind": "root", "below": xe.get("id")})
                    continue
                if got != exp or xe.getparent() is None and xe is not r:
                    out.find("search|root|below-found|" + ("anchor-not-in-tree" if (xe.getparent() is None and xe is not r) else "differs"),
                             f"[{label}/{state}] search({xt!r}, below=<the {rxt} object returned by search>): {len(got)} objects, the scan below that element "
                             f"finds {len(exp)}; the anchor returned by search is {'NOT ' if (xe.getparent() is None and xe is not r) else ''}the fragment root in the tree",
                             {"kind": "search", "model": label, "state": state, "args": [xt], "argkind": "root", "below": xe.get("id")})
    # several at once
    for _ in range(ctx.pick(5, 30)):
        sel = rng.sample(present, min(len(present), rng.randint(2, 4)))
        mixed = [handlers[x] if x in handlers and rng.random() < 0.4 and [k for k, c in handlers.items() if c is handlers[x]] == [x] else x for x in sel]
        exp = set()
        for a in mixed:
            if isinstance(a, str):
                exp |= {id(e) for e in typed if xt_of[id(e)] == a}
            else:
                exp |= {id(e) for e in typed if handlers.get(xt_of[id(e)]) is a}
        if "viewpoint:DRepresentationDescriptor" in [m_ for m_ in mixed if isinstance(m_, str)]:
            exp |= {id(e) for e in desc}
        b = rng.choice(anchors) if anchors and rng.random() < 0.5 else None
        run_query(mixed, "multi", with_below(exp, b) if b is not None else exp, below=b)


# ------------------------------------------------------------------ A'. lookup by id


def check_by_uuid(ctx: Ctx, out: Outcome, model, label: str, state: str, keep: list) -> None:
    """`by_uuid(u)` hands out the element of the trees that carries the id `u` (ids that occur once), and the roots of
    all semantic fragments are among the probed elements."""
    from capellambse.model import _obj

    rng = ctx.rng
    elems = [e for e in sem_elements(model) if e.get("id")]
    keep.append(elems)
    count = collections.Counter(e.get("id") for e in nonvisual_elements(model) if e.get("id"))
    roots = [f.root for f in model._loader.trees.values() if f.fragment_type.name == "SEMANTIC" and f.root.get("id")]
    rest = [e for e in elems if count[e.get("id")] == 1]
    n = ctx.pick(150, 3000)
    sample = roots + (rest if len(rest) <= n else rng.sample(rest, n))
    for e in sample:
        u = e.get("id")
        if count[u] != 1:
            continue
        out.case((label, state, "by_uuid", u), None, True)
        out.hit("by_uuid" + (":root" if e.getparent() is None else ""))
        rep = {"kind": "by_uuid", "model": label, "state": state, "y": u}
        try:
            o = model.by_uuid(u)
        except Exception as ex:  # noqa: BLE001
            out.find(f"by_uuid|raises-{type(ex).__name__}", f"[{label}/{state}] by_uuid({u}) raised {type(ex).__name__} although the trees hold exactly one element with that id", rep)
            continue
        if isinstance(o, _obj.ModelElement) and o._element is not e:
            out.find("by_uuid|other-element" + ("|root" if e.getparent() is None else ""),
                     f"[{label}/{state}] by_uuid({u}) returns an element that is not the one the scan of the trees finds "
                     f"(in a tree: {o._element.getparent() is not None or any(o._element is f.root for f in model._loader.trees.values())})", rep)


# ------------------------------------------------------------------ B. references


def accessor_kind(cls, attr: str, depth: int = 0) -> tuple[str, bool]:
    """(accessor class name, link-storing?) of a relation attribute, looking through wrappers."""
    from capellambse.model import _descriptors as D

    acc = getattr(cls, attr, None)
    name = type(acc).__name__
    if isinstance(acc, (D.LinkAccessor, D.AttrProxyAccessor)):
        return name, True
    if name == "AssociatedCriteriaAccessor":
        return name, True  # links in an attribute of a child element (filtering extension): inside the XPath's reach
    if depth < 3:
        if isinstance(acc, D.IndexAccessor):
            return accessor_kind(cls, acc.wrapped, depth + 1)
        if isinstance(acc, D.Alias):
            return accessor_kind(cls, acc.target, depth + 1)
        if isinstance(acc, D.TypecastAccessor):
            return accessor_kind(cls, acc.attr, depth + 1)
    return name, False


def build_reverse_index(model, elems: list, out: Outcome):
    """Evaluate every relation of every element without pre-filter.

    index[target uuid] = {(id(x element), attr)}; detail[(id(x), attr)] = list of target element ids"""
    from capellambse.model import _model, _obj

    index: dict = collections.defaultdict(set)
    values: dict = {}
    objs: dict = {}
    for e in elems:
        try:
            x = _obj.ModelElement.from_model(model, e)
        except Exception:  # noqa: BLE001
            continue
        if not isinstance(x, _obj.ModelElement):
            continue
        objs[id(e)] = x
        for attr in _model._reference_attributes(type(x)):
            try:
                v = getattr(x, attr)
            except Exception:  # noqa: BLE001
                out.hit("relation-raised")
                continue
            if isinstance(v, _obj.ModelElement):
                tg = [v]
            elif isinstance(v, _obj.ElementList):
                tg = list(v)
            else:
                continue
            values[(id(e), attr)] = [t_._element for t_ in tg if hasattr(t_, "_element")]
            for t_ in tg:
                u = getattr(t_, "uuid", None)
                if u:
                    index[u].add((id(e), attr))
    return index, values, objs


def check_references(ctx: Ctx, out: Outcome, model, label: str, state: str, keep: list, only_y: str | None = None) -> None:
    from capellambse.model import _descriptors as D
    from capellambse.model import _obj

    rng = ctx.rng
    elems = nonvisual_elements(model)
    keep.append(elems)
    index, values, objs = build_reverse_index(model, elems, out)
    byid = {id(e): e for e in elems}
    kindcache: dict = {}

    def kind(e, attr):
        cls = type(objs[id(e)])
        if (cls, attr) not in kindcache:
            kindcache[(cls, attr)] = accessor_kind(cls, attr)
        return kindcache[(cls, attr)]

    # raw link shape: every target of a link-storing relation value is spelled '#<id>' in x or one of its children
    shape_checked = 0
    for (xe, attr), targets in values.items():
        e = byid[xe]
        k, ls = kind(e, attr)
        if not ls:
            continue
        texts = list(e.attrib.values()) + [v for ch in e for v in ch.attrib.values()]
        for t_ in targets:
            tid = t_.get("id")
            if tid is None:
                continue
            shape_checked += 1
            if not any("#" + tid in s for s in texts):
                out.find(f"findrefs|link-shape|{k}", f"[{label}/{state}] {k} relation {attr!r} of {e.get('id')} contains {tid} "
                         "but no attribute of the element or its children spells '#'+id",
                         {"kind": "shape", "model": label, "state": state, "x": e.get("id"), "attr": attr, "y": tid})
    out.hit("link-shape-checked", shape_checked)

    targets = [e for e in elems if e.get("id")]
    n = len(targets) if ctx.thorough or len(targets) <= 300 else ctx.pick(150, len(targets))
    if os.environ.get("VERIF_WIDEN") == "1":
        n = len(targets)
    sample = targets if n >= len(targets) else rng.sample(targets, n)
    if only_y is not None:
        sample = [e for e in targets if e.get("id") == only_y]
    for ye in sample:
        u = ye.get("id")
        try:
            y = model.by_uuid(u)
        except Exception:  # noqa: BLE001
            continue
        if not isinstance(y, _obj.ModelElement):
            continue
        try:
            got = [(id(o._element), a, i) for (o, a, i) in model.find_references(y)]
            exc = None
        except ValueError:
            got, exc = [], "ValueError"
        except Exception as ex:  # noqa: BLE001
            got, exc = [], type(ex).__name__
        expected = index.get(u, set())
        out.case((label, state, "findrefs", u), {"model": label, "find_references": u, "expected": len(expected)}
                 if len(out.samples) < 4 and expected else None, bool(expected))
        rep = {"kind": "findrefs", "model": label, "state": state, "y": u}
        if exc and exc != "ValueError":
            out.find(f"findrefs|raises-{exc}", f"[{label}/{state}] find_references({u}) raised {exc}", rep)
            continue
        # soundness, tuple level
        for (xe, a, i) in got:
            vals = values.get((xe, a))
            ok = vals is not None and ((i is None and len(vals) >= 1 and vals[0] is ye) or
                                       (i is not None and i < len(vals) and vals[i] is ye))
            if not ok:
                out.find("findrefs|unsound", f"[{label}/{state}] find_references({u}) reported ({byid.get(xe).get('id') if xe in byid else '?'}, {a}, {i}) "
                         "but that relation does not hold the target there", dict(rep, x=byid[xe].get("id") if xe in byid else None, attr=a))
        # completeness for link-storing relations
        gotpairs = {(xe, a) for (xe, a, _i) in got}
        for (xe, a) in expected:
            k, ls = kind(byid[xe], a)
            out.hit("ref:" + k)
            if (xe, a) not in gotpairs:
                if ls:
                    out.find(f"findrefs|incomplete|{k}", f"[{label}/{state}] find_references({u}) misses ({byid[xe].get('id')}, {a}) — a {k} relation that contains the target",
                             dict(rep, x=byid[xe].get("id"), attr=a))
                else:
                    out.hit("ref-not-reported-nonlink:" + k)
        out.traces_validated += 1

    # back-reference accessors
    semtyped = [e for e in sem_elements(model)]
    keep.append(semtyped)
    cand_by_cls: dict = {}
    ys = [e for e in semtyped if e.get("id") and id(e) in objs]
    m2 = len(ys) if ctx.thorough or len(ys) <= 300 else ctx.pick(120, len(ys))
    ysel = ys if m2 >= len(ys) else rng.sample(ys, m2)
    if only_y is not None:
        ysel = [e for e in ys if e.get("id") == only_y]
    for ye in ysel:
        y = objs[id(ye)]
        for bname in dir(type(y)):
            acc = getattr(type(y), bname, None)
            if not isinstance(acc, D.ReferenceSearchingAccessor):
                continue
            tcs = acc.target_classes
            if tcs not in cand_by_cls:
                cand_by_cls[tcs] = [e for e in semtyped if id(e) in objs and (not tcs or isinstance(objs[id(e)], tcs))]
            expected = []
            oracle_raised = set()
            for ce in cand_by_cls[tcs]:
                c = objs[id(ce)]
                for g in acc.attrs:
                    try:
                        v = g(c)
                    except AttributeError:
                        continue
                    except Exception as ex:  # noqa: BLE001  (e.g. a dangling link left behind by an edit: C09's subject)
                        out.hit("backref-attr-raised")
                        oracle_raised.add(type(ex).__name__)
                        continue
                    hit = (isinstance(v, _obj.ElementList) and any(t_ is ye for t_ in v._elements)) or \
                          (isinstance(v, _obj.ModelElement) and v._element is ye)
                    if hit:
                        expected.append(id(ce))
                        break
            try:
                v = getattr(y, bname)
                got = [id(e) for e in v._elements] if isinstance(v, _obj.ElementList) else ([id(v._element)] if v is not None else [])
                exc = None
            except Exception as ex:  # noqa: BLE001
                got, exc = None, type(ex).__name__
            out.case((label, state, "backref", ye.get("id"), bname), None, bool(expected))
            out.hit("backref")
            rep = {"kind": "backref", "model": label, "state": state, "y": ye.get("id"), "attr": bname}
            if exc:
                if acc.aslist is None and len(expected) != 1:
                    continue  # single-valued back-reference with 0 or several holders: an error is the documented outcome
                if exc in oracle_raised:
                    out.hit("backref-both-raise")
                    continue  # the scan hits the same broken relation: only AttributeError is skipped by the accessor
                out.find(f"backref|raises-{exc}", f"[{label}/{state}] {type(y).__name__}.{bname} of {ye.get('id')} raised {exc}; scan finds {len(expected)}", rep)
                continue
            if set(got) != set(expected):
                miss, extra = len(set(expected) - set(got)), len(set(got) - set(expected))
                exact = [e for e in cand_by_cls[tcs] if type(objs[id(e)]) in tcs]
                sub = "subclass-instances" if miss and all(type(objs[i_]) not in tcs for i_ in (set(expected) - set(got)) for i_ in [i_]) else "differs"
                del exact
                out.find(f"backref|{'incomplete' if miss and not extra else 'differs'}|{sub}",
                         f"[{label}/{state}] {type(y).__name__}.{bname} of {ye.get('id')}: {miss} referrers of the full scan missing, {extra} extra", rep)


# ------------------------------------------------------------------ B'. direct / deep child selection by type


def check_children(ctx: Ctx, out: Outcome, model, label: str, state: str) -> None:
    """DirectProxyAccessor / DeepProxyAccessor / AttributeMatcherAccessor against a raw walk of the tree."""
    from capellambse import helpers
    from capellambse.model import _descriptors as D
    from capellambse.model import _obj

    rng = ctx.rng
    ld = model._loader

    def kids(e):
        for ch in e:
            if not isinstance(ch.tag, str):
                continue
            href = ch.get("href")
            if href and ch.get("id") is None:
                try:
                    ch = ld.follow_link(ch, href)
                except Exception:  # noqa: BLE001
                    pass
            yield ch

    def desc(e):
        for ch in kids(e):
            yield ch
            yield from desc(ch)

    def sel(it, xts):
        return [c for c in it if (not xts or helpers.xtype_of(c) in xts)]

    objs = [o for o in model.search() if type(o).__name__ != "Diagram"]
    if not ctx.thorough and len(objs) > 250:
        objs = rng.sample(objs, 250)
    for o in objs:
        cls = type(o)
        for name in dir(cls):
            if name.startswith("_"):
                continue
            acc = getattr(cls, name, None)
            if type(acc) not in (D.DirectProxyAccessor, D.DeepProxyAccessor, D.AttributeMatcherAccessor):
                continue
            if getattr(acc, "follow_abstract", False):
                continue
            roots = [o._element]
            for xt in acc.rootelem:
                roots = [c for r in roots for c in sel(kids(r), {xt})]
            if type(acc) is D.DeepProxyAccessor:
                exp = [c for r in roots for c in sel(desc(r), acc.xtypes) if c.get("id") is not None]
            else:
                exp = [c for r in roots for c in sel(kids(r), acc.xtypes) if c.get("id") is not None]
            try:
                v = getattr(o, name)
            except Exception as e:  # noqa: BLE001
                if acc.aslist is None and len(exp) != 1:
                    continue
                out.hit("children-raised:" + type(e).__name__)
                continue
            if type(acc) is D.AttributeMatcherAccessor:
                keep = []
                for c in exp:
                    w = _obj.ModelElement.from_model(model, c)
                    try:
                        if all(getattr(w, k) == val for k, val in acc.attributes.items()):
                            keep.append(c)
                    except AttributeError:
                        pass
                exp = keep
            got = list(v._elements) if hasattr(v, "_elements") else ([v._element] if v is not None else [])
            out.case((label, state, "children", o.uuid, name), None, bool(exp))
            out.hit("children:" + type(acc).__name__)
            if len(got) != len(exp) or any(a is not b for a, b in zip(got, exp)):
                out.find(f"children|{type(acc).__name__}|differs",
                         f"[{label}/{state}] {cls.__name__}.{name} of {o.uuid}: accessor yields {len(got)} elements, the raw walk {len(exp)} (or another order)",
                         {"kind": "children", "model": label, "state": state, "y": o.uuid, "attr": name})


# ------------------------------------------------------------------ C. list filters


def extract(obj, attr: str):
    """What _ListFilter.extract_key sees: (present?, value) with enums by name."""
    try:
        v = operator.attrgetter(attr)(obj)
    except AttributeError:
        return False, None
    except Exception as e:  # noqa: BLE001  the attribute itself refuses (e.g. multi-valued enumeration `.value`)
        return None, type(e).__name__
    if isinstance(v, enum.Enum):
        v = v.name
    return True, v


def filterable_names(lst, rng, cap: int) -> list[str]:
    try:
        names = {n[3:] for n in dir(lst) if n.startswith("by_")}
    except Exception:  # noqa: BLE001  (C11's business)
        names = {"name", "uuid"}
    names.discard("type")
    from capellambse.model import _obj

    # only real attribute filters: list classes may define unrelated methods called by_* (RelationsList.by_relation_class)
    names = sorted(n for n in names if isinstance(getattr(lst, "by_" + n, None), _obj._ListFilter))
    if len(names) > cap:
        keepn = [n for n in ("name", "uuid", "kind", "xtype", "layer") if n in names]
        keepn = keepn[:cap]
        names = keepn + rng.sample([n for n in names if n not in keepn], cap - len(keepn))
    return names


def subseq(small: list, big: list) -> bool:
    it = iter(big)
    return all(any(x is y for y in it) for x in small)


def check_filters_on(ctx: Ctx, out: Outcome, lst, label: str, state: str, origin: dict, fcases: list,
                     only: tuple | None = None) -> None:
    from capellambse.model import ElementList, ModelElement

    rng = ctx.rng
    cap = ctx.pick(MAXLIST, 4 * MAXLIST)
    if len(lst) > cap:
        # a window at a random place instead of always the head of the list (only the 3 big models exceed the cap)
        k0 = rng.randrange(len(lst) - cap + 1) if only is None else 0
        lst = lst[k0:k0 + cap]
        out.hit("filter:list-window")
    if len(lst) == 0:
        return
    L = list(lst._elements)
    objs = list(lst)
    # a "view" list (reqif RelationsList) stores relation elements but hands out the objects at their other end
    view = any(getattr(o, "_element", None) is not e for o, e in zip(objs, L))
    if view:
        out.hit("filter:view-list")
    names = filterable_names(lst, rng, ctx.pick(6, 14))
    if type(lst).__name__.endswith("MixedElementList") or type(lst).__name__ == "MixedElementList":
        names.append("__type__")
    if not view:
        names += [n_ for n_ in ("parent", "layer") if n_ not in names]  # object-valued attributes (dir(list) lists string-valued ones)
    if only is not None:
        names = [only[0]]
    for a in names:
        if a == "__type__":
            by_name, ex_name, attr = "by_type", "exclude_types", "__class__.__name__"
        else:
            by_name, ex_name, attr = f"by_{a}", f"exclude_{a}s", a
        ext = [extract(o, attr) for o in objs]
        if any(p is None for p, _ in ext):
            # the attribute raises something other than AttributeError on a member: the filter propagates it by design
            out.hit("filter:attr-raises-skipped")
            continue
        lacking = sum(1 for p, _ in ext if not p)
        vals = []
        for p, v in ext:
            if not p:
                continue
            if isinstance(v, str) or not isinstance(v, collections.abc.Iterable):
                cand = [v]
            else:
                try:
                    cand = list(v)[:3]
                except Exception:  # noqa: BLE001
                    cand = []
            for c in cand:
                if isinstance(c, (str, int, float, bool, type(None))) and c not in vals:
                    vals.append(c)
                elif isinstance(c, ModelElement) and not any(isinstance(x, ModelElement) and x._element is c._element for x in vals):
                    vals.append(c)  # objects as filter values: by_parent(obj), by_layer(obj), by_<relation>(obj)
        if len(vals) > ctx.pick(3, 6):
            vals = rng.sample(vals, ctx.pick(3, 6))
        vals.append("∅ no such value")
        if only is not None:
            vals = [only[1]]
        for v in vals:
            arg = v.lower() if (a == "__type__" and isinstance(v, str)) else v
            rep = {"kind": "filter", "model": label, "state": state, "origin": origin, "attr": a, "value": v if isinstance(v, (str, int, float, bool, type(None))) else str(v)}
            if isinstance(v, ModelElement):
                rep["value_uuid"] = getattr(v, "uuid", None)
                out.hit("filter:object-value")
            elif isinstance(v, float):
                out.hit("filter:float-value")
            try:
                by = getattr(lst, by_name)(arg, single=False)
                ex = getattr(lst, ex_name)(arg)
            except Exception as e:  # noqa: BLE001
                out.find(f"filter|raises-{type(e).__name__}", f"[{label}/{state}] {by_name}/{ex_name}({v!r}) on {origin} raised {type(e).__name__}: {str(e)[:80]}", rep)
                continue
            bad = [(nm, r_) for nm, r_ in ((by_name, by), (ex_name, ex)) if not isinstance(r_, ElementList)]
            if bad:
                nm, r_ = bad[0]
                out.find("filter|result-not-a-list|" + ("single-by-default" if a in ("name", "uuid") else "plain"),
                         f"[{label}/{state}] {nm}({v!r}{', single=False' if nm == by_name else ''}) on {origin} returned a "
                         f"{type(r_).__name__} instead of a list", rep)
                continue
            B, E = list(by._elements), list(ex._elements)
            nontrivial = 0 < len(B) < len(L) or lacking > 0
            out.case((label, state, "filter", common.sha(origin), a, str(v)),
                     {"model": label, "list": origin, "attr": a, "value": str(v), "len": len(L), "by": len(B), "exclude": len(E),
                      "lacking_attr": lacking} if len(out.samples) < 6 and nontrivial else None, nontrivial)
            out.hit("filter:" + ("mixed-attr" if lacking else "uniform-attr"))
            ib, ie, il = {id(x) for x in B}, {id(x) for x in E}, {id(x) for x in L}
            problems = []
            if not subseq(B, L) or not subseq(E, L):
                problems.append("order")
            if ib & ie:
                problems.append("overlap")
            if (ib | ie) != il or len(B) + len(E) != len(L):
                problems.append("not-complementary")
            if problems:
                lost = [x for x in L if id(x) not in ib and id(x) not in ie]
                lost_lack = all(not ext[L.index(x)][0] for x in lost) if lost else False
                cls = "missing-attr" if (problems == ["not-complementary"] and lost and lost_lack) else "+".join(problems)
                if a == "__type__":
                    cls = "by_type-vs-exclude_types|" + cls
                out.find(f"filter|partition|{cls}",
                         f"[{label}/{state}] on {origin} (len {len(L)}): {by_name}({v!r}) has {len(B)}, {ex_name}({v!r}) has {len(E)}; "
                         f"{len(lost)} elements in neither half, {len(ib & ie)} in both ({lacking} elements lack the attribute)", rep)
            # remember the case for the model
            if a != "__type__" and len(L) <= 400 and len(fcases) < ctx.pick(150, 1500) and isinstance(v, (str, int, bool, type(None))):
                enc = []
                ok = True
                for p, val in ext:
                    if not p:
                        enc.append(None)
                    elif isinstance(val, (str, int, bool, type(None))) and not isinstance(val, float):
                        enc.append({"a": atom(val)})
                    elif isinstance(val, collections.abc.Iterable):
                        try:
                            members = list(val)
                        except Exception:  # noqa: BLE001
                            ok = False
                            break
                        if all(isinstance(mv, (str, int, bool, type(None))) for mv in members):
                            enc.append({"m": [atom(mv) for mv in members]})
                        else:
                            # members are objects: `v in value` compares an atom with objects -> never equal
                            enc.append({"m": []})
                    else:
                        ok = False
                        break
                if ok:
                    try:
                        one = getattr(lst, by_name)(arg, single=True)
                        sres = next((i for i, x in enumerate(L) if x is one._element), "other") if not view else \
                            next((i for i, x in enumerate(L) if id(x) in ib), "other")
                    except KeyError:
                        sres = "KeyError"
                    except Exception as e:  # noqa: BLE001
                        sres = type(e).__name__
                    fcases.append(({"op": "filter", "items": enc, "vals": [atom(v)]},
                                   {"by": [i for i, x in enumerate(L) if id(x) in ib],
                                    "ex": [i for i, x in enumerate(L) if id(x) in ie], "single": sres}, rep))
            # single=True
            if a in ("name", "uuid") or rng.random() < 0.3:
                try:
                    r = getattr(lst, by_name)(arg, single=True)
                    res = "one"
                except KeyError:
                    r, res = None, "KeyError"
                except Exception as e:  # noqa: BLE001
                    r, res = None, type(e).__name__
                want = "one" if len(B) == 1 else "KeyError"
                out.hit(f"single:{min(len(B), 2)}-matches")
                out.case((label, state, "single", common.sha(origin), a, str(v)), None, True)
                if res != want or (res == "one" and getattr(r, "_element", None) is not getattr(by[0], "_element", B[0])):
                    out.find(f"filter|single|{len(B) if len(B) < 2 else 'many'}-matches-gives-{res}",
                             f"[{label}/{state}] {by_name}({v!r}, single=True) on {origin} with {len(B)} matches gave {res}", dict(rep, single=True))
            # set difference, containment, filter(), agree with the halves
            if view:
                continue
            try:
                diff = lst - by
                D_ = list(diff._elements)
                buu = {o.uuid for o in by}
                want_d = [x for x, o in zip(L, objs) if o.uuid not in buu]
                if len(D_) != len(want_d) or any(x is not y for x, y in zip(D_, want_d)):
                    out.find("list|sub|differs", f"[{label}/{state}] (lst - lst.{by_name}({v!r})) on {origin} is not the order-preserving complement by uuid", rep)
                if B and not (by[0] in lst):
                    out.find("list|contains|member-not-in", f"[{label}/{state}] member of {by_name}({v!r}) not `in` the list", rep)
                out.hit("sub/contains")
            except Exception as e:  # noqa: BLE001
                out.find(f"list|sub|raises-{type(e).__name__}", f"[{label}/{state}] lst - by raised {type(e).__name__}", rep)


def atom(v):
    if v is None:
        return {"n": True}
    if isinstance(v, (bool, int)):  # Python: True == 1, so `True in (1,)`
        return {"i": int(v)}
    return {"s": v}


def check_filters(ctx: Ctx, out: Outcome, model, label: str, state: str, fcases: list) -> None:
    from capellambse.model import ElementList, _model

    rng = ctx.rng
    full = model.search()

    def on(lst, origin):
        guarded(out, "filter", {"kind": "filter-guard", "model": label, "state": state, "origin": origin},
                check_filters_on, ctx, out, lst, label, state, origin, fcases)

    on(full, {"list": "search()"})
    xts = sorted({e.get(XSI) for e in full._elements if e.get(XSI)})
    for xt in rng.sample(xts, min(len(xts), ctx.pick(3, 12))):
        on(model.search(xt), {"list": "search", "type": xt})
    sel = rng.sample(xts, min(len(xts), 3))
    on(model.search(*sel), {"list": "search", "types": sel})
    # relation values
    objs = [o for o in full if type(o).__name__ != "Diagram"]
    done = 0
    for o in rng.sample(objs, min(len(objs), ctx.pick(40, 400))):
        attrs = list(_model._reference_attributes(type(o)))
        rng.shuffle(attrs)
        for a in attrs[:4]:
            try:
                v = getattr(o, a)
            except Exception:  # noqa: BLE001
                continue
            if isinstance(v, ElementList) and len(v) >= 2:
                on(v, {"list": "attr", "of": o.uuid, "attr": a})
                done += 1
        if done >= ctx.pick(12, 120):
            break
    # map(): flatten, drop None, dedupe by uuid, order of first occurrence
    for a in ("parent", "layer"):
        part = full[:200]
        try:
            mapped = part.map(a)
        except Exception as e:  # noqa: BLE001
            out.find(f"list|map|raises-{type(e).__name__}", f"[{label}/{state}] search()[:200].map({a!r}) raised {type(e).__name__}: {str(e)[:80]}",
                     {"kind": "map", "model": label, "state": state, "attr": a})
            continue
        want, seen = [], set()
        for o in part:
            try:
                v = getattr(o, a)
            except AttributeError:
                continue
            for t_ in ([v] if not isinstance(v, collections.abc.Iterable) else v):
                if t_ is None or t_.uuid in seen:
                    continue
                seen.add(t_.uuid)
                want.append(t_._element)
        out.case((label, state, "map", a), None, True)
        out.hit("map")
        if len(want) != len(mapped) or any(x is not y for x, y in zip(want, mapped._elements)):
            out.find("list|map|differs", f"[{label}/{state}] search()[:200].map({a!r}) is not the de-duplicated ordered flattening",
                     {"kind": "map", "model": label, "state": state, "attr": a})


# ------------------------------------------------------------------ D. a few random edits through the API


EDIT_KINDS = ("create", "child-delete", "child-assign", "attr-append", "attr-remove", "attr-del", "attr-assign",
              "link-remove", "link-del", "link-assign", "roletag-replace", "roletag-del", "backref-second-referrer", "create-rejected")


_NESTED: dict = {}


def nested_creatable(cls) -> list:
    """Single-valued child relations of `cls` that accept a NewObject at creation time: (attribute, type hint)."""
    from capellambse.model import _descriptors as D

    if cls not in _NESTED:
        found = []
        for n in dir(cls):
            if n.startswith("_"):
                continue
            acc = getattr(cls, n, None)
            if type(acc) is D.RoleTagAccessor and acc.aslist is None:
                # a role without declared classes takes any element: a plain value class serves as the nested child
                found.append((n, acc.classes[0].__name__ if acc.classes else "LiteralNumericValue"))
            elif type(acc) is D.DirectProxyAccessor and acc.aslist is None and len(acc.xtypes) == 1 and not acc.rootelem \
                    and getattr(acc.class_, "__name__", "") not in ("ModelElement", ""):
                found.append((n, acc.class_.__name__))
        _NESTED[cls] = found
    return _NESTED[cls]


def edit_candidates(model, objs: list) -> dict:
    """Every (object, relation) an edit of each kind can be applied to, found by reflection on the accessor table."""
    from capellambse.model import ElementList, _descriptors as D
    from capellambse.model import _obj

    cands: dict = {k: [] for k in EDIT_KINDS}
    for o in objs:
        cls = type(o)
        for n in dir(cls):
            if n.startswith("_"):
                continue
            acc = getattr(cls, n, None)
            if not isinstance(acc, D.Accessor):
                continue
            t_ = type(acc)
            try:
                if t_ is D.ReferenceSearchingAccessor:
                    # a single-valued back-reference that has one referrer now: a second referrer can be made by
                    # appending the object to the same list relation of another object of the referrer's class
                    if acc.aslist is None:
                        names = [g.__reduce__()[1][0] for g in acc.attrs]
                        cur = getattr(o, n)
                        if cur is not None and any(
                                "." not in a and type(getattr(type(cur), a, None)) in (D.AttrProxyAccessor, D.LinkAccessor)
                                and getattr(type(cur), a).aslist is not None for a in names):
                            cands["backref-second-referrer"].append((o, n))
                    continue
                if t_ is D.DirectProxyAccessor:
                    if acc.aslist is None or getattr(acc, "follow_abstract", False):
                        continue
                    if len(acc.xtypes) == 1 and not acc.rootelem:
                        cands["create"].append((o, n))
                        if nested_creatable(acc.class_):
                            cands["create-rejected"].append((o, n))
                    v = getattr(o, n)
                    if isinstance(v, ElementList) and len(v) and not acc.rootelem:
                        if any(len(c._element) == 0 for c in v):
                            cands["child-delete"].append((o, n))
                        if len(v) >= 2:
                            cands["child-assign"].append((o, n))
                elif t_ is D.AttrProxyAccessor:
                    v = getattr(o, n)
                    if acc.aslist is not None and isinstance(v, ElementList):
                        cands["attr-append"].append((o, n))
                        if len(v):
                            cands["attr-remove"].append((o, n))
                            cands["attr-assign"].append((o, n))
                    if acc.attr in o._element.attrib:
                        cands["attr-del"].append((o, n))
                elif t_ is D.LinkAccessor:
                    v = getattr(o, n)
                    n_el = len(v) if isinstance(v, ElementList) else (1 if isinstance(v, _obj.ModelElement) else 0)
                    if n_el and acc.tag:
                        cands["link-del"].append((o, n))
                        cands["link-assign"].append((o, n))
                        if isinstance(v, ElementList):
                            cands["link-remove"].append((o, n))
                elif t_ is D.RoleTagAccessor:
                    v = getattr(o, n)
                    if acc.aslist is None and v is not None:
                        cands["roletag-del"].append((o, n))
                        if len(acc.classes) >= 2:
                            cands["roletag-replace"].append((o, n))
                    elif acc.aslist is not None and isinstance(v, ElementList) and len(v):
                        cands["child-delete"].append((o, n))
            except Exception:  # noqa: BLE001  (a relation that cannot be read is not edited)
                continue
    return cands


def apply_edit(kind: str, o, n: str, rng, objs: list, serial: int) -> bool:
    from capellambse.model import NewObject

    cls = type(o)
    acc = getattr(cls, n)
    if kind == "create":
        getattr(o, n).create(name=f"verif-{serial}")
    elif kind == "child-delete":
        lst = getattr(o, n)
        leafs = [i for i, c in enumerate(lst) if len(c._element) == 0] or list(range(len(lst)))
        del lst[rng.choice(leafs)]
    elif kind == "child-assign":
        vals = list(getattr(o, n))
        drop = rng.randrange(len(vals))
        setattr(o, n, [v for i, v in enumerate(vals) if i != drop])
    elif kind == "attr-append":
        lst = getattr(o, n)
        donors = [p for p in objs if type(p) is cls and p is not o and len(getattr(p, n)) > 0]
        if not donors:
            return False
        t_ = getattr(rng.choice(donors), n)[0]
        if t_ in lst:
            return False
        lst.append(t_)
    elif kind == "attr-remove":
        lst = getattr(o, n)
        del lst[rng.randrange(len(lst))]
    elif kind == "attr-del":
        delattr(o, n)
    elif kind == "attr-assign":
        vals = list(getattr(o, n))
        setattr(o, n, list(reversed(vals))[: max(1, len(vals) - 1)])
    elif kind == "link-remove":
        lst = getattr(o, n)
        del lst[rng.randrange(len(lst))]
    elif kind == "link-del":
        delattr(o, n)
    elif kind == "link-assign":
        v = getattr(o, n)
        if acc.aslist is None:
            setattr(o, n, v)
        else:
            vals = list(v)
            setattr(o, n, list(reversed(vals))[: max(1, len(vals) - 1)])
    elif kind == "roletag-replace":
        cur = getattr(o, n)
        others = [c for c in acc.classes if c is not type(cur)]
        if not others:
            return False
        setattr(o, n, NewObject(rng.choice(others).__name__))
    elif kind == "roletag-del":
        delattr(o, n)
    elif kind == "create-rejected":
        # a creation that is refused *after* nested children were built: nothing of it may remain visible to queries
        nested = nested_creatable(acc.class_)
        kw = {"name": f"verif-rejected-{serial}"}
        for a_, hint in rng.sample(nested, min(len(nested), 2)):
            kw[a_] = NewObject(hint)
        kw["verif_no_such_attribute"] = 1
        try:
            getattr(o, n).create(**kw)
        except Exception:  # noqa: BLE001  (the refusal is the point)
            return True
        return True
    elif kind == "backref-second-referrer":
        from capellambse.model import _descriptors as D

        cur = getattr(o, n)
        if cur is None:
            return False
        names = [g.__reduce__()[1][0] for g in acc.attrs]
        rel = next((a for a in names if "." not in a and type(getattr(type(cur), a, None)) in (D.AttrProxyAccessor, D.LinkAccessor)
                    and getattr(type(cur), a).aslist is not None and o in getattr(cur, a)), None)
        others = [p for p in objs if type(p) is type(cur) and p is not cur and p._element is not cur._element]
        if rel is None or not others:
            return False
        getattr(rng.choice(others), rel).append(o)
    else:
        return False
    return True


def random_edits(ctx: Ctx, out: Outcome, model) -> int:
    """An edit history through the public API with a quota per kind: creation and deletion of children,
    assignment / deletion / element removal on containment, attribute-link (AttrProxy), link-element (LinkAccessor)
    and role-tag relations. Individual edits the API refuses are skipped."""
    rng = ctx.rng
    objs = [o for o in model.search() if type(o).__name__ != "Diagram" and getattr(o, "uuid", None)]
    if len(objs) > 400:
        objs = rng.sample(objs, 400)
    cands = edit_candidates(model, objs)
    quota = ctx.pick(2, 5)
    plan = []
    for k in EDIT_KINDS:
        c = cands[k]
        for pick in (rng.sample(c, min(len(c), quota * 2)) if c else []):
            plan.append((k, pick))
    rng.shuffle(plan)
    done: dict = {k: 0 for k in EDIT_KINDS}
    total = 0
    for k, (o, n) in plan:
        if done[k] >= quota:
            continue
        if o._element.getparent() is None and o._element is not model.project._element:
            continue  # removed by an earlier edit
        try:
            ok = apply_edit(k, o, n, rng, objs, total)
        except Exception:  # noqa: BLE001
            out.hit("edit-refused:" + k)
            continue
        if ok:
            done[k] += 1
            total += 1
            out.hit("edit:" + k)
    out.extra.setdefault("edit_candidates", {})
    for k in EDIT_KINDS:
        out.extra["edit_candidates"][k] = out.extra["edit_candidates"].get(k, 0) + len(cands[k])
    return total


# ------------------------------------------------------------------ D'. save() inside the session


_NSREL: dict = {}
SAVED_STATES = ("saved", "saved-ns", "saved-drop")


def fragment_root_of(elem):
    cur = elem
    while cur.getparent() is not None:
        cur = cur.getparent()
    return cur


def namespace_candidates(model, objs: list) -> list:
    """(object, relation, element type) for every list-valued containment relation whose element type lives in a
    metamodel package (namespace prefix) that the root of the object's fragment does not declare — found by reflection
    on the accessor table and the roots' namespace maps. Creating the first such element makes `save()` replace the
    fragment's root element (`ModelFile.update_namespaces`)."""
    from capellambse.model import _descriptors as D

    declared: dict = {}
    roots = {id(f.root): f for f in model._loader.trees.values()}
    found = []
    for o in objs:
        r = fragment_root_of(o._element)
        if id(r) not in roots:
            continue
        if id(r) not in declared:
            declared[id(r)] = {k for k in r.nsmap if k}
        cls = type(o)
        if cls not in _NSREL:
            rels = []
            for n in dir(cls):
                if n.startswith("_"):
                    continue
                acc = getattr(cls, n, None)
                if type(acc) is D.DirectProxyAccessor and acc.aslist is not None and len(acc.xtypes) == 1 and not acc.rootelem \
                        and not getattr(acc, "follow_abstract", False):
                    xt = next(iter(acc.xtypes))
                    if isinstance(xt, str) and ":" in xt:
                        rels.append((n, xt))
            _NSREL[cls] = rels
        for n, xt in _NSREL[cls]:
            if xt.split(":")[0] not in declared[id(r)]:
                found.append((o, n, xt))
    return found


def namespace_edits(ctx: Ctx, out: Outcome, model) -> list:
    """Create the first element(s) of a metamodel package the file does not declare yet (1-2 relations, chosen at
    random among all candidates of the model). Returns [(owner, relation, new object)]."""
    rng = ctx.rng
    objs = [o for o in model.search() if type(o).__name__ != "Diagram" and getattr(o, "uuid", None)]
    cands = namespace_candidates(model, objs)
    out.extra.setdefault("namespace_edit_candidates", {})
    made = []
    if not cands:
        return made
    for k, (o, n, xt) in enumerate(rng.sample(cands, min(len(cands), rng.randint(1, 2)))):
        try:
            new = getattr(o, n).create(name=f"verif-ns-{k}")
        except Exception:  # noqa: BLE001
            out.hit("edit-refused:create-new-namespace")
            continue
        made.append((o, n, new))
        out.hit("edit:create-new-namespace")
        out.hit("edit:create-new-namespace:" + xt.split(":")[0])
    return made


def save_in_session(out: Outcome, model, keep: list) -> dict | None:
    """`model.save()` (the model was loaded from a scratch copy). Returns, per semantic fragment, what was observed:
    the namespace prefixes its root declared before the save and whether the save replaced the root element."""
    ld = model._loader
    before = {k: (f.root, sorted(p or "" for p in f.root.nsmap)) for k, f in ld.trees.items() if f.fragment_type.name == "SEMANTIC"}
    keep.append(before)  # the replaced roots stay alive: their id() must not be handed to another element
    try:
        model.save()
    except Exception as e:  # noqa: BLE001
        out.hit(f"save-refused:{type(e).__name__}")
        return None
    info = {}
    for k, f in ld.trees.items():
        if k not in before:
            continue
        rep = f.root is not before[k][0]
        out.hit("save:root-replaced" if rep else "save:root-kept")
        info[str(k)] = {"declared": before[k][1], "replaced": rep}
    return info


def save_phases(ctx: Ctx, out: Outcome, model, label: str, fcases: list, reqs: list, lreqs: list, treqs: list, keep: list) -> dict:
    """edit history -> save() -> queries in the same session, three times: (1) after the random edits (the root is
    replaced only if they happened to change the set of metamodel packages in use), (2) after creating the first
    element of a package the file does not declare (root replaced to add the namespace), (3) after deleting those
    elements again (root replaced to drop it). Every state is judged like the loaded one."""
    done = {}
    sctx = StateCtx(ctx)
    sv = save_in_session(out, model, keep)
    if sv is not None:
        done["saved"] = sum(1 for v in sv.values() if v["replaced"])
        run_model_state(sctx, out, model, label, "saved", fcases, reqs, lreqs, treqs, saveinfo=sv)
    made = namespace_edits(ctx, out, model)
    if not made:
        return done
    sv = save_in_session(out, model, keep)
    if sv is None:
        # e.g. the viewpoint of the package is not activated in this model: take the elements out again
        for o, n, new in made:
            try:
                getattr(o, n).remove(new)
            except Exception:  # noqa: BLE001
                pass
        return done
    done["saved-ns"] = sum(1 for v in sv.values() if v["replaced"])
    run_model_state(sctx, out, model, label, "saved-ns", fcases, reqs, lreqs, treqs, saveinfo=sv)
    if ctx.thorough or ctx.rng.random() < 0.34:
        for o, n, new in made:
            try:
                getattr(o, n).remove(new)
                out.hit("edit:delete-last-of-namespace")
            except Exception:  # noqa: BLE001
                out.hit("edit-refused:delete-last-of-namespace")
        sv = save_in_session(out, model, keep)
        if sv is not None:
            done["saved-drop"] = sum(1 for v in sv.values() if v["replaced"])
            run_model_state(sctx, out, model, label, "saved-drop", fcases, reqs, lreqs, treqs, saveinfo=sv)
    return done


# ------------------------------------------------------------------ exports for the Lean model


def export_search(model, keep: list) -> dict:
    """Nodes (document order over all fragments) + the implementation's own type index."""
    from capellambse import helpers

    nodes, pos = [], {}
    ld = model._loader
    frs = list(ld.trees.values())
    for fi, f in enumerate(frs):
        sem = f.fragment_type.name == "SEMANTIC"
        if not sem:
            continue  # ancestors of semantic elements are semantic; the index only covers semantic fragments
        for e in f.root.iter():
            if not isinstance(e.tag, str):
                continue
            pos[id(e)] = len(nodes)
            keep.append(e)
            nodes.append({"xt": helpers.xtype_of(e) or "", "sem": sem, "ph": "href" in e.attrib, "p": None, "e": e})
    for n in nodes:
        e = n.pop("e")
        par = e.getparent()
        if par is None:
            # fragment root: hop to the placeholder's parent (what iterancestors does)
            src = None
            for k in ("id", "uid", "{http://www.omg.org/XMI}id"):
                if e.get(k):
                    try:
                        src = ld._unfollow_href(e.get(k))
                    except Exception:  # noqa: BLE001
                        src = None
                    if src is not None:
                        break
            par = src.getparent() if src is not None else None
        n["p"] = pos.get(id(par)) if par is not None else None
    index = []
    for f in frs:
        if f.fragment_type.name != "SEMANTIC":
            continue
        cache = __import__("objlayer").private_state(f).xtypecache
        for xt, d in cache.items():
            # an indexed element that is in no tree any more (orphan) is exported as a node number that does not exist
            index.append([xt, [pos.get(id(e), ORPHAN) for e in d.values()]])
    return {"nodes": nodes, "index": index, "pos": pos}


def saveindex_request(model, saveinfo: dict, keep: list) -> tuple[dict, list]:
    """The state right after `save()` for the model of `update_namespaces`: typed nodes in document order, per semantic
    fragment its node range, the namespace prefixes its root declared BEFORE the save, and — as the implementation's
    answer — whether the root element was replaced and the fragment's own type index (orphans as ORPHAN)."""
    from capellambse import helpers

    nodes, frags, impl = [], [], []
    pos: dict = {}
    for k, f in model._loader.trees.items():
        if f.fragment_type.name != "SEMANTIC":
            continue
        lo = len(nodes)
        for e in f.root.iter():
            if not isinstance(e.tag, str):
                continue
            pos[id(e)] = len(nodes)
            keep.append(e)
            nodes.append({"xt": helpers.xtype_of(e) or "", "sem": True})
        sv = saveinfo.get(str(k))
        if sv is None:
            continue
        cache = __import__("objlayer").private_state(f).xtypecache
        frags.append({"lo": lo, "hi": len(nodes), "declared": sv["declared"]})
        impl.append({"name": str(k).replace("\0", "~"), "replaced": sv["replaced"],
                     "index": [[xt, [pos.get(id(e), ORPHAN) for e in d.values()]] for xt, d in cache.items() if d]})
    return {"op": "saveindex", "nodes": nodes, "frags": frags}, impl


def search_requests(ctx: Ctx, model, keep: list) -> tuple[list[dict], list]:
    from capellambse.model import _xtype

    rng = ctx.rng
    ex = export_search(model, keep)
    pos = ex.pop("pos")
    handlers = sorted(_xtype.XTYPE_HANDLERS[None])
    present = sorted({n["xt"] for n in ex["nodes"] if n["xt"] and n["sem"]})
    anchors = [e for e in sem_elements(model) if len(e) and e.get("id")]
    dl = descriptors(model)
    keep.append(dl)
    desc_ids = {id(e) for e in dl}
    qs, impl = [], []
    for _ in range(ctx.pick(25, 120)):
        kind = rng.choice(["full", "short", "multi", "all", "generic"])
        if kind == "full":
            args = [rng.choice(present)]
        elif kind == "short":
            args = [rng.choice(present).split(":")[-1]]
        elif kind == "multi":
            args = rng.sample(present, min(3, len(present))) + ([rng.choice(present).split(":")[-1]] if rng.random() < 0.5 else [])
        elif kind == "generic":
            args = [rng.choice(present), "ModelElement", "no:such"]
        else:
            args = []
        if any(a == "DRepresentationDescriptor" or a.endswith(":DRepresentationDescriptor") for a in args) or not args or kind == "generic":
            # descriptors are chained in from the .aird; compare the semantic part only
            strip = True
        else:
            strip = False
        b = rng.choice(anchors) if anchors and rng.random() < 0.5 else None
        try:
            res = model.search(*args, below=model.by_uuid(b.get("id")) if b is not None else None)
            got = [pos.get(id(e), ORPHAN) for e in res._elements if not (strip and id(e) in desc_ids)]
            iv = {"ok": got}
        except ValueError:
            iv = {"err": "ValueError"}
        qs.append({"args": args, "below": pos[id(b)] if b is not None else None})
        impl.append(iv)
    return [{"op": "search", "nodes": ex["nodes"], "index": ex["index"], "handlers": handlers, "queries": qs}], impl


def findrefs_requests(ctx: Ctx, model, keep: list) -> tuple[list[dict], list, list]:
    """Export non-visual elements with attributes, children and their link-storing relation descriptors."""
    from capellambse import helpers
    from capellambse.model import _descriptors as D
    from capellambse.model import _model, _obj

    rng = ctx.rng
    elems = nonvisual_elements(model)
    keep.append(elems)
    pos = {id(e): i for i, e in enumerate(elems)}
    relcache: dict = {}

    def rels_of(cls):
        if cls not in relcache:
            r = []
            for a in _model._reference_attributes(cls):
                acc = getattr(cls, a, None)
                if type(acc) is D.AttrProxyAccessor and acc.aslist is not None:
                    r.append({"name": a, "k": "attr", "x": acc.attr})
                elif type(acc) is D.LinkAccessor and acc.aslist is not None:
                    r.append({"name": a, "k": "child", "x": acc.tag or "", "f": acc.follow, "xt": sorted(acc.xtypes)[0]})
            relcache[cls] = r
        return relcache[cls]

    nodes = []
    for e in elems:
        try:
            cls = type(_obj.ModelElement.from_model(model, e))
        except Exception:  # noqa: BLE001
            cls = None
        par = e.getparent()
        nodes.append({"id": e.get("id") or "", "tag": e.tag if isinstance(e.tag, str) else "", "xt": helpers.xtype_of(e) or "",
                      "attrs": [[c10tables.qname(k), v] for k, v in e.attrib.items()],
                      "p": pos.get(id(par)) if par is not None else None,
                      "rels": rels_of(cls) if cls is not None and issubclass(cls, _obj.ModelElement) else []})
    ids = [e.get("id") for e in elems if e.get("id")]
    ys = rng.sample(ids, min(len(ids), ctx.pick(40, 300)))
    impl = []
    relnames = {}
    for i, n in enumerate(nodes):
        relnames[i] = {r["name"] for r in n["rels"]}
    for u in ys:
        try:
            y = model.by_uuid(u)
            got = sorted([pos[id(o._element)], a, -1 if i is None else i] for (o, a, i) in model.find_references(y)
                         if id(o._element) in pos and a in relnames[pos[id(o._element)]])
        except Exception as e:  # noqa: BLE001
            got = {"err": type(e).__name__}
        impl.append(got)
    return [{"op": "findrefs", "nodes": nodes, "targets": ys}], impl, ys


# ------------------------------------------------------------------ the run


def open_fragmented(ctx: Ctx, mctx, label: str):
    """A fragmented copy of a corpus model: 2-3 cuts (possibly nested), loaded with capellambse."""
    import shutil

    import fragmenter

    env = base.setup(ctx)
    _, entry, res, _ = next(m for m in base.MODELS if m[0] == label)
    src = env["data"] / entry
    dst = ctx.scratch / f"frag-{label}"
    if dst.exists():
        shutil.rmtree(dst)
    main, _all = fragmenter.find_main(src)
    cands = [c for c in fragmenter.candidate_cut_points(src.parent / main) if c[2] >= 3 and c[1] >= 2]
    rng = mctx.rng
    picks = rng.sample(cands, min(len(cands), 3))
    cuts = [(cid, f"fragments/f{i}.capellafragment") for i, (cid, _d, _s) in enumerate(picks)]
    lay = fragmenter.fragment(src, dst, cuts, resources={k: env["data"] / v for k, v in res.items()} or None)
    kw = {"resources": lay.resources} if lay.resources else {}
    return env["capellambse"].MelodyModel(str(lay.aird), **kw), [c[0] for c in cuts]


class ModelCtx:
    """Per-model view of the run context with its own PRNG stream, so that one model's cases
    (including its random edits) are reproduced exactly when only that model is replayed."""

    def __init__(self, ctx: Ctx, label: str):
        import random

        self._ctx = ctx
        self.rng = random.Random(f"{ctx.prop}:{ctx.seed}:{label}")
        self.tier, self.seed, self.prop = ctx.tier, ctx.seed, ctx.prop

    @property
    def thorough(self) -> bool:
        return self._ctx.thorough

    def pick(self, quick: int, thorough: int) -> int:
        return self._ctx.pick(quick, thorough)

    @property
    def scratch(self):
        return self._ctx.scratch


class StateCtx:
    """View of a model's context for the additional post-save states: same PRNG stream, smaller samples (the thorough
    tier uses the quick sizes there, the quick tier a third of them) so that three more states per model fit the budget.
    What is enumerated completely (every type present, every class, every short name, the fragment roots) stays complete."""

    def __init__(self, mctx):
        self._m = mctx
        self.rng = mctx.rng
        self.tier, self.seed, self.prop = mctx.tier, mctx.seed, mctx.prop
        self.thorough = False

    def pick(self, quick: int, thorough: int) -> int:
        return quick if self._m.thorough else max(1, quick // 3)

    @property
    def scratch(self):
        return self._m.scratch


TABLE_INFO: dict = {}
KEEP_ALIVE: list = []  # exported elements (and roots replaced by a save) stay alive until the answers are compared


def run_model_state(ctx: Ctx, out: Outcome, model, label: str, state: str, fcases: list, reqs: list,
                    lreqs: list | None = None, treqs: list | None = None, saveinfo: dict | None = None) -> None:
    import time

    t0 = time.time()
    keep: list = []  # keeps lxml proxies alive so that id() stays meaningful
    out.hit("state:" + state)
    rep = {"model": label, "state": state}
    guarded(out, "search", dict(rep, kind="guard"), check_search, ctx, out, model, label, state, keep)
    guarded(out, "by_uuid", dict(rep, kind="guard"), check_by_uuid, ctx, out, model, label, state, keep)
    guarded(out, "references", dict(rep, kind="guard"), check_references, ctx, out, model, label, state, keep)
    guarded(out, "children", dict(rep, kind="guard"), check_children, ctx, out, model, label, state)
    guarded(out, "filters", dict(rep, kind="guard"), check_filters, ctx, out, model, label, state, fcases)
    if lreqs is not None:
        guarded(out, "listops", dict(rep, kind="guard"), c10lists.check_lists, ctx, out, model, label, state, lreqs)
    if treqs is not None and TABLE_INFO and os.environ.get("VERIF_NO_MODEL") != "1":
        rq, impl, ys = c10tables.findrefs_request(ctx, model, TABLE_INFO, keep)
        treqs.append(("findrefsT", label, state, rq, (impl, ys)))
        rq, impl = c10tables.backref_request(ctx, model, TABLE_INFO, keep)
        treqs.append(("backrefT", label, state, rq, impl))
    if os.environ.get("VERIF_NO_MODEL") != "1":
        rq, impl = search_requests(ctx, model, keep)
        reqs.append(("search", label, state, rq[0], impl))
        if saveinfo is not None:
            rq, impl = saveindex_request(model, saveinfo, keep)
            reqs.append(("saveindex", label, state, rq, impl))
        rq, impl, ys = findrefs_requests(ctx, model, keep)
        reqs.append(("findrefs", label, state, rq[0], (impl, ys)))
    KEEP_ALIVE.append(keep)
    sec = out.extra.setdefault("state_seconds", {})
    sec[state] = round(sec.get(state, 0.0) + time.time() - t0, 1)


def run(ctx: Ctx) -> Outcome:
    base.setup(ctx)
    out = Outcome(rule=RULE)
    fcases: list = []
    reqs: list = []
    lreqs: list = []
    treqs: list = []
    TABLE_INFO.clear()
    KEEP_ALIVE.clear()
    if os.environ.get("VERIF_NO_MODEL") != "1":
        # the generated tables as the driver reads them vs. the live classes (round trip of the translator)
        env = base.setup(ctx)
        env["capellambse"].load_model_extensions()
        dump = common.model([{"op": "tables"}], driver="QueryTable")[0]
        if "ok" not in dump:
            out.disagree("tables", {}, "n/a", dump)
        else:
            TABLE_INFO.update(c10tables.check_tables(out, dump["ok"]))
            out.traces_validated += 1
    sel = base.MODELS
    only = os.environ.get("C10_MODELS")
    if only:
        sel = [m for m in base.MODELS if m[0] in only.split(",")]
    per_model = {}
    for label, _entry, _res, size in sel:
        if size == "big" and not ctx.thorough and label != "mm52":
            continue
        model = base.open_model(ctx, label, copy="c10")
        mctx = ModelCtx(ctx, label)
        run_model_state(mctx, out, model, label, "loaded", fcases, reqs, lreqs, treqs)
        n = random_edits(mctx, out, model)
        per_model[label] = {"edits": n}
        if n:
            run_model_state(mctx, out, model, label, "edited", fcases, reqs, lreqs, treqs)
        per_model[label]["roots_replaced_by_save"] = save_phases(mctx, out, model, label, fcases, reqs, lreqs, treqs, KEEP_ALIVE)
        del model
    # fragmented variants (Capella-style, written by the independent fragmenter): type search with `below`
    # across fragment boundaries, references between fragments
    for label, _entry, _res, size in sel:
        if label not in (("writemodel", "parser") if not ctx.thorough else ("writemodel", "parser", "pvmt", "mm52")):
            continue
        mctx = ModelCtx(ctx, label + "#frag")
        try:
            fm, cuts = open_fragmented(ctx, mctx, label)
        except Exception as e:  # noqa: BLE001
            out.extra.setdefault("fragmented_skipped", {})[label] = repr(e)[:200]
            continue
        per_model[label + "#frag"] = {"cuts": cuts}
        out.hit("state:fragmented")
        run_model_state(mctx, out, fm, label, "fragmented", fcases, reqs, lreqs, treqs)
        del fm
    # correspondence
    if os.environ.get("VERIF_NO_MODEL") != "1":
        lines = [fc[0] for fc in fcases] + [r[3] for r in reqs]
        answers = common.model(lines, driver="Query")
        for (rq, iv, rep), a in zip(fcases, answers):
            if "ok" not in a:
                out.disagree("filter", rep, iv, a)
                continue
            r, c = dict(a["ok"]["repaired"], single=a["ok"]["single"]), dict(a["ok"]["coded"], single=a["ok"]["single"])
            if iv == r:
                out.hit("filter:impl=repaired" if r != c else "filter:impl=both")
            else:
                if iv == c:
                    out.hit("filter:impl=coded")
                out.disagree("filter", rep, iv, r)
        for (kind, label, state, _rq, impl), a in zip(reqs, answers[len(fcases):]):
            if "ok" not in a:
                out.disagree(kind, {"model": label, "state": state}, "n/a", a)
                continue
            if kind == "saveindex":
                # model of ModelFile.update_namespaces: the root is replaced iff the prefixes in use differ from the
                # declared ones, and then the fragment's type index is the one a walk of the new tree builds
                for fr, iv, mv in zip(_rq["frags"], impl, a["ok"]["frags"]):
                    out.hit("corr.saveindex:" + ("replaced" if iv["replaced"] else "kept"))
                    rep = {"model": label, "state": state, "fragment": iv["name"]}
                    if iv["replaced"] != mv["replace"]:
                        out.disagree("save.root-replaced", rep, iv["replaced"], mv["replace"])
                    if iv["replaced"] and iv["index"] != mv["rebuilt"]:
                        bad = next(([x, y] for x, y in zip(iv["index"], mv["rebuilt"]) if x != y), [len(iv["index"]), len(mv["rebuilt"])])
                        out.disagree("save.index-rebuilt", rep, str(bad[0])[:200], str(bad[1])[:200])
                out.traces_validated += 1
                continue
            if kind == "search":
                if not a["ok"]["consistent"]:
                    out.disagree("search.index", {"model": label, "state": state}, "implementation's type index", "not consistent with the tree scan")
                for q, iv, mv, sc in zip(_rq["queries"], impl, a["ok"]["results"], a["ok"]["scans"]):
                    out.hit("corr.search")
                    if "err" in iv or "err" in mv:
                        if iv != mv:
                            out.disagree("search", {"model": label, "state": state, "q": q}, iv, mv)
                        continue
                    if iv["ok"] != mv["ok"]:
                        out.disagree("search", {"model": label, "state": state, "q": q}, iv["ok"][:20], mv["ok"][:20])
                    if sorted(mv["ok"]) != sc["ok"]:
                        out.disagree("search.scan", {"model": label, "state": state, "q": q}, sorted(mv["ok"])[:20], sc["ok"][:20])
                    if mv.get("sorted"):
                        # theorem search_single_type_document_order: one type, index in document order -> the very list
                        out.hit("corr.search:document-order")
                        if mv["ok"] != sc["ok"] or iv["ok"] != sc["ok"]:
                            out.disagree("search.order", {"model": label, "state": state, "q": q}, iv["ok"][:20], sc["ok"][:20])
                out.traces_validated += 1
            else:
                impl_l, ys = impl
                for u, iv, mv, bf in zip(ys, impl_l, a["ok"]["results"], a["ok"]["brute"]):
                    out.hit("corr.findrefs")
                    if isinstance(iv, dict):
                        continue
                    if sorted(map(list, mv)) != iv:
                        out.disagree("findrefs", {"model": label, "state": state, "y": u}, iv[:10], sorted(map(list, mv))[:10])
                    if sorted(map(list, bf)) != sorted(map(list, mv)):
                        out.disagree("findrefs.brute", {"model": label, "state": state, "y": u}, sorted(map(list, bf))[:10], sorted(map(list, mv))[:10])
                out.traces_validated += 1
        # ElementList operations: every operation of every exported list, answer by answer
        lans = common.model([r["req"] for r in lreqs], driver="QueryList")
        nops = 0
        for r, a in zip(lreqs, lans):
            if "ok" not in a:
                out.disagree("listops", r["rep"], "n/a", a)
                continue
            for op, iv, mv in zip(r["req"]["ops"], r["impl"], a["ok"]):
                nops += 1
                out.hit("corr.listops:" + op["k"])
                if iv != mv:
                    out.disagree("listops." + op["k"], dict(r["rep"], op=op), iv, mv)
            out.traces_validated += 1
        out.extra["list_ops_to_model"] = nops
        out.extra["lists_exported"] = len(lreqs)
        # find_references / back-references over the generated tables
        tans = common.model([r[3] for r in treqs], driver="QueryTable")
        for (kind, label, state, rq, impl), a in zip(treqs, tans):
            c10tables.compare(out, kind, label, state, rq, impl, a)
    for f in out.findings:  # an edited state is reproduced from (seed, tier, model)
        f.replay.setdefault("seed", ctx.seed)
        f.replay.setdefault("tier", ctx.tier)
    out.extra["per_model"] = per_model
    out.extra["filter_cases_to_model"] = len(fcases)
    out.extra["input_distribution"] = dict(sorted(out.branches.items()))
    return out


# ------------------------------------------------------------------ replay


def replay(ctx: Ctx, case: dict):
    base.setup(ctx)
    label = case.get("model")
    kind = case.get("kind")
    if case.get("state") in ("edited", "fragmented") + SAVED_STATES or kind in ("guard", "filter-guard", "listop"):
        # the edited state is a function of (seed, tier, model): re-run that model only
        ctx2 = Ctx(ctx.prop, case.get("tier", ctx.tier), int(case.get("seed", ctx.seed)))
        ctx2._scratch = ctx.scratch
        os.environ["C10_MODELS"] = label
        old_nm = os.environ.get("VERIF_NO_MODEL")
        os.environ["VERIF_NO_MODEL"] = "1"
        try:
            o = run(ctx2)
        finally:
            os.environ.pop("C10_MODELS", None)
            if old_nm is None:
                os.environ.pop("VERIF_NO_MODEL", None)
            else:
                os.environ["VERIF_NO_MODEL"] = old_nm
        for f in o.findings:
            if f.replay.get("kind") == kind and f.replay.get("state") == case.get("state") and \
                    all(f.replay.get(k) == case.get(k) for k in ("y", "attr", "origin") if k in case):
                return f.what
        return None
    model = base.open_model(ctx, label, copy="c10r")
    o = Outcome()
    keep: list = []
    if kind == "search":
        check_search(ctx, o, model, label, "loaded", keep, only=case)
        return o.findings[0].what if o.findings else None
    elif kind in ("findrefs", "backref", "shape"):
        check_references(Ctx(ctx.prop, "thorough", ctx.seed), o, model, label, "loaded", keep, only_y=case.get("y"))
    elif kind == "filter":
        org = case["origin"]
        if org.get("list") == "search()":
            lst = model.search()
        elif org.get("list") == "search":
            lst = model.search(*([org["type"]] if "type" in org else org["types"]))
        else:
            lst = getattr(model.by_uuid(org["of"]), org["attr"])
        val = model.by_uuid(case["value_uuid"]) if case.get("value_uuid") else case["value"]
        check_filters_on(Ctx(ctx.prop, "thorough", ctx.seed), o, lst, label, "loaded", org, [], only=(case["attr"], val))
        return o.findings[0].what if o.findings else None
    elif kind == "children":
        check_children(Ctx(ctx.prop, "thorough", ctx.seed), o, model, label, "loaded")
    elif kind == "by_uuid":
        check_by_uuid(Ctx(ctx.prop, "thorough", ctx.seed), o, model, label, "loaded", keep)
    elif kind == "map":
        check_filters(ctx, o, model, label, "loaded", [])
    for f in o.findings:
        if f.replay.get("kind") == kind and all(f.replay.get(k) == case.get(k) for k in ("y", "args", "below") if k in case):
            return f.what
    return None
