"""C06 — a fragmented model behaves exactly like its single-file equivalent.

Monitor (implementation only): the same content is written twice by harness/fragmenter.py — monolithic and
with 1..4 (nested) subtrees cut into fragment files — and loaded twice; a digest of everything the API
answers (parent, layer, every relation of every object incl. back-references, subtree-restricted searches,
raw loader navigation) must be equal; the same edit script applied to both, saved and reloaded must again give
equal digests, and every element must be found in the file that owns it. Session histories keep ONE instance per
layout across its saves: navigate -> edit -> save (the fragment's root element is replaced) -> navigate again -> edit below
the fragmented element (reached by walking from its parent) -> save -> reload, compared step by step with the twin.

Correspondence: the Lean model `Capella.Frag` gets the monolithic tree and the cut set, computes `split`,
and (a) its files are compared, node by node, with the files the fragmenter wrote and the loader parsed,
(b) its navigation answers on the split store (children_xt, descendants(_xt), parent, ancestors,
search-below, owning file) are compared with the implementation's answers on the fragmented layout.
"""

from __future__ import annotations

import os
import pathlib
import posixpath
import shutil
import sys

import common
from common import Ctx, Outcome

sys.path.insert(0, str(pathlib.Path(__file__).resolve().parent.parent))
import fragmenter  # noqa: E402
from props import c05 as links  # noqa: E402  (layout generator, corpus list)

DRIVERS = ["Frag", "RelRead"]
TABLES = True  # Gen/Reads.lean: the read-side descriptor table (harness/gen_reads.py)
LEVEL = "proof"
RULE = ("layouts: for small models (writemodel, empty_project_52, filtering, library project) every single cut point "
        "whose subtree has >= 2 elements (quick: a seeded third of them, thorough: all) plus seeded sets of 2-4 (nested) "
        "cuts; for large models seeded sets of 1-4 (nested) cuts; fragment files at depth 0-3 with spaces/%/#/non-ASCII, "
        "optional relocated main file and .airdfragment indirection. per layout: every semantic object's parent, layer and "
        "all relations (small models; seeded sample of objects on large ones), searches below every cut root, its parent and "
        "a seeded sample, raw loader navigation for every element. sessions on one instance (quick 6, thorough 39 layouts; "
        "fragment roots declaring all / only the used namespaces): navigate, create inside the fragment (first element of "
        "another metamodel package preferred), save, navigate + full layout comparison + model tie on the same instance, "
        "create below the fragmented element reached from its parent, save, owner map, reload. "
        "distinct = distinct (model, cut set, object/relation); "
        "non-trivial = the object or one of its ancestors/descendants is a fragment root")
ASSUMPTIONS = [
    "harness/fragmenter.py states what Capella's fragmentation writes (tag-typed root, href placeholder with xsi:type, link rewriting, semanticResources)",
    "search results are compared as sets of ids: their order is an artefact of the per-file, per-xsi:type index (not document order even in one file)",
    "diagrams (visual elements) are not moved into .airdfragment files; only semantic subtrees are cut",
]
TRUSTED = ["C06: harness/fragmenter.py (independent fragment writer); lxml parsing of the written files"]
MANIFEST = dict(
    text=("Lean theorems over a model of trees with href placeholders: for every cut set S, `split S t` (nested cuts, "
          "tag-typed fragment roots) is a store whose join is t again, and children_xt, descendants, descendants_xt, "
          "parent, ancestors, search-below and the owning file computed on the store by the modelled loader code (placeholder "
          "following via id lookup over all files, upward navigation via the placeholder that links to a file root) equal "
          "those on t. Tied to /repo by running the implementation on monolithic and fragmented layouts written by an "
          "independent fragmenter, comparing both with each other (digest of parents, layers, all relations incl. "
          "back-references, subtree searches; edits + save + reload) and with the model's split and navigation answers."),
    design_ref="§6 C06",
    note=("Trusted: Lean kernel; harness/fragmenter.py as statement of Capella's fragmentation; lxml. Only semantic subtrees "
          "are fragmented (no diagram migration into .airdfragment). Search results compared as sets. Tag-filtered "
          "iterancestors differs at fragment roots (root tag is the class name) - not used by the object API, recorded in design/C06.md."),
    technique="Lean 4 refinement proof (structural induction over nested trees, permutation/nodup of keys) + differential runs on both layouts + digest monitor",
)

XSI_T = links.XSI_T
SEMANTIC = links.SEMANTIC
SMALL = [("writemodel/WriteTestModel.aird", {}), ("decl/empty_project_52/empty_project_52.aird", {}),
         ("filtering/Filtered Project.aird", {}), ("Library Project/Library Project.aird", {"Library Test": "Library Test"})]
LARGE = [("melodymodel/5_2/Melody Model Test.aird", {}), ("melodymodel/6_0/Melody Model Test.aird", {}),
         ("melodymodel/5_0/Melody Model Test.aird", {}), ("pvmt/PVMTTest.aird", {}), ("parser/TestItems.aird", {})]


def _imports():
    return links._imports()


# ------------------------------------------------------------------ digest


def canon(v):
    """canonical, layout-independent rendering of an API value"""
    import enum

    if v is None or isinstance(v, (bool, int, str)):
        return v
    if isinstance(v, float):
        return repr(v)
    if isinstance(v, enum.Enum):
        return f"{type(v).__name__}.{v.name}"
    u = getattr(v, "uuid", None)
    if isinstance(u, str) and not isinstance(v, (list, tuple)):
        return "@" + u
    if isinstance(v, (list, tuple)) or hasattr(v, "__iter__") and hasattr(v, "__len__"):
        try:
            return [canon(x) for x in v]
        except Exception as e:  # noqa: BLE001
            return f"!{type(e).__name__}"
    return f"<{type(v).__name__}>"


def relation_names(capellambse, cls) -> list[str]:
    out = []
    for name in dir(cls):
        if name.startswith("_") or name in ("parent", "layer", "diagrams", "visible_on_diagrams", "xtype", "progress_status"):
            continue
        acc = getattr(cls, name, None)
        if isinstance(acc, capellambse.model.Accessor):
            out.append(name)
    return out


def object_digest(capellambse, mdl, elem, with_backrefs: bool) -> dict:
    try:
        obj = mdl.by_uuid(elem.get("id"))
    except Exception as e:  # noqa: BLE001  (never crash on what the implementation does: it is an observation)
        return {"by_uuid": f"!{type(e).__name__}"}
    d: dict = {"by_uuid": "ok"}
    try:
        d["parent"] = canon(obj.parent)
    except AttributeError as e:
        d["parent"] = "!orphaned" if "orphaned" in str(e) else "!AttributeError"
    except Exception as e:  # noqa: BLE001
        d["parent"] = f"!{type(e).__name__}"
    try:
        d["layer"] = canon(obj.layer)
    except AttributeError:
        d["layer"] = None
    except Exception as e:  # noqa: BLE001
        d["layer"] = f"!{type(e).__name__}"
    try:
        refs = []
        for o, attr, idx in mdl.find_references(obj):
            acc = getattr(type(o), attr, None)
            if type(acc).__name__ in SCAN_BASED:  # position in a list that is assembled by scanning the files
                idx = "*"
            refs.append(f"{getattr(o, 'uuid', '?')}.{attr}[{idx}]")
        d["find_references"] = sorted(refs)
    except Exception as e:  # noqa: BLE001
        d["find_references"] = f"!{type(e).__name__}"
    for name in relation_names(capellambse, type(obj)):
        acc = getattr(type(obj), name)
        if not with_backrefs and isinstance(acc, capellambse.model.ReferenceSearchingAccessor):
            continue
        try:
            v = canon(getattr(obj, name))
            if isinstance(v, list) and (isinstance(acc, capellambse.model.ReferenceSearchingAccessor)
                                        or type(acc).__name__ in SCAN_BASED):
                # back-references / relation lookups are built on model.search(): found file after file,
                # type after type - their order is not a model property
                v = sorted(v, key=str)
            d["." + name] = v
        except Exception as e:  # noqa: BLE001
            d["." + name] = f"!{type(e).__name__}"
    return d


_LINK_XT: set | None = None


def raw_read_cause(capellambse, els_m, roots) -> str:
    """does the layout cut an element that some accessor reads with a plain `iterchildren()` (no placeholder
    following): the reference elements of a LinkAccessor, or an `ownedSpecification`?"""
    global _LINK_XT
    if _LINK_XT is None:
        _LINK_XT = set()
        for cls in capellambse.model._xtype.XTYPE_HANDLERS[None].values():
            for name in dir(cls):
                acc = getattr(cls, name, None)
                if isinstance(acc, capellambse.model.LinkAccessor):
                    _LINK_XT |= set(acc.xtypes)
    for r in roots:
        e = els_m[r]
        if e.get(XSI_T) in _LINK_XT or e.tag == "ownedSpecification":
            return "link-element-or-specification-is-fragment-root"
    return "structural-cut"


def semantic_elements(mdl):
    """id-bearing, typed elements of all semantic files of the *main* resource, by raw iteration"""
    out = []
    for frag, tree in mdl._loader.trees.items():
        if frag.parts[0] != "\0" or posixpath.splitext(frag.parts[-1])[1] not in SEMANTIC:
            continue
        for e in tree.root.iter():
            if isinstance(e.tag, str) and e.get("id") and e.get("href") is None:
                out.append(e)
    return out


def loader_digest(mdl, helpers, elem) -> dict:
    ldr = mdl._loader
    d = {}
    try:
        d["ancestors"] = [a.get("id") for a in ldr.iterancestors(elem)]
    except Exception as e:  # noqa: BLE001
        d["ancestors"] = f"!{type(e).__name__}"
    try:
        d["children_xt"] = [(c.get("id"), helpers.xtype_of(c)) for c in ldr.iterchildren_xt(elem)]
    except Exception as e:  # noqa: BLE001
        d["children_xt"] = f"!{type(e).__name__}"
    try:
        desc = list(ldr.iterdescendants(elem))
        d["descendants"] = [x.get("id") for x in desc]
        d["descendants_xt"] = [(x.get("id"), helpers.xtype_of(x)) for x in ldr.iterdescendants_xt(elem)]
    except Exception as e:  # noqa: BLE001
        d["descendants"] = f"!{type(e).__name__}"
    return d


def search_digest(mdl, elem, xtypes) -> dict:
    try:
        obj = mdl.by_uuid(elem.get("id"))
    except Exception as e:  # noqa: BLE001
        return {"by_uuid": f"!{type(e).__name__}"}
    d = {}
    for xt in xtypes:
        try:
            res = mdl.search(*([xt] if xt else []), below=obj)
            d[xt or "*"] = sorted(o.uuid for o in res)
        except Exception as e:  # noqa: BLE001
            d[xt or "*"] = f"!{type(e).__name__}"
    return d


SCAN_BASED = {"ElementRelationAccessor", "RequirementsRelationAccessor"}
SEARCH_XT = [None, "LogicalFunction", "LogicalComponent", "SystemFunction", "PhysicalComponent", "FunctionalExchange", "Class", "Part"]


def compare_layouts(ctx: Ctx, out: Outcome, spec: dict, mono, frag, lay, objs_budget: int, with_backrefs: bool, tag: str,
                    extra_ids: list[str] | None = None):
    """digest equality monolithic vs fragmented; returns nothing, reports findings"""
    capellambse, helpers, core = _imports()
    els_m = {e.get("id"): e for e in semantic_elements(mono)}
    els_f = {e.get("id"): e for e in semantic_elements(frag)}
    roots = {r for r in lay.fragments.values() if r in els_m and r in els_f}
    if set(els_m) != set(els_f):
        out.find("load|element-set-differs", f"{len(set(els_m) ^ set(els_f))} ids differ between the layouts",
                 {"kind": "layout", "layout": spec})
        return
    ids = sorted(els_m)
    # objects near the cuts first, then a seeded sample
    near = set()
    for r in roots:
        near.add(r)
        e = els_f[r]
        for c in e:
            if c.get("id"):
                near.add(c.get("id"))
        pm = els_m[r].getparent()
        if pm is not None and pm.get("id"):
            near.add(pm.get("id"))
            gp = pm.getparent()
            if gp is not None and gp.get("id"):
                near.add(gp.get("id"))
        for x in list(els_m[r].iterdescendants())[:6]:
            if x.get("id"):
                near.add(x.get("id"))
    # referrers and targets of references that cross a file boundary, and whatever an edit touched
    xl = cross_file_links(lay, els_m)
    for r in roots:
        near |= {a for a, t in xl if t == r}
    ctx.rng.shuffle(xl)
    for a, t in xl[:6]:
        near |= {a, t}
    near |= {i for i in (extra_ids or []) if i in els_m}
    rest = [i for i in ids if i not in near]
    ctx.rng.shuffle(rest)
    chosen = sorted(near) + rest[: max(0, objs_budget - len(near))]

    def below_cut(i):
        e = els_m[i]
        return i in roots or any(a.get("id") in roots for a in e.iterancestors()) or any(x.get("id") in roots for x in e.iterdescendants())

    for i in chosen:
        dm = object_digest(capellambse, mono, els_m[i], with_backrefs)
        df = object_digest(capellambse, frag, els_f[i], with_backrefs)
        out.case(("obj", tag, i), None, nontrivial=below_cut(i))
        if dm != df:
            keys = [k for k in dm if dm.get(k) != df.get(k)] + [k for k in df if k not in dm]
            k = keys[0]
            if k == "by_uuid":
                out.find(f"api|raises:{str(df.get(k)).lstrip('!')}|by_uuid", f"by_uuid({i}): monolithic={dm.get(k)} fragmented={df.get(k)}",
                         {"kind": "object", "layout": spec, "id": i, "what": k})
                continue
            cls = "parent" if k == "parent" else ("layer" if k == "layer" else ("find_references" if k == "find_references" else "relation"))
            if cls == "find_references":
                # which referrers differ? if each of them holds a placeholder among its direct children the cause is
                # the child-attribute scan of find_references not crossing the placeholder
                a, b = dm.get(k), df.get(k)
                holders = {e.get("id") for e in els_f.values() if any(c.get("href") is not None for c in e)}
                diff = set(a) ^ set(b) if isinstance(a, list) and isinstance(b, list) else {"?"}
                cls += "-differs|" + ("referrer-holds-a-placeholder" if diff and all(x.split(".")[0] in holders for x in diff) else "other")
                out.find(f"api|{cls}", f"{els_m[i].get(XSI_T)} {i}: {k} monolithic={str(dm.get(k))[:6000]} fragmented={str(df.get(k))[:6000]}",
                         {"kind": "object", "layout": spec, "id": i, "what": k})
                continue
            if cls == "relation":
                try:
                    acc = getattr(type(mono.by_uuid(i)), k[1:], None)
                except Exception:  # noqa: BLE001
                    acc = None
                cls += "-differs|" + type(acc).__name__ + "|" + raw_read_cause(capellambse, els_m, roots)
                out.find(f"api|{cls}", f"{els_m[i].get(XSI_T)} {i}: {k} monolithic={str(dm.get(k))[:6000]} fragmented={str(df.get(k))[:6000]}",
                         {"kind": "object", "layout": spec, "id": i, "what": k})
                continue
            out.find(f"api|{cls}-differs", f"{els_m[i].get(XSI_T)} {i}: {k} monolithic={str(dm.get(k))[:6000]} fragmented={str(df.get(k))[:6000]}",
                     {"kind": "object", "layout": spec, "id": i, "what": k})
    # raw loader navigation for every element
    for i in ids:
        lm = loader_digest(mono, helpers, els_m[i])
        lf = loader_digest(frag, helpers, els_f[i])
        out.case(("nav", tag, i), None, nontrivial=below_cut(i))
        if lm != lf:
            k = [k for k in list(lm) + list(lf) if lm.get(k) != lf.get(k)][0]
            out.find(f"loader|{k}-differs", f"{i}: {k} monolithic={str(lm.get(k))[:120]} fragmented={str(lf.get(k))[:120]}",
                     {"kind": "nav", "layout": spec, "id": i, "what": k})
        try:
            owner = "/".join(frag._loader.find_fragment(els_f[i]).parts[1:])
        except Exception as e:  # noqa: BLE001
            owner = f"!{type(e).__name__}"
        if owner != lay.owner.get(i):
            out.find("loader|find_fragment-not-owner", f"{i}: find_fragment={owner}, owner={lay.owner.get(i)}",
                     {"kind": "nav", "layout": spec, "id": i, "what": "find_fragment"})
    # unrestricted searches (a placeholder must not show up as an object)
    xts = list(dict.fromkeys(SEARCH_XT + [(els_m[r].get(XSI_T) or ":").split(":")[1] for r in roots]))
    for xt in xts:
        def gs(m):
            try:
                return sorted(o.uuid for o in m.search(*([xt] if xt else [])))
            except Exception as e:  # noqa: BLE001
                return f"!{type(e).__name__}"
        sm, sf = gs(mono), gs(frag)
        out.case(("gsearch", tag, xt), None, nontrivial=True)
        if sm != sf:
            out.find("api|search-differs", f"search({xt or '*'}): monolithic {len(sm) if isinstance(sm, list) else sm} results, fragmented {len(sf) if isinstance(sf, list) else sf}",
                     {"kind": "search", "layout": spec, "id": None, "xtype": xt})
    # searches restricted to a subtree
    targets = list(dict.fromkeys([r for r in roots] + [els_m[r].getparent().get("id") for r in roots if els_m[r].getparent() is not None
                                                        and els_m[r].getparent().get("id")] + chosen[:6]))
    for i in targets[: 10 if objs_budget < 100 else 30]:
        sm = search_digest(mono, els_m[i], SEARCH_XT)
        sf = search_digest(frag, els_f[i], SEARCH_XT)
        out.case(("search", tag, i), None, nontrivial=True)
        if sm != sf:
            k = "by_uuid" if ("by_uuid" in sm or "by_uuid" in sf) else [k for k in list(sm) + list(sf) if sm.get(k) != sf.get(k)][0]
            if k == "by_uuid":
                out.find(f"api|raises:{str(sf.get(k) or sm.get(k)).lstrip('!')}|by_uuid", f"by_uuid({i}): monolithic={sm.get(k, 'ok')} fragmented={sf.get(k, 'ok')}",
                         {"kind": "search", "layout": spec, "id": i, "xtype": None})
                continue
            nm = len(sm[k]) if isinstance(sm.get(k), list) else sm.get(k)
            nf = len(sf[k]) if isinstance(sf.get(k), list) else sf.get(k)
            out.find("api|search-below-differs", f"search({k}, below={i}): monolithic {nm} results, fragmented {nf}",
                     {"kind": "search", "layout": spec, "id": i, "xtype": k})


# ------------------------------------------------------------------ edits + save


LIST_ACCESSORS = ("DirectProxyAccessor", "RoleTagAccessor")


def list_attr_holding(capellambse, pobj, xelem) -> str | None:
    """name of the coupled child list of `pobj` that contains the element (used to move / delete it via the API)"""
    for name in relation_names(capellambse, type(pobj)):
        acc = getattr(type(pobj), name)
        if type(acc).__name__ not in LIST_ACCESSORS or getattr(acc, "aslist", None) is None:
            continue
        try:
            lst = getattr(pobj, name)
        except Exception:  # noqa: BLE001
            continue
        if any(getattr(o, "_element", None) is xelem for o in lst):
            return name
    return None


def cross_file_links(lay, els) -> list[tuple[str, str]]:
    """(referrer id, target id) for reference attributes whose owner and target live in different files"""
    out = []
    for i, e in els.items():
        for k, v in e.attrib.items():
            if k in ("id", "href", XSI_T) or "#" not in v:
                continue
            toks = fragmenter.split_link_tokens(v)
            if not toks:
                continue
            for _, _, t in toks:
                if t in els and lay.owner.get(i) and lay.owner.get(t) and lay.owner[i] != lay.owner[t]:
                    out.append((i, t))
    return out


def move_candidates(els, roots: set[str], prefer_ancestors: bool):
    """(x, new parent) pairs: x is not a fragment root, its parent has a same-typed twin elsewhere that is
    neither x nor inside x. With prefer_ancestors only x that are proper ancestors of a fragment root."""
    by_type: dict[str, list[str]] = {}
    for i, e in els.items():
        by_type.setdefault(e.get(XSI_T) or "", []).append(i)
    xs = []
    if prefer_ancestors:
        for r in roots:
            if r in els:
                xs += [a.get("id") for a in els[r].iterancestors() if a.get("id")]
    else:
        xs = list(els)
    out = []
    for x in dict.fromkeys(xs):
        e = els.get(x)
        if e is None or x in roots or e.getparent() is None or not e.getparent().get("id") or not e.get(XSI_T):
            continue
        p = e.getparent()
        inside = {d.get("id") for d in e.iter() if isinstance(d.tag, str)}
        for q in by_type.get(p.get(XSI_T) or "", []):
            if q != p.get("id") and q not in inside:
                out.append((x, q))
    return out


def edit_script(ctx: Ctx, lay, mono, hints: dict | None = None) -> list[dict]:
    """an edit history that touches fragment boundaries: renames, a created child, reference lists in both
    directions, MOVES (of an ancestor of a placeholder, of an element inside a fragment), a DELETION of an
    element that is referenced across a file boundary"""
    capellambse, _, _ = _imports()
    hints = hints or {}
    els = {e.get("id"): e for e in semantic_elements(mono)}
    roots = set(lay.fragments.values())
    inside = [i for i, f in lay.owner.items() if f != lay.main and i in els and els[i].get("name")]
    outside = [i for i, f in lay.owner.items() if f == lay.main and i in els and els[i].get("name")]
    script: list[dict] = []
    for pool in (inside, outside):
        for i in ctx.rng.sample(pool, min(2, len(pool))):
            script.append({"op": "rename", "id": i, "name": f"verif renamed {len(script)}"})
    fnlike = [i for i in inside if (els[i].get(XSI_T) or "").endswith(("LogicalFunction", "SystemFunction", "PhysicalFunction", "OperationalActivity"))]
    if fnlike:
        script.append({"op": "create_fn", "id": ctx.rng.choice(fnlike), "uuid": "00000000-c06c-4c06-8c06-%012d" % ctx.rng.randrange(10**12),
                       "name": "verif created"})
    if inside and outside:
        script.append({"op": "setrefs", "id": ctx.rng.choice(outside), "targets": ctx.rng.sample(inside, min(3, len(inside)))})
        own = ctx.rng.choice(inside)
        others = [i for i in inside if i != own]  # no self-references (an element does not reference itself)
        script.append({"op": "setrefs", "id": own, "targets": ctx.rng.sample(outside, min(2, len(outside))) + ctx.rng.sample(others, min(1, len(others)))})

    # moves
    moved: set[str] = set()
    wanted = []
    if hints.get("move"):
        wanted.append(tuple(hints["move"]))
    anc = move_candidates(els, roots, prefer_ancestors=True)
    if anc:
        wanted.append(ctx.rng.choice(anc))
    ins = [(x, q) for x, q in move_candidates({i: els[i] for i in inside}, roots, prefer_ancestors=False)]
    if ins:
        wanted.append(ctx.rng.choice(ins))
    for x, q in wanted[:3]:
        if x in moved or x not in els or q not in els:
            continue
        sub = {d.get("id") for d in els[x].iter() if isinstance(d.tag, str)}
        if q in sub or moved & sub or any(m in els and x in {a.get("id") for a in els[m].iter()} for m in moved):
            continue
        name = list_attr_holding(capellambse, mono.by_uuid(els[x].getparent().get("id")), els[x])
        if name is None or not hasattr(type(mono.by_uuid(q)), name):
            continue
        script.append({"op": "move", "id": x, "to": q, "attr": name})
        moved.add(x)

    # a deletion of an element that is referenced from another file (not a fragment root, no fragment below it)
    cands = []
    if hints.get("delete"):
        cands.append(hints["delete"])
    xl = cross_file_links(lay, els)
    ctx.rng.shuffle(xl)
    cands += [t for _, t in xl[:20]]
    for t in cands:
        e = els.get(t)
        if e is None or t in roots or e.getparent() is None or not e.getparent().get("id"):
            continue
        sub = {d.get("id") for d in e.iter() if isinstance(d.tag, str)}
        if sub & roots or sub & moved or any(st.get("id") in sub or st.get("to") in sub or set(st.get("targets", [])) & sub for st in script):
            continue
        name = list_attr_holding(capellambse, mono.by_uuid(e.getparent().get("id")), e)
        if name is None:
            continue
        script.append({"op": "delete", "id": t, "parent": e.getparent().get("id"), "attr": name})
        break
    return script


def apply_script(mdl, script: list[dict]) -> list[str]:
    log = []
    for st in script:
        try:
            obj = mdl.by_uuid(st["id"])
            if st["op"] == "rename":
                obj.name = st["name"]
            elif st["op"] == "create_fn":
                obj.functions.create(name=st["name"], uuid=st["uuid"])
            elif st["op"] == "setrefs":
                obj.applied_property_values = [mdl.by_uuid(t) for t in st["targets"]]
            elif st["op"] == "move":
                getattr(mdl.by_uuid(st["to"]), st["attr"]).append(obj)
            elif st["op"] == "delete":
                getattr(mdl.by_uuid(st["parent"]), st["attr"]).remove(obj)
            log.append("ok")
        except Exception as e:  # noqa: BLE001
            log.append(f"!{type(e).__name__}: {e}"[:160])
    return log


def files_owner_map(lay_root: pathlib.Path, project: str) -> dict[str, str]:
    """raw: id -> project-relative semantic file that contains the element (after a save)"""
    from lxml import etree

    pdir = lay_root / project
    out: dict[str, str] = {}
    for p in sorted(pdir.rglob("*")):
        if p.is_file() and p.suffix in SEMANTIC:
            rel = p.relative_to(pdir).as_posix()
            for e in etree.parse(str(p)).getroot().iter():
                if isinstance(e.tag, str) and e.get("id") and e.get("href") is None:
                    if e.get("id") in out:
                        out[e.get("id")] = out[e.get("id")] + "|" + rel
                    else:
                        out[e.get("id")] = rel
    return out


def expected_owner(mono, lay) -> dict[str, str]:
    """from the monolithic twin (after the same edits): the owner of an element is the file of its nearest
    cut ancestor-or-self, else the main file"""
    import itertools

    rootfile = {i: f for f, i in lay.fragments.items()}
    out = {}
    for e in semantic_elements(mono):
        f = lay.main
        for a in itertools.chain([e], e.iterancestors()):
            if a.get("id") in rootfile:
                f = rootfile[a.get("id")]
                break
        out[e.get("id")] = f
    return out


def dangling(mdl, ids: list[str]) -> int:
    """raw scan: reference attributes that still mention a deleted id"""
    n = 0
    for frag, tree in mdl._loader.trees.items():
        if posixpath.splitext(frag.parts[-1])[1] not in SEMANTIC:
            continue
        for e in tree.root.iter():
            if isinstance(e.tag, str):
                for k, v in e.attrib.items():
                    if k != "id" and any(("#" + i) in v for i in ids):
                        n += 1
    return n


def edits_and_save(ctx: Ctx, out: Outcome, spec: dict, mono, frag, lay_m, lay_f, tag: str):
    capellambse, helpers, core = _imports()
    script = edit_script(ctx, lay_f, mono, spec.get("hints"))
    if not script:
        return
    lm = apply_script(mono, script)
    lf = apply_script(frag, script)
    case = {"kind": "edits", "layout": spec, "script": script}
    ops = sorted({st["op"] for st in script})
    out.case(("edits", tag, len(script)), None, nontrivial=True)
    for op in ops:
        out.hit("edit." + op)
    if lm != lf:
        bad = next(st["op"] for st, a, b in zip(script, lm, lf) if a != b)
        out.find(f"edit|outcome-differs|{bad}", f"edit outcomes monolithic={lm} fragmented={lf}", case)
        return
    expected = expected_owner(mono, lay_f)
    # (1) still in memory: navigation, relations, searches and back-references after the edit history
    o1 = Outcome()
    try:
        compare_layouts(ctx, o1, spec, mono, frag, _with_owner(lay_f, expected), objs_budget=40, with_backrefs=False,
                        tag=tag + "+edited", extra_ids=[i for st in script for i in [st.get("id"), st.get("to"), st.get("parent")] if i])
    except Exception as e:  # noqa: BLE001
        o1.find(f"api|raises:{type(e).__name__}", f"observing the edited models raised {type(e).__name__}: {e}"[:240], case)
    out.evaluations += o1.evaluations
    out.distinct |= o1.distinct
    for f in o1.findings:
        out.find("edited|" + f.signature, f.what + f" [after {ops}]", case)
    deleted = [st["id"] for st, r in zip(script, lf) if st["op"] == "delete" and r == "ok"]
    if deleted:
        dm, df = dangling(mono, deleted), dangling(frag, deleted)
        if df != dm:
            out.find("edit|delete-leaves-dangling-reference", f"after deleting {deleted}: {df} attributes still mention it in the fragmented "
                     f"layout, {dm} in the monolithic one", case)
    # (2) save, files, reload
    try:
        mono.save()
        frag.save()
    except Exception as e:  # noqa: BLE001
        out.find("save|raises", f"save raised {type(e).__name__}: {e}"[:200], case)
        return
    owners = files_owner_map(lay_f.root, lay_f.project)
    wrong = {i: (owners.get(i), f) for i, f in expected.items() if owners.get(i) != f}
    extra = {i: f for i, f in owners.items() if i not in expected}
    if wrong:
        i, (got, want) = next(iter(wrong.items()))
        out.find("save|element-not-in-owning-fragment", f"after save {len(wrong)} elements are in the wrong file, e.g. {i}: in {got}, owner {want}", case)
    if extra:
        out.find("save|unexpected-elements", f"{len(extra)} unexpected elements after save, e.g. {next(iter(extra.items()))}", case)
    try:
        mono2 = capellambse.MelodyModel(lay_m.aird, resources=dict(lay_m.resources))
        frag2 = capellambse.MelodyModel(lay_f.aird, resources=dict(lay_f.resources))
    except Exception as e:  # noqa: BLE001
        out.find(f"after-edits|load|raises:{type(e).__name__}", f"reloading after save raised {type(e).__name__}: {e}"[:240], case)
        return
    o2 = Outcome()
    try:
        compare_layouts(ctx, o2, spec, mono2, frag2, _with_owner(lay_f, expected), objs_budget=40, with_backrefs=False, tag=tag + "+edits")
    except Exception as e:  # noqa: BLE001
        o2.find(f"api|raises:{type(e).__name__}", f"observing the reloaded models raised {type(e).__name__}: {e}"[:240], case)
    out.evaluations += o2.evaluations
    out.distinct |= o2.distinct
    for f in o2.findings:
        out.find("after-edits|" + f.signature, f.what, case)


# ------------------------------------------------------------------ moves across file boundaries, then more edits


def _cuttable(e, root) -> bool:
    return e is not root and bool(e.get("id")) and bool(e.get(XSI_T)) and e.getparent() is not None and e.get("href") is None


def xmove_specs(ctx: Ctx, model: str, res: dict, n: int) -> list[dict]:
    """layouts + histories in which an EXISTING element x is moved through the list API into a list whose owner q
    lives in ANOTHER file (main -> fragment, fragment -> main, fragment -> fragment, into / out of a nested fragment),
    and is then edited again (deleted, moved across a boundary once more, renamed and moved back, ...)."""
    from lxml import etree

    src = links.data_dir() / model
    main, _ = fragmenter.find_main(src)
    root = etree.parse(str(src.parent / main)).getroot()
    els = {e.get("id"): e for e in root.iter() if isinstance(e.tag, str) and e.get("id")}
    pairs = [(x, q) for x, q in move_candidates(els, set(), prefer_ancestors=False)
             if sum(1 for _ in els[x].iter()) <= 40]
    ctx.rng.shuffle(pairs)
    # only pairs the list API can execute: x sits in a coupled child list of its parent that q's class has too
    capellambse, _, _ = _imports()
    probe = capellambse.MelodyModel(src, resources={k: links.data_dir() / v for k, v in res.items()})
    pels = {e.get("id"): e for e in semantic_elements(probe)}
    usable: dict[tuple[str, str], bool] = {}

    def can_move(x, q):
        try:
            name = list_attr_holding(capellambse, probe.by_uuid(pels[x].getparent().get("id")), pels[x])
            return name is not None and hasattr(type(probe.by_uuid(q)), name)
        except Exception:  # noqa: BLE001
            return False

    out: list[dict] = []
    used: set[str] = set()
    modes = ["main->frag", "frag->main", "frag->frag", "into-nested", "out-of-nested"]
    follow = ["delete", "move-back", "rename+move-back+delete", "move-on"]
    k = 0
    tried = 0
    for x, q in pairs:
        if tried > 40 * n:
            break
        tried += 1
        if x not in pels or q not in pels or not usable.setdefault((x, q), can_move(x, q)):
            continue
        mode = modes[k % len(modes)]
        ex, eq = els[x], els[q]
        p = ex.getparent()
        sub_x = {id(d) for d in ex.iter()}

        def anc_cut(start, avoid):
            """nearest cuttable ancestor-or-self of `start` whose subtree does not contain `avoid`"""
            a = start
            while a is not None and _cuttable(a, root):
                if id(avoid) not in {id(d) for d in a.iter()}:
                    return a
                a = a.getparent()
            return None

        cuts = []
        cq = anc_cut(eq, ex)  # q inside a fragment that does not hold x
        cp = anc_cut(p, eq)   # x's parent inside a fragment that does not hold q
        if mode == "main->frag" and cq is not None:
            cuts = [cq]
        elif mode == "frag->main" and cp is not None:
            cuts = [cp]
        elif mode == "frag->frag" and cq is not None and cp is not None and cq is not cp:
            cuts = [cq, cp]
        elif mode == "into-nested" and cq is not None:
            outer = anc_cut(cq.getparent(), ex) if cq.getparent() is not None else None
            cuts = [cq] + ([outer] if outer is not None else [])
            if len(cuts) < 2:
                continue
        elif mode == "out-of-nested" and cp is not None:
            outer = anc_cut(cp.getparent(), eq) if cp.getparent() is not None else None
            cuts = [cp] + ([outer] if outer is not None else [])
            if len(cuts) < 2:
                continue
        if not cuts or any(id(c) in sub_x for c in cuts):
            continue
        # a third same-typed parent in yet another place, for "move-on"
        q3 = next((b for a, b in pairs if a == x and b != q), None)
        used.clear()
        out.append({"model": model, "resources": res, "cuts": [[c.get("id"), links.gen_frag_path(ctx.rng, used)] for c in cuts],
                    "main_rel": None, "airdfragments": False, "raw_nonascii": False, "small": (model, res) in SMALL,
                    "hints": {"xmove": {"x": x, "p": p.get("id"), "q": q, "q3": q3, "mode": mode, "then": follow[k % len(follow)]}}})
        k += 1
        if k >= n:
            break
    return out


def raw_ids(mdl) -> dict[str, int]:
    """raw scan of the loader's semantic trees of the main resource: id -> number of (non-placeholder) elements carrying it"""
    cnt: dict[str, int] = {}
    for fr, tree in mdl._loader.trees.items():
        if fr.parts[0] != "\0" or posixpath.splitext(fr.parts[-1])[1] not in SEMANTIC:
            continue
        for e in tree.root.iter():
            if isinstance(e.tag, str) and e.get("id") and e.get("href") is None:
                cnt[e.get("id")] = cnt.get(e.get("id"), 0) + 1
    return cnt


def step_observation(mdl, universe: list[str], x: str) -> dict:
    """what the API answers after one step of a history: look-up of every id ever seen (result class), the multiset of
    search(), where x is, and the same read off the raw XML"""
    import collections

    d: dict = {}
    raw = raw_ids(mdl)
    by = {}
    ghosts, lost = [], []
    for i in universe:
        try:
            mdl.by_uuid(i)
            r = "ok"
        except Exception as e:  # noqa: BLE001
            r = "!" + type(e).__name__
        by[i] = r
        if r == "ok" and raw.get(i, 0) == 0:
            ghosts.append(i)
        if r != "ok" and raw.get(i, 0) == 1:
            lost.append(i)
    d["by_uuid"] = by
    d["ghosts"], d["lost"] = sorted(ghosts), sorted(lost)
    try:
        c = collections.Counter(o.uuid for o in mdl.search() if getattr(o, "uuid", None) in raw or getattr(o, "uuid", None) in by)
        d["search"] = sorted(c.items())
        d["search_dups"] = sorted(i for i, n in c.items() if n > 1)
        d["search_ghosts"] = sorted(i for i in c if raw.get(i, 0) == 0 and i in by)
    except Exception as e:  # noqa: BLE001
        d["search"] = "!" + type(e).__name__
        d["search_dups"], d["search_ghosts"] = [], []
    try:
        d["x.parent"] = canon(mdl.by_uuid(x).parent)
    except Exception as e:  # noqa: BLE001
        d["x.parent"] = "!" + type(e).__name__
    return d


def xmove_history(ctx: Ctx, out: Outcome, spec: dict, mono, frag, lay_m, lay_f, tag: str):
    capellambse, helpers, core = _imports()
    h = spec["hints"]["xmove"]
    els = {e.get("id"): e for e in semantic_elements(mono)}
    x, p, q, q3 = h["x"], h["p"], h["q"], h.get("q3")
    if x not in els or q not in els or p not in els:
        return
    name = list_attr_holding(capellambse, mono.by_uuid(p), els[x])
    if name is None or not hasattr(type(mono.by_uuid(q)), name):
        out.hit("xmove.skipped-no-list")
        return
    mv = lambda to: {"op": "move", "id": x, "to": to, "attr": name}  # noqa: E731
    then = h["then"]
    script = [mv(q)]
    if then == "delete":
        script.append({"op": "delete", "id": x, "parent": q, "attr": name})
    elif then == "move-back":
        script.append(mv(p))
    elif then == "rename+move-back+delete":
        script += [{"op": "rename", "id": x, "name": "verif moved"}, mv(p), {"op": "delete", "id": x, "parent": p, "attr": name}]
    elif then == "move-on":
        script.append(mv(q3 if q3 and q3 in els and hasattr(type(mono.by_uuid(q3)), name) else p))
        script.append({"op": "delete", "id": x, "parent": script[-1]["to"], "attr": name})
    case = {"kind": "edits", "layout": spec, "script": script}
    universe = sorted(els)
    out.case(("xmove", tag, h["mode"], then), None, nontrivial=True)
    out.hit("xmove.mode." + h["mode"])
    out.hit("xmove.then." + then)
    owners0 = lay_f.owner
    out.hit("xmove.crosses-file" if owners0.get(x) != owners0.get(q) else "xmove.same-file")
    done = []
    for st in script:
        lm = apply_script(mono, [st])
        lf = apply_script(frag, [st])
        done.append(st["op"])
        after = "+".join(done)
        out.hit("xmove.step." + st["op"])
        if lm != lf:
            out.find(f"xmove|outcome-differs|{st['op']}", f"after {after}: monolithic={lm} fragmented={lf}", case)
            return
        om = step_observation(mono, universe, x)
        of = step_observation(frag, universe, x)
        # (a) each layout against its own raw XML
        for lab, o in (("monolithic", om), ("fragmented", of)):
            if o["ghosts"]:
                out.find("xmove|by_uuid-answers-for-removed-element", f"{lab}, after {after}: by_uuid() still finds {o['ghosts'][:3]} ({len(o['ghosts'])}) "
                         f"which no file contains", case)
            if o["lost"]:
                out.find("xmove|by_uuid-fails-for-existing-element", f"{lab}, after {after}: by_uuid({o['lost'][0]}) -> {o['by_uuid'][o['lost'][0]]} "
                         f"although exactly one element carries the id ({len(o['lost'])} such)", case)
            if o["search_dups"]:
                out.find("xmove|search-lists-element-twice", f"{lab}, after {after}: search() lists {o['search_dups'][:3]} more than once", case)
            if o["search_ghosts"]:
                out.find("xmove|search-lists-removed-element", f"{lab}, after {after}: search() lists {o['search_ghosts'][:3]} which no file contains", case)
        # (b) fragmented against monolithic
        for key in ("by_uuid", "search", "x.parent"):
            if om[key] != of[key]:
                if isinstance(om[key], dict):
                    diff = [i for i in om[key] if om[key][i] != of[key].get(i)]
                    what = f"{len(diff)} ids, e.g. {diff[0]}: monolithic={om[key][diff[0]]} fragmented={of[key].get(diff[0])}"
                else:
                    what = f"monolithic={str(om[key])[:150]} fragmented={str(of[key])[:150]}"
                out.find(f"xmove|{key}-differs", f"after {after}: {what}", case)
        # (c) can both be saved?
        sv = []
        for mdl in (mono, frag):
            try:
                mdl.save()
                sv.append("ok")
            except Exception as e:  # noqa: BLE001
                sv.append(f"!{type(e).__name__}: {e}"[:120])
        if sv[0].split(":")[0] != sv[1].split(":")[0]:
            out.find("xmove|save-outcome-differs", f"after {after}: save() monolithic={sv[0]} fragmented={sv[1]}", case)
            return
        if sv[0] != "ok":
            return
        expected = expected_owner(mono, lay_f)
        owners = files_owner_map(lay_f.root, lay_f.project)
        wrong = {i: (owners.get(i), f) for i, f in expected.items() if owners.get(i) != f}
        extra = {i: f for i, f in owners.items() if i not in expected}
        if wrong:
            i, (got, want) = next(iter(wrong.items()))
            out.find("xmove|save|element-not-in-owning-fragment", f"after {after} and save: {len(wrong)} elements in the wrong file, e.g. {i}: in {got}, owner {want}", case)
        if extra:
            out.find("xmove|save|unexpected-elements", f"after {after} and save: {len(extra)} elements that the monolithic twin does not have, e.g. {next(iter(extra.items()))}", case)
    # reload and compare everything
    expected = expected_owner(mono, lay_f)
    try:
        mono2 = capellambse.MelodyModel(lay_m.aird, resources=dict(lay_m.resources))
        frag2 = capellambse.MelodyModel(lay_f.aird, resources=dict(lay_f.resources))
    except Exception as e:  # noqa: BLE001
        out.find(f"xmove|load|raises:{type(e).__name__}", f"reloading after the history raised {type(e).__name__}: {e}"[:240], case)
        return
    o2 = Outcome()
    try:
        compare_layouts(ctx, o2, spec, mono2, frag2, _with_owner(lay_f, expected), objs_budget=30, with_backrefs=False, tag=tag + "+xmove",
                        extra_ids=[x, p, q])
    except Exception as e:  # noqa: BLE001
        o2.find(f"api|raises:{type(e).__name__}", f"observing the reloaded models raised {type(e).__name__}: {e}"[:240], case)
    out.evaluations += o2.evaluations
    out.distinct |= o2.distinct
    for f in o2.findings:
        out.find("xmove|after-reload|" + f.signature, f.what, case)



# ------------------------------------------------------------------ sessions on ONE model instance with saves in the middle


def build_layout6(spec: dict, dst: pathlib.Path):
    """links.build_layout + the fragmenter options only C06 uses (`minimal_ns`)"""
    if not spec.get("minimal_ns"):
        return links.build_layout(spec, dst)
    src = links.data_dir() / spec["model"]
    res = {k: links.data_dir() / v for k, v in spec.get("resources", {}).items()}
    return fragmenter.fragment(src, dst, [tuple(c) for c in spec["cuts"]], main_rel=spec.get("main_rel"),
                               airdfragments=spec.get("airdfragments", False), resources=res, minimal_ns=True)


def session_specs(ctx: Ctx, model: str, res: dict, n: int) -> list[dict]:
    """layouts for session histories (navigate -> edit -> SAVE -> navigate -> edit below the fragmented element -> SAVE ->
    reload, all on one model instance): one cut (sometimes a second, nested or elsewhere) at an element that has children
    and an id-bearing parent; the fragment file declares either every namespace of the main file (a save has to tidy the
    root up) or only the ones in use (`minimal_ns`: a save replaces the root when an edit brings the first element of
    another metamodel package into the fragment)."""
    from lxml import etree

    src = links.data_dir() / model
    main, _ = fragmenter.find_main(src)
    root = etree.parse(str(src.parent / main)).getroot()
    cands = [e for e in root.iter() if isinstance(e.tag, str) and _cuttable(e, root) and len(e) > 0 and e.getparent().get("id")
             and e.tag != "ownedSpecification" and not (e.get(XSI_T) or "").endswith(("Realization", "Allocation", "Involvement"))]
    # half of them: elements of a component / function / package kind (their classes have many coupled child lists)
    rich = [e for e in cands if (e.get(XSI_T) or "").endswith(("Component", "Function", "Pkg", "Activity", "Entity", "Class", "Architecture", "Analysis"))]
    out: list[dict] = []
    used: set[str] = set()
    for k in range(n):
        pool = rich if (rich and k % 2 == 0) else cands
        if not pool:
            break
        e = ctx.rng.choice(pool)
        cuts = [e]
        if ctx.rng.random() < 0.35:
            e2 = ctx.rng.choice(cands)
            if e2 is not e:
                cuts.append(e2)
        used.clear()
        out.append({"model": model, "resources": res, "cuts": [[c.get("id"), links.gen_frag_path(ctx.rng, used)] for c in cuts],
                    "main_rel": None, "airdfragments": False, "raw_nonascii": False, "small": (model, res) in SMALL,
                    "minimal_ns": k % 2 == 1, "hints": {"session": {"n": k}}})
    return out


def _child_lists(capellambse, obj):
    """(name, accessor) of the coupled child lists of an object (containment lists the API can create into)"""
    out = []
    for name in relation_names(capellambse, type(obj)):
        acc = getattr(type(obj), name)
        if type(acc).__name__ in LIST_ACCESSORS and getattr(acc, "aslist", None) is not None:
            out.append((name, acc))
    return out


def _live(mdl, elem) -> bool:
    """raw: the element hangs in one of the trees the loader holds (and would therefore be written by save())"""
    top = elem
    while top.getparent() is not None:
        top = top.getparent()
    return any(tree.root is top for tree in mdl._loader.trees.values())


def nav_digest(capellambse, mdl, roots_parent: dict[str, str]) -> dict:
    """what one SEES when walking to each fragmented element from its parent (not via by_uuid): the list it is found in,
    whether the element in hand hangs in a loaded tree, its XML children, every relation of it; and the deep accessors of
    the layers (`la.all_components` ...), which cross every placeholder below the layer"""
    d: dict = {}
    for r, pid in sorted(roots_parent.items()):
        rec: dict = {}
        try:
            pobj = mdl.by_uuid(pid)
        except Exception as e:  # noqa: BLE001
            d[r] = {"parent": f"!{type(e).__name__}"}
            continue
        o = None
        for name, _ in _child_lists(capellambse, pobj):
            try:
                hit = [x for x in getattr(pobj, name) if getattr(x, "uuid", None) == r]
            except Exception as e:  # noqa: BLE001
                rec["list:" + name] = f"!{type(e).__name__}"
                continue
            if hit:
                o = hit[0]
                rec["via"] = name
                break
        if o is None:
            rec["via"] = None
            d[r] = rec
            continue
        rec["live"] = _live(mdl, o._element)
        rec["xml_children"] = [(c.tag, c.get("id") or (c.get("href") or "").split("#")[-1]) for c in o._element if isinstance(c.tag, str)]
        try:
            rec["parent"] = canon(o.parent)
        except Exception as e:  # noqa: BLE001
            rec["parent"] = f"!{type(e).__name__}"
        for name in relation_names(capellambse, type(o)):
            acc = getattr(type(o), name)
            if isinstance(acc, capellambse.model.ReferenceSearchingAccessor) or type(acc).__name__ in SCAN_BASED:
                continue
            try:
                rec["." + name] = canon(getattr(o, name))
            except Exception as e:  # noqa: BLE001
                rec["." + name] = f"!{type(e).__name__}"
        d[r] = rec
    for lname in ("oa", "sa", "la", "pa"):
        try:
            layer = getattr(mdl, lname)
        except Exception:  # noqa: BLE001
            continue
        if layer is None:
            continue
        for name in relation_names(capellambse, type(layer)):
            acc = getattr(type(layer), name)
            if type(acc).__name__ != "DeepProxyAccessor":
                continue
            try:
                d[f"{lname}.{name}"] = canon(getattr(layer, name))
            except Exception as e:  # noqa: BLE001
                d[f"{lname}.{name}"] = f"!{type(e).__name__}"
    return d


def _nav_compare(out: Outcome, case: dict, when: str, dm: dict, df: dict, roots: set[str]) -> None:
    for r, rec in df.items():
        if isinstance(rec, dict) and rec.get("live") is False:
            out.find("session|navigation-yields-detached-element",
                     f"{when}: walking from the parent to the fragmented element {r} (list {rec.get('via')!r}) yields an element that hangs in "
                     f"none of the loaded trees (a save would not write what is added below it)", case)
    for k in dm:
        a, b = dm.get(k), df.get(k)
        if a == b:
            continue
        if k in roots and isinstance(a, dict) and isinstance(b, dict):
            kk = next(x for x in list(a) + list(b) if a.get(x) != b.get(x))
            cls = "via-parent|" + ("children" if kk == "xml_children" else "live" if kk == "live" else "relation" if kk.startswith(".") else kk)
            out.find(f"session|navigation-differs|{cls}", f"{when}: fragmented element {r if (r := k) else k} reached from its parent: {kk} "
                     f"monolithic={str(a.get(kk))[:300]} fragmented={str(b.get(kk))[:300]}", case)
        else:
            out.find("session|navigation-differs|deep-accessor", f"{when}: {k} monolithic={str(a)[:300]} fragmented={str(b)[:300]}", case)


def _create_candidates(capellambse, ctx: Ctx, mono, owner_ids: list[str], prefer_new_prefix_vs: set[str] | None):
    """(owner id, list name, class name or None) in the order they are to be tried; with `prefer_new_prefix_vs` the lists whose
    element type lives in a metamodel package that is not among the given prefixes come first"""
    first, rest = [], []
    for oid in owner_ids:
        try:
            obj = mono.by_uuid(oid)
        except Exception:  # noqa: BLE001
            continue
        for name, acc in _child_lists(capellambse, obj):
            xts = sorted(x for x in (getattr(acc, "xtypes", None) or ()) if isinstance(x, str) and ":" in x)
            if not xts:
                rest.append((oid, name, None))
                continue
            xt = ctx.rng.choice(xts)
            item = (oid, name, xt.split(":")[1] if len(xts) > 1 else None)
            if prefer_new_prefix_vs is not None and xt.split(":")[0] not in prefer_new_prefix_vs:
                first.append(item)
            else:
                rest.append(item)
    ctx.rng.shuffle(first)
    ctx.rng.shuffle(rest)
    return first + rest


def _do_create(mdl, owner, name: str, cls: str | None, uuid: str, label: str) -> str:
    try:
        lst = getattr(owner, name)
        if cls:
            lst.create(cls, name=label, uuid=uuid)
        else:
            lst.create(name=label, uuid=uuid)
        return "ok"
    except Exception as e:  # noqa: BLE001
        return "!" + type(e).__name__


def _walk_to(capellambse, mdl, pid: str, r: str):
    """the wrapper of the fragmented element r as found in a child list of its parent (None if it is not found there)"""
    pobj = mdl.by_uuid(pid)
    for name, _ in _child_lists(capellambse, pobj):
        try:
            for x in getattr(pobj, name):
                if getattr(x, "uuid", None) == r:
                    return x
        except Exception:  # noqa: BLE001
            continue
    return None


def session_history(ctx: Ctx, out: Outcome, spec: dict, mono, frag, lay_m, lay_f, tag: str, model_cases: list | None):
    """ONE instance per layout, used before and after its saves: navigate (done by the caller's layout comparison and here) ->
    edit 1 (create inside the fragment, preferably the first element of another metamodel package there; rename) -> SAVE
    (the fragment's root element is replaced when its declarations change) -> navigate again -> edit 2 BELOW the fragmented
    element, reached by walking from its parent -> SAVE -> reload; every step compared with the same session on the
    monolithic twin, the files with the owner map, the saved-and-still-open instance also with the Lean model's answers."""
    capellambse, helpers, core = _imports()
    els = {e.get("id"): e for e in semantic_elements(mono)}
    roots = {r for r in lay_f.fragments.values() if r in els}
    roots_parent = {r: els[r].getparent().get("id") for r in roots if els[r].getparent() is not None and els[r].getparent().get("id")}
    if not roots_parent:
        return
    case = {"kind": "edits", "layout": spec, "script": []}
    out.case(("session", tag), None, nontrivial=True)
    out.hit("session.layout." + ("minimal-namespaces" if spec.get("minimal_ns") else "all-namespaces-declared"))
    uid = lambda: "00000000-c06c-4c06-8c06-%012d" % ctx.rng.randrange(10**12)  # noqa: E731

    def frag_file_roots():
        return {"/".join(fr.parts[1:]): tree.root for fr, tree in frag._loader.trees.items()
                if fr.parts[0] == "\0" and posixpath.splitext(fr.parts[-1])[1] in SEMANTIC}

    def save_both(when: str) -> bool:
        sv = []
        for mdl in (mono, frag):
            try:
                mdl.save()
                sv.append("ok")
            except Exception as e:  # noqa: BLE001
                sv.append(f"!{type(e).__name__}: {e}"[:160])
        if sv != ["ok", "ok"]:
            if sv[0].split(":")[0] != sv[1].split(":")[0]:
                out.find("session|save-outcome-differs", f"{when}: save() monolithic={sv[0]} fragmented={sv[1]}", case)
            return False
        return True

    def owners_check(when: str):
        expected = expected_owner(mono, lay_f)
        owners = files_owner_map(lay_f.root, lay_f.project)
        wrong = {i: (owners.get(i), f) for i, f in expected.items() if owners.get(i) != f}
        extra = {i: f for i, f in owners.items() if i not in expected}
        if wrong:
            i, (got, want) = next(iter(sorted(wrong.items())))
            out.find("session|save|element-not-in-owning-fragment", f"{when}: {len(wrong)} elements are not in the file that owns them, e.g. {i}: "
                     f"in {got}, owner {want}", case)
        if extra:
            out.find("session|save|unexpected-elements", f"{when}: {len(extra)} elements that the monolithic twin does not have, e.g. {next(iter(extra.items()))}", case)
        return expected

    def layouts_equal(when: str, prefix: str, a, b, expected, budget: int):
        o = Outcome()
        try:
            compare_layouts(ctx, o, spec, a, b, _with_owner(lay_f, expected), objs_budget=budget, with_backrefs=False, tag=tag + "+" + prefix,
                            extra_ids=[st.get("id") for st in case["script"] if st.get("id")] + [st.get("uuid") for st in case["script"] if st.get("uuid")])
        except Exception as e:  # noqa: BLE001
            o.find(f"api|raises:{type(e).__name__}", f"observing raised {type(e).__name__}: {e}"[:240], case)
        out.evaluations += o.evaluations
        out.distinct |= o.distinct
        for f in o.findings:
            out.find(f"session|{prefix}|" + f.signature, f"{when}: " + f.what, case)

    # ---- 0: navigate
    _nav_compare(out, case, "freshly loaded", nav_digest(capellambse, mono, roots_parent), nav_digest(capellambse, frag, roots_parent), roots)
    # ---- 1: edit inside a fragment
    r0 = ctx.rng.choice(sorted(roots_parent))
    inside = [r0] + [d.get("id") for d in els[r0].iterdescendants() if isinstance(d.tag, str) and d.get("id") and d.get(XSI_T)][:12]
    used_prefixes = {(d.get(XSI_T) or ":").split(":")[0] for d in els[r0].iter() if isinstance(d.tag, str)}
    created = []
    for oid, name, cls in _create_candidates(capellambse, ctx, mono, inside, used_prefixes)[:8]:
        u = uid()
        st = {"op": "create", "id": oid, "attr": name, "cls": cls, "uuid": u}
        case["script"].append(st)
        rm = _do_create(mono, mono.by_uuid(oid), name, cls, u, "verif session 1")
        try:
            rf = _do_create(frag, frag.by_uuid(oid), name, cls, u, "verif session 1")
        except Exception as e:  # noqa: BLE001
            rf = "!by_uuid:" + type(e).__name__
        if rm != rf:
            out.find("session|outcome-differs|create", f"create in {name} of {oid}: monolithic={rm} fragmented={rf}", case)
            return
        if rm == "ok":
            created.append((u, oid))
            out.hit("session.edit1.create")
            break
        out.hit("session.edit1.refused")
    st = {"op": "rename", "id": r0, "name": "verif session renamed"}
    case["script"].append(st)
    lm, lf = apply_script(mono, [st]), apply_script(frag, [st])
    if lm != lf:
        out.find("session|outcome-differs|rename", f"monolithic={lm} fragmented={lf}", case)
        return
    # ---- save 1 (in the middle of the session)
    before = frag_file_roots()
    if not save_both("first save"):
        return
    after = frag_file_roots()
    replaced = sorted(f for f in after if f != lay_f.main and before.get(f) is not after[f])
    out.hit("session.save1.fragment-root-replaced" if replaced else "session.save1.fragment-root-kept")
    case["script"].append({"op": "save", "replaced_roots": replaced})
    expected = owners_check("after the first save")
    # ---- 2: navigate again, on the same instances
    _nav_compare(out, case, "after the first save, same instance", nav_digest(capellambse, mono, roots_parent),
                 nav_digest(capellambse, frag, roots_parent), roots)
    layouts_equal("after the first save, same instance", "after-save", mono, frag, expected, 30)
    if model_cases is not None and {e.get("id") for e in semantic_elements(mono)} == {e.get("id") for e in semantic_elements(frag)}:
        from props import c06_model

        try:
            c06_model.collect(ctx, out, {**spec, "session": "after the first save, same instance"}, mono, frag, lay_f, model_cases, tag + "+session-saved")
            out.hit("session.model-tie-after-save")
        except Exception as e:  # noqa: BLE001
            out.find(f"session|after-save|api|raises:{type(e).__name__}", f"navigating the saved instance raised {type(e).__name__}: {e}"[:240], case)
    # ---- 3: edit BELOW the fragmented element, reached by walking from its parent
    wm, wf = _walk_to(capellambse, mono, roots_parent[r0], r0), _walk_to(capellambse, frag, roots_parent[r0], r0)
    if (wm is None) != (wf is None):
        out.find("session|navigation-differs|via-parent|via", f"after the first save: {r0} is {'not ' if wf is None else ''}found in a child list of its parent "
                 f"in the fragmented model, {'not ' if wm is None else ''}in the monolithic one", case)
        return
    if wm is not None:
        for _, name, cls in _create_candidates(capellambse, ctx, mono, [r0], None)[:8]:
            u = uid()
            case["script"].append({"op": "create-below-walked", "id": r0, "attr": name, "cls": cls, "uuid": u})
            rm, rf = _do_create(mono, wm, name, cls, u, "verif session 2"), _do_create(frag, wf, name, cls, u, "verif session 2")
            if rm != rf:
                out.find("session|outcome-differs|create-below-fragmented-element", f"after the first save: create in {name} of {r0} (reached from its parent): "
                         f"monolithic={rm} fragmented={rf}", case)
                return
            if rm == "ok":
                created.append((u, r0))
                out.hit("session.edit2.create")
                break
            out.hit("session.edit2.refused")
    _nav_compare(out, case, "after the second edit", nav_digest(capellambse, mono, roots_parent), nav_digest(capellambse, frag, roots_parent), roots)
    # ---- save 2, files, reload
    if not save_both("second save"):
        return
    expected = owners_check("after the second save")
    try:
        mono2 = capellambse.MelodyModel(lay_m.aird, resources=dict(lay_m.resources))
        frag2 = capellambse.MelodyModel(lay_f.aird, resources=dict(lay_f.resources))
    except Exception as e:  # noqa: BLE001
        out.find(f"session|load|raises:{type(e).__name__}", f"reloading after the session raised {type(e).__name__}: {e}"[:240], case)
        return
    for u, oid in created:
        res = []
        for mdl in (mono2, frag2):
            try:
                res.append(canon(mdl.by_uuid(u).parent))
            except Exception as e:  # noqa: BLE001
                res.append("!" + type(e).__name__)
        if res[0] != res[1]:
            out.find("session|after-reload|created-element-differs", f"the element {u} created below {oid}: after reload its parent is monolithic={res[0]} "
                     f"fragmented={res[1]}", case)
    _nav_compare(out, case, "after reload", nav_digest(capellambse, mono2, roots_parent), nav_digest(capellambse, frag2, roots_parent), roots)
    layouts_equal("after the session, reloaded", "after-reload", mono2, frag2, expected, 30)


def _with_owner(lay, owner):
    import dataclasses

    return dataclasses.replace(lay, owner=owner)


# ------------------------------------------------------------------ layouts


def gen_specs(ctx: Ctx) -> list[dict]:
    specs: list[dict] = []
    used: set[str] = set()
    small = SMALL[: ctx.pick(3, 4)]
    for model, res in small:
        src = links.data_dir() / model
        main, _ = fragmenter.find_main(src)
        cands = [c for c in fragmenter.candidate_cut_points(src.parent / main) if c[2] >= (1 if ctx.thorough else 2)]
        if not ctx.thorough:
            ctx.rng.shuffle(cands)
            cands = cands[: max(6, len(cands) // 5)]
        for c in cands:
            used.clear()
            specs.append({"model": model, "resources": res, "cuts": [[c[0], links.gen_frag_path(ctx.rng, used)]],
                          "main_rel": ctx.rng.choice([None, None, None, "sem/Main Model.capella"]),
                          "airdfragments": ctx.rng.random() < 0.3, "raw_nonascii": False, "small": True})
        for _ in range(ctx.pick(3, 12)):
            s = links.gen_layout_spec(ctx.rng, model, res, ncuts=ctx.rng.randint(2, 4))
            s["raw_nonascii"] = False
            s["small"] = True
            specs.append(s)
    # witnesses of the recorded findings (raw child reads), present in both tiers
    for model, res, pred in ((SMALL[0][0], SMALL[0][1], lambda e: (e.get(XSI_T) or "").endswith("Realization") and len(e) == 0),
                             (LARGE[0][0], LARGE[0][1], lambda e: e.tag == "ownedSpecification")):
        src = links.data_dir() / model
        main, _ = fragmenter.find_main(src)
        from lxml import etree

        root = etree.parse(str(src.parent / main)).getroot()
        hit = next((e for e in root.iter() if isinstance(e.tag, str) and e.get("id") and e.get(XSI_T) and e is not root and pred(e)), None)
        if hit is not None:
            specs.append({"model": model, "resources": res, "cuts": [[hit.get("id"), "fragments/witness.capellafragment"]],
                          "main_rel": None, "airdfragments": False, "raw_nonascii": False, "small": model == SMALL[0][0], "witness": True})
    # layouts built for edit histories: (a) a fragment below an element that can be moved to a same-typed twin
    # of its parent, (b) a fragment around an element that is referenced from outside the fragment
    for model, res in (SMALL[: ctx.pick(2, 4)] + LARGE[: ctx.pick(1, 3)]):
        specs += edit_witness_specs(ctx, model, res, ctx.pick(2, 4))
    # (c) an existing element is moved into another FILE through the list API and then edited again
    for model, res in (SMALL[:1] + SMALL[2:3] + LARGE[:1] if not ctx.thorough else SMALL + LARGE[:3]):
        specs += xmove_specs(ctx, model, res, ctx.pick(5 if (model, res) in SMALL else 3, 10))
    large = LARGE[: ctx.pick(1, 5)]
    for model, res in large:
        for _ in range(ctx.pick(2, 5)):
            s = links.gen_layout_spec(ctx.rng, model, res)
            s["raw_nonascii"] = False
            s["small"] = False
            specs.append(s)
    # (d) sessions on one instance: navigate -> edit -> save (root replacement) -> navigate -> edit below the fragment -> save ->
    # reload (generated last: the layouts above stay what they were for a given seed)
    for (model, res), n in ([(SMALL[0], 3), (LARGE[3], 2), (LARGE[2], 1)] if not ctx.thorough
                            else [(m, 6) for m in SMALL] + [(m, 3) for m in LARGE]):
        specs += session_specs(ctx, model, res, n)
    return specs


def edit_witness_specs(ctx: Ctx, model: str, res: dict, n: int) -> list[dict]:
    from lxml import etree

    src = links.data_dir() / model
    main, _ = fragmenter.find_main(src)
    root = etree.parse(str(src.parent / main)).getroot()
    els = {e.get("id"): e for e in root.iter() if isinstance(e.tag, str) and e.get("id")}
    cuttable = lambda e: e is not root and e.get("id") and e.get(XSI_T) and e.getparent() is not None  # noqa: E731
    out: list[dict] = []
    used: set[str] = set()
    # (a) move x (to a same-typed twin of its parent) while a proper descendant of x lives in its own fragment
    pairs = move_candidates(els, set(), prefer_ancestors=False)
    ctx.rng.shuffle(pairs)
    k = 0
    for x, q in pairs:
        desc = [d for d in els[x].iterdescendants() if isinstance(d.tag, str) and cuttable(d) and len(d) > 0]
        if not desc:
            continue
        d = ctx.rng.choice(desc)
        used.clear()
        out.append({"model": model, "resources": res, "cuts": [[d.get("id"), links.gen_frag_path(ctx.rng, used)]], "main_rel": None,
                    "airdfragments": False, "raw_nonascii": False, "small": (model, res) in SMALL, "hints": {"move": [x, q]}})
        k += 1
        if k >= n:
            break
    # (b) delete t, which sits inside a fragment and is referenced from outside of it
    xrefs = []
    for i, e in els.items():
        for kk, v in e.attrib.items():
            if kk in ("id", XSI_T) or not v.startswith("#"):
                continue
            for _, _, t in fragmenter.split_link_tokens(v) or []:
                if t in els and t != i:
                    xrefs.append((i, t))
    ctx.rng.shuffle(xrefs)
    k = 0
    for r, t in xrefs:
        a = els[t].getparent()
        while a is not None and cuttable(a):
            inside = {d.get("id") for d in a.iter() if isinstance(d.tag, str)}
            if r not in inside:
                break
            a = a.getparent()
        if a is None or not cuttable(a) or r in {d.get("id") for d in a.iter() if isinstance(d.tag, str)}:
            continue
        used.clear()
        out.append({"model": model, "resources": res, "cuts": [[a.get("id"), links.gen_frag_path(ctx.rng, used)]], "main_rel": None,
                    "airdfragments": False, "raw_nonascii": False, "small": (model, res) in SMALL, "hints": {"delete": t}})
        k += 1
        if k >= n:
            break
    return out


def run_layout(ctx: Ctx, out: Outcome, spec: dict, si: int, model_cases: list | None, read_cases: list | None = None):
    capellambse, helpers, core = _imports()
    base = ctx.scratch / f"c06-{si}"
    res = {k: links.data_dir() / v for k, v in spec.get("resources", {}).items()}
    src = links.data_dir() / spec["model"]
    lay_m = fragmenter.monolithic_copy(src, base / "mono", resources=res)
    lay_f = build_layout6(spec, base / "frag")
    tag = spec["model"] + "#" + common.sha(spec)
    try:
        mono = capellambse.MelodyModel(lay_m.aird, resources=dict(lay_m.resources))
        frag = capellambse.MelodyModel(lay_f.aird, resources=dict(lay_f.resources))
    except Exception as e:  # noqa: BLE001
        out.find("load|raises", f"loading the layout raised {type(e).__name__}: {e}"[:200], {"kind": "layout", "layout": spec})
        shutil.rmtree(base, ignore_errors=True)
        return
    small = spec.get("small", False)
    # layouts that cut out an element which some accessor reads without following placeholders (recorded finding):
    # whatever differs there carries that cause in its signature
    els0 = {e.get("id"): e for e in semantic_elements(mono)}
    cause = raw_read_cause(capellambse, els0, {r for r in lay_f.fragments.values() if r in els0})
    local = Outcome()

    def phase(name, fn):
        """an exception of the implementation while it is being observed is a finding, never a crash of the check"""
        try:
            fn()
        except common.InfraError:
            raise
        except Exception as e:  # noqa: BLE001
            import traceback

            where = [fr for fr in traceback.extract_tb(e.__traceback__) if "capellambse" in fr.filename]
            at = f"{pathlib.Path(where[-1].filename).name}:{where[-1].name}" if where else "harness"
            local.find(f"{name}|api|raises:{type(e).__name__}", f"{name}: {type(e).__name__}: {e} (in {at})"[:300],
                       {"kind": "edits" if name != "compare" else "layout", "layout": spec})

    xmove = bool((spec.get("hints") or {}).get("xmove"))
    if not xmove:  # (layouts built for a cross-file move history go straight to the history; their cut shapes are covered above)
        phase("compare", lambda: compare_layouts(ctx, local, spec, mono, frag, lay_f, objs_budget=ctx.pick(60 if small else 25, 400 if small else 60),
                                                 with_backrefs=small, tag=tag))
    if model_cases is not None and not xmove:
        from props import c06_model

        phase("model-tie", lambda: c06_model.collect(ctx, out, spec, mono, frag, lay_f, model_cases, tag))
    if read_cases is not None and not xmove:
        from props import c06_reads

        phase("reads-tie", lambda: c06_reads.collect(ctx, out, spec, mono, frag, lay_f, read_cases, tag))
    if (spec.get("hints") or {}).get("xmove"):
        phase("xmove", lambda: xmove_history(ctx, local, spec, mono, frag, lay_m, lay_f, tag))
    elif (spec.get("hints") or {}).get("session"):
        phase("session", lambda: session_history(ctx, local, spec, mono, frag, lay_m, lay_f, tag, model_cases))
    elif spec.get("hints") or si % ctx.pick(3, 5) == 0:
        phase("edits", lambda: edits_and_save(ctx, local, spec, mono, frag, lay_m, lay_f, tag))
    out.evaluations += local.evaluations
    out.distinct |= local.distinct
    for b, n in local.branches.items():
        out.hit(b, n)
    suffix = "|" + cause
    for f in local.findings:
        sig = f.signature
        if cause != "structural-cut" and cause not in sig and "referrer-holds-a-placeholder" not in sig:
            sig += suffix
        for _ in range(local.extra.get("finding_counts", {}).get(f.signature, 1)):
            out.find(sig, f.what, f.replay)
    shutil.rmtree(base, ignore_errors=True)


def run(ctx: Ctx) -> Outcome:
    import logging

    logging.disable(logging.WARNING)
    out = Outcome(rule=RULE)
    specs = gen_specs(ctx)
    out.extra["layouts"] = {"total": len(specs), "single_cut": sum(1 for s in specs if len(s["cuts"]) == 1),
                            "multi_cut": sum(1 for s in specs if len(s["cuts"]) > 1),
                            "airdfragment_indirection": sum(1 for s in specs if s.get("airdfragments")),
                            "relocated_main": sum(1 for s in specs if s.get("main_rel")),
                            "cross_file_move_histories": sum(1 for s in specs if (s.get("hints") or {}).get("xmove")),
                            "sessions_with_saves_in_the_middle": sum(1 for s in specs if (s.get("hints") or {}).get("session")),
                            "fragments_declaring_only_used_namespaces": sum(1 for s in specs if s.get("minimal_ns"))}
    model_cases: list | None = [] if os.environ.get("VERIF_NO_MODEL") != "1" and (common.LEAN / "Capella/Driver/Frag.lean").exists() else None
    read_cases: list | None = [] if model_cases is not None and (common.LEAN / "Capella/Driver/RelRead.lean").exists() else None
    for si, spec in enumerate(specs):
        run_layout(ctx, out, spec, si, model_cases, read_cases)
    if model_cases:
        from props import c06_model

        c06_model.compare(out, model_cases)
    if read_cases:
        from props import c06_reads

        c06_reads.compare(out, read_cases)
    return out


def replay(ctx: Ctx, case: dict):
    try:
        return _replay(ctx, case)
    except Exception as e:  # noqa: BLE001
        return f"the implementation raised {type(e).__name__}: {e}"[:300]


def _replay(ctx: Ctx, case: dict):
    import logging

    logging.disable(logging.WARNING)
    spec = case.get("layout")
    if not spec:
        return None
    o = Outcome()
    ctx.rng.seed(0)
    run_layout(ctx, o, spec, 0 if case.get("kind") == "edits" else 1, None)
    kinds = {"object": "api|", "search": "api|search", "nav": "loader|", "edits": ("edit|", "edits|", "edited|", "save|", "after-edits|", "xmove|", "session|"), "layout": ("load|", "compare|", "model-tie|", "reads-tie|")}
    want = kinds.get(case.get("kind"), "")
    for f in o.findings:
        if f.signature.startswith(want):
            return f.what
    return None
