"""C06 — a fragmented model behaves exactly like its single-file equivalent.

Monitor (implementation only): the same content is written twice by harness/fragmenter.py — monolithic and
with 1..4 (nested) subtrees cut into fragment files — and loaded twice; a digest of everything the API
answers (parent, layer, every relation of every object incl. back-references, subtree-restricted searches,
raw loader navigation) must be equal; the same edit script applied to both, saved and reloaded must again give
equal digests, and every element must be found in the file that owns it.

Correspondence: the Lean model `Capella.Frag` gets the monolithic tree and the cut set, computes `split`,
and (a) its files are compared, node by node, with the files the fragmenter wrote and the loader parsed,
(b) its navigation answers on the split store (children_xt, descendants(_xt), parent, ancestors,
search-below, owning file) are compared with the implementation's answers on the fragmented layout.
"""

from __future__ import annotations

import os
import pathlib
import posixpath
import shutil
import sys

import common
from common import Ctx, Outcome

sys.path.insert(0, str(pathlib.Path(__file__).resolve().parent.parent))
import fragmenter  # noqa: E402
from props import c05 as links  # noqa: E402  (layout generator, corpus list)

DRIVERS = ["Frag"]
TABLES = False
LEVEL = "proof"
RULE = ("layouts: for small models (writemodel, empty_project_52, filtering, library project) every single cut point "
        "whose subtree has >= 2 elements (quick: a seeded third of them, thorough: all) plus seeded sets of 2-4 (nested) "
        "cuts; for large models seeded sets of 1-4 (nested) cuts; fragment files at depth 0-3 with spaces/%/#/non-ASCII, "
        "optional relocated main file and .airdfragment indirection. per layout: every semantic object's parent, layer and "
        "all relations (small models; seeded sample of objects on large ones), searches below every cut root, its parent and "
        "a seeded sample, raw loader navigation for every element. distinct = distinct (model, cut set, object/relation); "
        "non-trivial = the object or one of its ancestors/descendants is a fragment root")
ASSUMPTIONS = [
    "harness/fragmenter.py states what Capella's fragmentation writes (tag-typed root, href placeholder with xsi:type, link rewriting, semanticResources)",
    "search results are compared as sets of ids: their order is an artefact of the per-file, per-xsi:type index (not document order even in one file)",
    "diagrams (visual elements) are not moved into .airdfragment files; only semantic subtrees are cut",
]
TRUSTED = ["C06: harness/fragmenter.py (independent fragment writer); lxml parsing of the written files"]
MANIFEST = dict(
    text=("Lean theorems over a model of trees with href placeholders: for every cut set S, `split S t` (nested cuts, "
          "tag-typed fragment roots) is a store whose join is t again, and children_xt, descendants, descendants_xt, "
          "parent, ancestors, search-below and the owning file computed on the store by the modelled loader code (placeholder "
          "following via id lookup over all files, upward navigation via the placeholder that links to a file root) equal "
          "those on t. Tied to /repo by running the implementation on monolithic and fragmented layouts written by an "
          "independent fragmenter, comparing both with each other (digest of parents, layers, all relations incl. "
          "back-references, subtree searches; edits + save + reload) and with the model's split and navigation answers."),
    design_ref="§6 C06",
    note=("Trusted: Lean kernel; harness/fragmenter.py as statement of Capella's fragmentation; lxml. Only semantic subtrees "
          "are fragmented (no diagram migration into .airdfragment). Search results compared as sets. Tag-filtered "
          "iterancestors differs at fragment roots (root tag is the class name) - not used by the object API, recorded in design/C06.md."),
    technique="Lean 4 refinement proof (structural induction over nested trees, permutation/nodup of keys) + differential runs on both layouts + digest monitor",
)

XSI_T = links.XSI_T
SEMANTIC = links.SEMANTIC
SMALL = [("writemodel/WriteTestModel.aird", {}), ("decl/empty_project_52/empty_project_52.aird", {}),
         ("filtering/Filtered Project.aird", {}), ("Library Project/Library Project.aird", {"Library Test": "Library Test"})]
LARGE = [("melodymodel/5_2/Melody Model Test.aird", {}), ("melodymodel/6_0/Melody Model Test.aird", {}),
         ("melodymodel/5_0/Melody Model Test.aird", {}), ("pvmt/PVMTTest.aird", {}), ("parser/TestItems.aird", {})]


def _imports():
    return links._imports()


# ------------------------------------------------------------------ digest


def canon(v):
    """canonical, layout-independent rendering of an API value"""
    import enum

    if v is None or isinstance(v, (bool, int, str)):
        return v
    if isinstance(v, float):
        return repr(v)
    if isinstance(v, enum.Enum):
        return f"{type(v).__name__}.{v.name}"
    u = getattr(v, "uuid", None)
    if isinstance(u, str) and not isinstance(v, (list, tuple)):
        return "@" + u
    if isinstance(v, (list, tuple)) or hasattr(v, "__iter__") and hasattr(v, "__len__"):
        try:
            return [canon(x) for x in v]
        except Exception as e:  # noqa: BLE001
            return f"!{type(e).__name__}"
    return f"<{type(v).__name__}>"


def relation_names(capellambse, cls) -> list[str]:
    out = []
    for name in dir(cls):
        if name.startswith("_") or name in ("parent", "layer", "diagrams", "visible_on_diagrams", "xtype", "progress_status"):
            continue
        acc = getattr(cls, name, None)
        if isinstance(acc, capellambse.model.Accessor):
            out.append(name)
    return out


def object_digest(capellambse, mdl, elem, with_backrefs: bool) -> dict:
    obj = mdl.by_uuid(elem.get("id"))
    d: dict = {}
    try:
        d["parent"] = canon(obj.parent)
    except AttributeError as e:
        d["parent"] = "!orphaned" if "orphaned" in str(e) else "!AttributeError"
    except Exception as e:  # noqa: BLE001
        d["parent"] = f"!{type(e).__name__}"
    try:
        d["layer"] = canon(obj.layer)
    except AttributeError:
        d["layer"] = None
    except Exception as e:  # noqa: BLE001
        d["layer"] = f"!{type(e).__name__}"
    for name in relation_names(capellambse, type(obj)):
        acc = getattr(type(obj), name)
        if not with_backrefs and isinstance(acc, capellambse.model.ReferenceSearchingAccessor):
            continue
        try:
            v = canon(getattr(obj, name))
            if isinstance(v, list) and (isinstance(acc, capellambse.model.ReferenceSearchingAccessor)
                                        or type(acc).__name__ in SCAN_BASED):
                # back-references / relation lookups are built on model.search(): found file after file,
                # type after type - their order is not a model property
                v = sorted(v, key=str)
            d["." + name] = v
        except Exception as e:  # noqa: BLE001
            d["." + name] = f"!{type(e).__name__}"
    return d


_LINK_XT: set | None = None


def raw_read_cause(capellambse, els_m, roots) -> str:
    """does the layout cut an element that some accessor reads with a plain `iterchildren()` (no placeholder
    following): the reference elements of a LinkAccessor, or an `ownedSpecification`?"""
    global _LINK_XT
    if _LINK_XT is None:
        _LINK_XT = set()
        for cls in capellambse.model._xtype.XTYPE_HANDLERS[None].values():
            for name in dir(cls):
                acc = getattr(cls, name, None)
                if isinstance(acc, capellambse.model.LinkAccessor):
                    _LINK_XT |= set(acc.xtypes)
    for r in roots:
        e = els_m[r]
        if e.get(XSI_T) in _LINK_XT or e.tag == "ownedSpecification":
            return "link-element-or-specification-is-fragment-root"
    return "structural-cut"


def semantic_elements(mdl):
    """id-bearing, typed elements of all semantic files of the *main* resource, by raw iteration"""
    out = []
    for frag, tree in mdl._loader.trees.items():
        if frag.parts[0] != "\0" or posixpath.splitext(frag.parts[-1])[1] not in SEMANTIC:
            continue
        for e in tree.root.iter():
            if isinstance(e.tag, str) and e.get("id") and e.get("href") is None:
                out.append(e)
    return out


def loader_digest(mdl, helpers, elem) -> dict:
    ldr = mdl._loader
    d = {}
    try:
        d["ancestors"] = [a.get("id") for a in ldr.iterancestors(elem)]
    except Exception as e:  # noqa: BLE001
        d["ancestors"] = f"!{type(e).__name__}"
    try:
        d["children_xt"] = [(c.get("id"), helpers.xtype_of(c)) for c in ldr.iterchildren_xt(elem)]
    except Exception as e:  # noqa: BLE001
        d["children_xt"] = f"!{type(e).__name__}"
    try:
        desc = list(ldr.iterdescendants(elem))
        d["descendants"] = [x.get("id") for x in desc]
        d["descendants_xt"] = [(x.get("id"), helpers.xtype_of(x)) for x in ldr.iterdescendants_xt(elem)]
    except Exception as e:  # noqa: BLE001
        d["descendants"] = f"!{type(e).__name__}"
    return d


def search_digest(mdl, elem, xtypes) -> dict:
    obj = mdl.by_uuid(elem.get("id"))
    d = {}
    for xt in xtypes:
        try:
            res = mdl.search(*([xt] if xt else []), below=obj)
            d[xt or "*"] = sorted(o.uuid for o in res)
        except Exception as e:  # noqa: BLE001
            d[xt or "*"] = f"!{type(e).__name__}"
    return d


SCAN_BASED = {"ElementRelationAccessor", "RequirementsRelationAccessor"}
SEARCH_XT = [None, "LogicalFunction", "LogicalComponent", "SystemFunction", "PhysicalComponent", "FunctionalExchange", "Class", "Part"]


def compare_layouts(ctx: Ctx, out: Outcome, spec: dict, mono, frag, lay, objs_budget: int, with_backrefs: bool, tag: str):
    """digest equality monolithic vs fragmented; returns nothing, reports findings"""
    capellambse, helpers, core = _imports()
    els_m = {e.get("id"): e for e in semantic_elements(mono)}
    els_f = {e.get("id"): e for e in semantic_elements(frag)}
    roots = set(lay.fragments.values())
    if set(els_m) != set(els_f):
        out.find("load|element-set-differs", f"{len(set(els_m) ^ set(els_f))} ids differ between the layouts",
                 {"kind": "layout", "layout": spec})
        return
    ids = sorted(els_m)
    # objects near the cuts first, then a seeded sample
    near = set()
    for r in roots:
        near.add(r)
        e = els_f[r]
        for c in e:
            if c.get("id"):
                near.add(c.get("id"))
        pm = els_m[r].getparent()
        if pm is not None and pm.get("id"):
            near.add(pm.get("id"))
            gp = pm.getparent()
            if gp is not None and gp.get("id"):
                near.add(gp.get("id"))
        for x in list(els_m[r].iterdescendants())[:6]:
            if x.get("id"):
                near.add(x.get("id"))
    rest = [i for i in ids if i not in near]
    ctx.rng.shuffle(rest)
    chosen = sorted(near) + rest[: max(0, objs_budget - len(near))]

    def below_cut(i):
        e = els_m[i]
        return i in roots or any(a.get("id") in roots for a in e.iterancestors()) or any(x.get("id") in roots for x in e.iterdescendants())

    for i in chosen:
        dm = object_digest(capellambse, mono, els_m[i], with_backrefs)
        df = object_digest(capellambse, frag, els_f[i], with_backrefs)
        out.case(("obj", tag, i), None, nontrivial=below_cut(i))
        if dm != df:
            keys = [k for k in dm if dm.get(k) != df.get(k)] + [k for k in df if k not in dm]
            k = keys[0]
            cls = "parent" if k == "parent" else ("layer" if k == "layer" else "relation")
            if cls == "relation":
                acc = getattr(type(mono.by_uuid(i)), k[1:], None)
                cls += "-differs|" + type(acc).__name__ + "|" + raw_read_cause(capellambse, els_m, roots)
                out.find(f"api|{cls}", f"{els_m[i].get(XSI_T)} {i}: {k} monolithic={str(dm.get(k))[:120]} fragmented={str(df.get(k))[:120]}",
                         {"kind": "object", "layout": spec, "id": i, "what": k})
                continue
            out.find(f"api|{cls}-differs", f"{els_m[i].get(XSI_T)} {i}: {k} monolithic={str(dm.get(k))[:120]} fragmented={str(df.get(k))[:120]}",
                     {"kind": "object", "layout": spec, "id": i, "what": k})
    # raw loader navigation for every element
    for i in ids:
        lm = loader_digest(mono, helpers, els_m[i])
        lf = loader_digest(frag, helpers, els_f[i])
        out.case(("nav", tag, i), None, nontrivial=below_cut(i))
        if lm != lf:
            k = [k for k in lm if lm.get(k) != lf.get(k)][0]
            out.find(f"loader|{k}-differs", f"{i}: {k} monolithic={str(lm.get(k))[:120]} fragmented={str(lf.get(k))[:120]}",
                     {"kind": "nav", "layout": spec, "id": i, "what": k})
        try:
            owner = "/".join(frag._loader.find_fragment(els_f[i]).parts[1:])
        except Exception as e:  # noqa: BLE001
            owner = f"!{type(e).__name__}"
        if owner != lay.owner.get(i):
            out.find("loader|find_fragment-not-owner", f"{i}: find_fragment={owner}, owner={lay.owner.get(i)}",
                     {"kind": "nav", "layout": spec, "id": i, "what": "find_fragment"})
    # unrestricted searches (a placeholder must not show up as an object)
    xts = list(dict.fromkeys(SEARCH_XT + [(els_m[r].get(XSI_T) or ":").split(":")[1] for r in roots]))
    for xt in xts:
        def gs(m):
            try:
                return sorted(o.uuid for o in m.search(*([xt] if xt else [])))
            except Exception as e:  # noqa: BLE001
                return f"!{type(e).__name__}"
        sm, sf = gs(mono), gs(frag)
        out.case(("gsearch", tag, xt), None, nontrivial=True)
        if sm != sf:
            out.find("api|search-differs", f"search({xt or '*'}): monolithic {len(sm) if isinstance(sm, list) else sm} results, fragmented {len(sf) if isinstance(sf, list) else sf}",
                     {"kind": "search", "layout": spec, "id": None, "xtype": xt})
    # searches restricted to a subtree
    targets = list(dict.fromkeys([r for r in roots] + [els_m[r].getparent().get("id") for r in roots if els_m[r].getparent() is not None
                                                        and els_m[r].getparent().get("id")] + chosen[:6]))
    for i in targets[: 10 if objs_budget < 100 else 30]:
        sm = search_digest(mono, els_m[i], SEARCH_XT)
        sf = search_digest(frag, els_f[i], SEARCH_XT)
        out.case(("search", tag, i), None, nontrivial=True)
        if sm != sf:
            k = [k for k in sm if sm.get(k) != sf.get(k)][0]
            nm = len(sm[k]) if isinstance(sm[k], list) else sm[k]
            nf = len(sf[k]) if isinstance(sf[k], list) else sf[k]
            out.find("api|search-below-differs", f"search({k}, below={i}): monolithic {nm} results, fragmented {nf}",
                     {"kind": "search", "layout": spec, "id": i, "xtype": k})


# ------------------------------------------------------------------ edits + save


def edit_script(ctx: Ctx, lay, mono) -> list[dict]:
    """edits that touch the inside of fragments: renames, a created child, a cross-file reference, a deletion"""
    els = {e.get("id"): e for e in semantic_elements(mono)}
    inside = [i for i, f in lay.owner.items() if f != lay.main and i in els and els[i].get("name")]
    outside = [i for i, f in lay.owner.items() if f == lay.main and i in els and els[i].get("name")]
    script: list[dict] = []
    for pool in (inside, outside):
        for i in ctx.rng.sample(pool, min(2, len(pool))):
            script.append({"op": "rename", "id": i, "name": f"verif renamed {len(script)}"})
    fnlike = [i for i in inside if (els[i].get(XSI_T) or "").endswith(("LogicalFunction", "SystemFunction", "PhysicalFunction", "OperationalActivity"))]
    if fnlike:
        script.append({"op": "create_fn", "id": ctx.rng.choice(fnlike), "uuid": "00000000-c06c-4c06-8c06-%012d" % ctx.rng.randrange(10**12),
                       "name": "verif created"})
    pkgs = [i for i in inside + outside if (els[i].get(XSI_T) or "").endswith(("FunctionPkg", "ComponentPkg"))]
    if inside and outside:
        script.append({"op": "setrefs", "id": ctx.rng.choice(outside), "targets": ctx.rng.sample(inside, min(3, len(inside)))})
        script.append({"op": "setrefs", "id": ctx.rng.choice(inside), "targets": ctx.rng.sample(outside, min(2, len(outside))) + ctx.rng.sample(inside, 1)})
    del pkgs
    return script


def apply_script(mdl, script: list[dict]) -> list[str]:
    log = []
    for st in script:
        try:
            obj = mdl.by_uuid(st["id"])
            if st["op"] == "rename":
                obj.name = st["name"]
            elif st["op"] == "create_fn":
                obj.functions.create(name=st["name"], uuid=st["uuid"])
            elif st["op"] == "setrefs":
                obj.applied_property_values = [mdl.by_uuid(t) for t in st["targets"]]
            log.append("ok")
        except Exception as e:  # noqa: BLE001
            log.append(f"!{type(e).__name__}: {e}"[:160])
    return log


def files_owner_map(lay_root: pathlib.Path, project: str) -> dict[str, str]:
    """raw: id -> project-relative semantic file that contains the element (after a save)"""
    from lxml import etree

    pdir = lay_root / project
    out: dict[str, str] = {}
    for p in sorted(pdir.rglob("*")):
        if p.is_file() and p.suffix in SEMANTIC:
            rel = p.relative_to(pdir).as_posix()
            for e in etree.parse(str(p)).getroot().iter():
                if isinstance(e.tag, str) and e.get("id") and e.get("href") is None:
                    if e.get("id") in out:
                        out[e.get("id")] = out[e.get("id")] + "|" + rel
                    else:
                        out[e.get("id")] = rel
    return out


def edits_and_save(ctx: Ctx, out: Outcome, spec: dict, mono, frag, lay_m, lay_f, tag: str):
    capellambse, helpers, core = _imports()
    script = edit_script(ctx, lay_f, mono)
    if not script:
        return
    lm = apply_script(mono, script)
    lf = apply_script(frag, script)
    case = {"kind": "edits", "layout": spec, "script": script}
    out.case(("edits", tag, len(script)), None, nontrivial=True)
    if lm != lf:
        out.find("edit|outcome-differs", f"edit outcomes monolithic={lm} fragmented={lf}", case)
        return
    try:
        mono.save()
        frag.save()
    except Exception as e:  # noqa: BLE001
        out.find("save|raises", f"save raised {type(e).__name__}: {e}"[:200], case)
        return
    owners = files_owner_map(lay_f.root, lay_f.project)
    expected = dict(lay_f.owner)
    for st in script:
        if st["op"] == "create_fn" and "ok" in lf[script.index(st)]:
            expected[st["uuid"]] = lay_f.owner[st["id"]]
    wrong = {i: (owners.get(i), f) for i, f in expected.items() if owners.get(i) != f}
    extra = {i: f for i, f in owners.items() if i not in expected}
    # reference elements created by edits (none here) would show up in `extra`
    if wrong:
        i, (got, want) = next(iter(wrong.items()))
        out.find("save|element-not-in-owning-fragment", f"after save {len(wrong)} elements are in the wrong file, e.g. {i}: in {got}, owner {want}", case)
    if extra:
        out.find("save|unexpected-elements", f"{len(extra)} unexpected elements after save, e.g. {next(iter(extra.items()))}", case)
    mono2 = capellambse.MelodyModel(lay_m.aird, resources=dict(lay_m.resources))
    frag2 = capellambse.MelodyModel(lay_f.aird, resources=dict(lay_f.resources))
    o2 = Outcome()
    compare_layouts(ctx, o2, spec, mono2, frag2, lay_f if not any(s["op"] == "create_fn" for s in script) else _with_owner(lay_f, expected),
                    objs_budget=40, with_backrefs=False, tag=tag + "+edits")
    out.evaluations += o2.evaluations
    out.distinct |= o2.distinct
    for f in o2.findings:
        out.find("after-edits|" + f.signature, f.what, case)


def _with_owner(lay, owner):
    import dataclasses

    return dataclasses.replace(lay, owner=owner)


# ------------------------------------------------------------------ layouts


def gen_specs(ctx: Ctx) -> list[dict]:
    specs: list[dict] = []
    used: set[str] = set()
    small = SMALL[: ctx.pick(3, 4)]
    for model, res in small:
        src = links.data_dir() / model
        main, _ = fragmenter.find_main(src)
        cands = [c for c in fragmenter.candidate_cut_points(src.parent / main) if c[2] >= (1 if ctx.thorough else 2)]
        if not ctx.thorough:
            ctx.rng.shuffle(cands)
            cands = cands[: max(6, len(cands) // 5)]
        for c in cands:
            used.clear()
            specs.append({"model": model, "resources": res, "cuts": [[c[0], links.gen_frag_path(ctx.rng, used)]],
                          "main_rel": ctx.rng.choice([None, None, None, "sem/Main Model.capella"]),
                          "airdfragments": ctx.rng.random() < 0.3, "raw_nonascii": False, "small": True})
        for _ in range(ctx.pick(3, 12)):
            s = links.gen_layout_spec(ctx.rng, model, res, ncuts=ctx.rng.randint(2, 4))
            s["raw_nonascii"] = False
            s["small"] = True
            specs.append(s)
    # witnesses of the recorded findings (raw child reads), present in both tiers
    for model, res, pred in ((SMALL[0][0], SMALL[0][1], lambda e: (e.get(XSI_T) or "").endswith("Realization") and len(e) == 0),
                             (LARGE[0][0], LARGE[0][1], lambda e: e.tag == "ownedSpecification")):
        src = links.data_dir() / model
        main, _ = fragmenter.find_main(src)
        from lxml import etree

        root = etree.parse(str(src.parent / main)).getroot()
        hit = next((e for e in root.iter() if isinstance(e.tag, str) and e.get("id") and e.get(XSI_T) and e is not root and pred(e)), None)
        if hit is not None:
            specs.append({"model": model, "resources": res, "cuts": [[hit.get("id"), "fragments/witness.capellafragment"]],
                          "main_rel": None, "airdfragments": False, "raw_nonascii": False, "small": model == SMALL[0][0], "witness": True})
    large = LARGE[: ctx.pick(1, 5)]
    for model, res in large:
        for _ in range(ctx.pick(2, 5)):
            s = links.gen_layout_spec(ctx.rng, model, res)
            s["raw_nonascii"] = False
            s["small"] = False
            specs.append(s)
    return specs


def run_layout(ctx: Ctx, out: Outcome, spec: dict, si: int, model_cases: list | None):
    capellambse, helpers, core = _imports()
    base = ctx.scratch / f"c06-{si}"
    res = {k: links.data_dir() / v for k, v in spec.get("resources", {}).items()}
    src = links.data_dir() / spec["model"]
    lay_m = fragmenter.monolithic_copy(src, base / "mono", resources=res)
    lay_f = links.build_layout(spec, base / "frag")
    tag = spec["model"] + "#" + common.sha(spec)
    try:
        mono = capellambse.MelodyModel(lay_m.aird, resources=dict(lay_m.resources))
        frag = capellambse.MelodyModel(lay_f.aird, resources=dict(lay_f.resources))
    except Exception as e:  # noqa: BLE001
        out.find("load|raises", f"loading the layout raised {type(e).__name__}: {e}"[:200], {"kind": "layout", "layout": spec})
        shutil.rmtree(base, ignore_errors=True)
        return
    small = spec.get("small", False)
    compare_layouts(ctx, out, spec, mono, frag, lay_f, objs_budget=ctx.pick(60 if small else 25, 400 if small else 60),
                    with_backrefs=small, tag=tag)
    if model_cases is not None:
        from props import c06_model

        c06_model.collect(ctx, out, spec, mono, frag, lay_f, model_cases, tag)
    if si % ctx.pick(3, 2) == 0:
        edits_and_save(ctx, out, spec, mono, frag, lay_m, lay_f, tag)
    shutil.rmtree(base, ignore_errors=True)


def run(ctx: Ctx) -> Outcome:
    import logging

    logging.disable(logging.WARNING)
    out = Outcome(rule=RULE)
    specs = gen_specs(ctx)
    out.extra["layouts"] = {"total": len(specs), "single_cut": sum(1 for s in specs if len(s["cuts"]) == 1),
                            "multi_cut": sum(1 for s in specs if len(s["cuts"]) > 1),
                            "airdfragment_indirection": sum(1 for s in specs if s.get("airdfragments")),
                            "relocated_main": sum(1 for s in specs if s.get("main_rel"))}
    model_cases: list | None = [] if os.environ.get("VERIF_NO_MODEL") != "1" and (common.LEAN / "Capella/Driver/Frag.lean").exists() else None
    for si, spec in enumerate(specs):
        run_layout(ctx, out, spec, si, model_cases)
    if model_cases:
        from props import c06_model

        c06_model.compare(out, model_cases)
    return out


def replay(ctx: Ctx, case: dict):
    import logging

    logging.disable(logging.WARNING)
    spec = case.get("layout")
    if not spec:
        return None
    o = Outcome()
    ctx.rng.seed(0)
    run_layout(ctx, o, spec, 0 if case.get("kind") == "edits" else 1, None)
    kinds = {"object": "api|", "search": "api|search", "nav": "loader|", "edits": ("edit|", "save|", "after-edits|"), "layout": "load|"}
    want = kinds.get(case.get("kind"), "")
    for f in o.findings:
        if f.signature.startswith(want):
            return f.what
    return None
