"""C05 — references written by the library resolve back and use Capella's link format.

Correspondence: Lean `Capella.Links` (relpathStr/quote/loadRef/parseLink/splitLinks/createLink/followLink(s)/
setLinks) against helpers.relpath_pure, urllib.parse.quote, loader.core._unquote_ref + normalize_pure_path,
helpers.CROSS_FRAGMENT_LINK, helpers.split_links and MelodyLoader.create_link / follow_link / follow_links on
real loaders (corpus models and fragmented layouts written by harness/fragmenter.py).

Monitor (does not use the model): for ordered pairs of elements of every layout, `create_link` must
(1) resolve back to the very same element object, (2) equal the text computed by an independent oracle
(posixpath.relpath + urllib.parse.quote + raw lxml file membership), (3) name, in its path part, the file
that holds the target; every reference Capella (corpus) resp. the fragmenter (Capella-style layouts) wrote
must be reproduced verbatim by `create_link(owner, follow(link))`; lists written through the real
accessors (`AttrProxyAccessor.__set_links`, `LinkAccessor.__create_link`) read back in order.

Histories (round 5): a relation is written through every link-writing accessor kind of the referrer's class, then a
member, the referrer or an ancestor of one of them is moved through the list API into another file (and back), then
the relation is edited again through insert / append / setitem / del / remove / assignment - and after EVERY write the
text the library produced is judged: each link names the intended member and is spelled for the files that hold
referrer and member NOW (oracle, `create_link`, and the Lean model's `setLinks` / `attrInsert` / `attrDelete` on that
state).  Link text in attributes the operation did not write is not judged.
"""

from __future__ import annotations

import itertools
import json
import os
import pathlib
import posixpath
import subprocess
import sys
import urllib.parse

import common
from common import Ctx, Outcome

sys.path.insert(0, str(pathlib.Path(__file__).resolve().parent.parent))
import fragmenter  # noqa: E402

DRIVERS = ["Links"]
TABLES = False
LEVEL = "proof"
RULE = ("(a) path pairs: exhaustive over a component alphabet (spaces, %, #, non-ASCII, dots, names that are string prefixes of each other) up to depth 3 per side; "
        "(b) link grammar: all strings up to length 4 (quick) / 5 (thorough) over {' ','#','a','-','%','/','é','\\n','\\t',':'} "
        "plus seeded longer ones; (c) split_links: all token sequences up to length 4 over a token alphabet with every "
        "Python white-space class; (d) loaders: every corpus model and seeded fragment layouts (1-4 nested cuts, fragment "
        "depth 0-3, relocated main file, .airdfragment indirection, raw non-ASCII, equal file names in different directories, library files renamed to the project file's resource-relative name) x ordered element pairs (all pairs of a "
        "stratified sample covering every file and every (tag, id-attribute set) shape) x include_target_type in "
        "{None,True,False}; link lists of length 0-6 mixing forms; (e) histories on every loader: a relation of a random referrer written through a random link-writing accessor of its class "
        "(attribute list / single attribute / reference elements / fixed-length ends), then a member, the referrer or an ancestor moved through a containment list into another file of the project "
        "(and back), then 1-3 further list operations (insert, append, setitem, del, remove, assignment; same or fresh list object) - every write judged. distinct = distinct (stream, layout, from, to / text); "
        "non-trivial = cross-file pair, or a text with a special character / white space / malformed part")
ASSUMPTIONS = [
    "Capella's cross-file reference text is '<type> <relative path, RFC 3986 UTF-8 percent-quoted>#<id>' as in the two library test models; "
    "for non-ASCII file names EMF may leave characters raw - the loader side accepts both (fragmenter raw_nonascii layouts), the writer side is checked against the quoted form only",
    "id uniqueness across loaded fragments (C04) - the theorems take it as hypothesis `Consistent`, the monitor measures it on every layout",
    "targets of links carry an ID attribute indexed for their file type; `.afm` elements are not addressable (IDTYPES_PER_FILETYPE['.afm'] is empty) and are outside the domain",
    "helpers.xtype_of is taken as given here (it is the subject of C06); the monitor recomputes it from xsi:type/xmi:type where present",
]
TRUSTED = [
    "C05: harness/fragmenter.py as the independent statement of Capella's fragment layout and link text",
    "C05: posixpath.relpath / urllib.parse.quote as oracle for relative paths and quoting; Lean core UTF-8 lemmas (List.utf8Decode?_utf8Encode)",
]
MANIFEST = dict(
    text=("Lean theorems over a model of relpath_pure, str(PurePosixPath), UTF-8, urllib quote/unquote, _unquote_ref, "
          "normalize_pure_path, the CROSS_FRAGMENT_LINK grammar, str.split, split_links, create_link, follow_link(s) and "
          "__set_links: the relative path written into a link, taken through str/quote/unquote/normalize, is the target's "
          "tree key for any depth and any component text; the quoted path has no space/#/white space; create_link returns "
          "'#id' iff same fragment, 'type path#id' from non-visual sources with typed targets, 'path#id' otherwise, always "
          "matching the link grammar with the right groups; following a created link returns exactly the target under id "
          "uniqueness; space-joined lists of created links split and resolve back in order for any length; insert into / removal from a "
          "list attribute written earlier writes, at every position, the link for the fragment holding that member now. Tied to /repo by "
          "exhaustive/seeded differential runs on the pure functions and on real loaders over corpus models and "
          "Capella-style fragment layouts written by an independent fragmenter; an implementation-side monitor checks "
          "resolve-back by object identity, the text against an independent oracle, verbatim reproduction of every "
          "reference Capella wrote, and - in write / move-across-files / write-again histories through every link-writing "
          "accessor kind - that every written link is spelled for the current positions of referrer and member."),
    design_ref="§6 C05",
    note=("Trusted: Lean kernel; harness/fragmenter.py and posixpath/urllib as oracle of Capella's format; corpus has "
          "cross-resource links only in the two library models (68 links), fragment layouts are synthetic. follow_link "
          "ignores the fragment part of a link (TODO in the code): resolution rests on id uniqueness (hypothesis "
          "`Consistent`); theorem created_fragment_names_owner shows the written fragment part is nevertheless right."),
    technique="Lean 4 proof (induction over path components, characters, link lists) + differential correspondence on pure functions and real loaders + independent oracle monitor",
)

XMI_ID = "{http://www.omg.org/XMI}id"
XSI_T = "{http://www.w3.org/2001/XMLSchema-instance}type"
XMI_T = "{http://www.omg.org/XMI}type"
IDATTRS = [("id", "id"), ("uid", "uid"), (XMI_ID, "xmi:id")]
VISUAL = (".aird", ".airdfragment")
SEMANTIC = (".capella", ".capellafragment", ".melodyfragment", ".melodymodeller")

COMPS = ["a", "a b", "é", "100%", "x#y", "a.e", "platform:", "...", "ab", "b c", "c+d", "p&q=r;s", "u,v@w!", "(x)'*$"]  # incl. string prefixes of each other and RFC 3986 sub-delims
FILES = ["m.capella", "M N.capella", "ü%.capellafragment", "v.aird", "#1.capellafragment"]
DIRS = ["fragments", "a b", "é", "100%", "x#y", "d.e", "Ünï cödé", "a", "fragments 2", "c+d", "p&q=r;s", "u,v@w!", "(x)'*$"]  # incl. string prefixes of each other and RFC 3986 sub-delims
FNAMES = ["LA", "Logical Ärch", "100% #1", "f.g", "x y z", "L+A", "a&b=c;d,e", "f@g!(h)'*$"]

DATA = "tests/data"
CORPUS = [
    ("writemodel/WriteTestModel.aird", {}),
    ("decl/empty_project_52/empty_project_52.aird", {}),
    ("Library Project/Library Project.aird", {"Library Test": "Library Test"}),
    ("Library Test/Library Test.aird", {}),
    ("filtering/Filtered Project.aird", {}),
    ("parser/TestItems.aird", {}),
    ("pvmt/PVMTTest.aird", {}),
    ("melodymodel/5_2/Melody Model Test.aird", {}),
    ("melodymodel/5_0/Melody Model Test.aird", {}),
    ("melodymodel/6_0/Melody Model Test.aird", {}),
]


def _imports():
    os.environ.setdefault("XDG_CACHE_HOME", "/tmp/verif-xdg")
    if str(common.REPO) not in sys.path:
        sys.path.insert(0, str(common.REPO))
    import capellambse
    from capellambse import helpers
    from capellambse.loader import core

    return capellambse, helpers, core


def errname(e: BaseException) -> str:
    if isinstance(e, KeyError):
        return "Ambiguous" if str(e.args[0] if e.args else "").startswith("Ambiguous") else "KeyError"
    if isinstance(e, ValueError):
        return "ValueError"
    if isinstance(e, TypeError):
        return "TypeError"
    return type(e).__name__


def guarded(fn):
    """never let an exception of the implementation escape: it becomes part of the observation"""
    try:
        return {"r": fn()}
    except Exception as e:  # noqa: BLE001
        return {"e": errname(e)}


# ------------------------------------------------------------------ layouts


def data_dir() -> pathlib.Path:
    return common.REPO / DATA


def gen_frag_path(rng, used: set[str]) -> str:
    while True:
        depth = rng.choice([0, 1, 1, 2, 3])
        parts = [rng.choice(DIRS) for _ in range(depth)] + [rng.choice(FNAMES) + rng.choice(["", " 2", "é"]) + ".capellafragment"]
        p = "/".join(parts)
        if p not in used:
            used.add(p)
            return p


def gen_layout_spec(rng, model: str, resources: dict, ncuts: int | None = None, same_names: bool | None = None) -> dict:
    """a seeded fragment layout for a corpus model (cuts chosen among the candidates, nested allowed)"""
    src = data_dir() / model
    main, _ = fragmenter.find_main(src)
    cands = fragmenter.candidate_cut_points(src.parent / main)
    big = [c for c in cands if c[2] >= 3] or cands
    n = ncuts if ncuts is not None else rng.randint(1, 4)
    chosen = rng.sample(big, min(n, len(big)))
    used: set[str] = set()
    cuts = [[c[0], gen_frag_path(rng, used)] for c in chosen]
    main_rel = rng.choice([None, None, "sem/Main Model.capella", "ü/100% m.capella"])
    if len(cuts) >= 2 and rng.random() < 0.4:
        # equal file names in different directories
        base = cuts[0][1].rsplit("/", 1)[-1]
        cand = rng.choice(DIRS) + "/" + rng.choice(DIRS) + "/" + base
        if cand not in used:
            cuts[1][1] = cand
    spec = {"model": model, "resources": resources, "cuts": cuts, "main_rel": main_rel,
            "airdfragments": rng.random() < 0.4, "raw_nonascii": rng.random() < 0.25, "raw_subdelims": rng.random() < 0.4}
    if resources and (same_names if same_names is not None else rng.random() < 0.5):
        spec["resource_rename"] = same_name_rename(model, resources, main_rel)
    return spec


def same_name_rename(model: str, resources: dict, main_rel: str | None) -> dict:
    """give every library's semantic file the resource-relative name the project's own semantic file has:
    the tree keys then differ in the resource part only"""
    src = data_dir() / model
    main = main_rel or fragmenter.find_main(src)[0]
    out = {}
    for name, d in resources.items():
        sem = sorted(p.name for p in (data_dir() / d).iterdir() if p.suffix in SEMANTIC[:1] + (".melodymodeller",))
        if len(sem) == 1 and sem[0] != main:
            out[name] = {sem[0]: main}
    return out


def build_layout(spec: dict, dst: pathlib.Path) -> fragmenter.Layout:
    src = data_dir() / spec["model"]
    res = {k: data_dir() / v for k, v in spec.get("resources", {}).items()}
    return fragmenter.fragment(src, dst, [tuple(c) for c in spec["cuts"]], main_rel=spec.get("main_rel"),
                               airdfragments=spec.get("airdfragments", False),
                               raw_nonascii=spec.get("raw_nonascii", False), raw_subdelims=spec.get("raw_subdelims", False),
                               resources=res,
                               resource_rename=spec.get("resource_rename"))


def load(lay: fragmenter.Layout):
    capellambse, _, _ = _imports()
    return capellambse.MelodyModel(lay.aird, resources=dict(lay.resources))


# ------------------------------------------------------------------ raw views of a loader (independent of its indexes)


def key_parts(frag) -> list[str]:
    return list(frag.parts)


def el_ids(e) -> list[list[str]]:
    return [[name, e.get(attr)] for attr, name in IDATTRS if e.get(attr) is not None]


def indexed_attrs(suffix: str) -> list[str]:
    if suffix in SEMANTIC:
        return ["id"]
    if suffix in VISUAL:
        return ["uid", XMI_ID]
    return []


def own_xtype(e):
    return e.get(XSI_T) or e.get(XMI_T)


class RawView:
    """what raw lxml says about a loaded model: file membership and ids, no capellambse index involved"""

    def __init__(self, loader, helpers):
        self.loader = loader
        self.files: list[tuple[list[str], object]] = []  # (key parts, root)
        self.elems: list[list] = []  # per file: elements with an ID attribute, document order
        self.file_of: dict[int, int] = {}
        self.index: dict[str, list] = {}  # indexed id -> [(fi, elem)]
        self.xtypes: dict[int, str | None] = {}
        for fi, (frag, tree) in enumerate(loader.trees.items()):
            self.files.append((key_parts(frag), tree.root))
            suffix = posixpath.splitext(frag.parts[-1])[1]
            els = []
            for e in tree.root.iter():
                if not isinstance(e.tag, str):
                    continue
                self.file_of[id(e)] = fi
                if any(e.get(a) is not None for a, _ in IDATTRS):
                    els.append(e)
                    self.xtypes[id(e)] = helpers.xtype_of(e)
                for a in indexed_attrs(suffix):
                    v = e.get(a)
                    if v is not None:
                        self.index.setdefault(v, []).append((fi, e))
            self.elems.append(els)

    def suffix(self, fi: int) -> str:
        return posixpath.splitext(self.files[fi][0][-1])[1]

    def link_id(self, fi: int, e) -> str | None:
        for a in sorted(indexed_attrs(self.suffix(fi))):
            if e.get(a) is not None:
                return e.get(a)
        return None

    def duplicates(self) -> int:
        return sum(1 for v in self.index.values() if len({id(e) for _, e in v}) > 1)

    def to_model(self) -> list[dict]:
        return [{"path": parts, "elems": [{"ids": el_ids(e), "xtype": self.xtypes[id(e)]} for e in els]}
                for (parts, _), els in zip(self.files, self.elems)]

    def expected_link(self, fi: int, ti: int, b, incl) -> str | None:
        """the oracle: Capella's text for a reference from a node in file fi to b in file ti"""
        ident = self.link_id(ti, b)
        if ident is None:
            return None
        if fi == ti:
            return f"#{ident}"
        fparts, tparts = self.files[fi][0], self.files[ti][0]
        rel = posixpath.relpath("/R/" + "/".join(tparts), "/R/" + "/".join(fparts[:-1]))
        q = urllib.parse.quote(rel, safe="/")
        typed = (self.suffix(fi) not in VISUAL) if incl is None else incl
        xt = self.xtypes[id(b)]
        return f"{xt} {q}#{ident}" if typed and xt else f"{q}#{ident}"


def stratified(rng, view: RawView, per_file: int) -> list[tuple[int, int]]:
    """(file index, element index) sample: every file, every (tag, id-attr set) shape, plus random ones"""
    out = []
    for fi, els in enumerate(view.elems):
        if not els:
            continue
        shapes: dict = {}
        for ei, e in enumerate(els):
            shapes.setdefault((e.tag if not e.tag.startswith("{") else "ns", tuple(n for _, n in IDATTRS if e.get(_) is not None),
                               view.xtypes[id(e)] is None), ei)
        picks = set(list(shapes.values())[: per_file // 2 + 1])
        picks.add(0)
        while len(picks) < min(per_file, len(els)):
            picks.add(rng.randrange(len(els)))
        out += [(fi, ei) for ei in sorted(picks)]
    return out


# ------------------------------------------------------------------ the run


def run(ctx: Ctx) -> Outcome:
    capellambse, helpers, core = _imports()
    import logging

    logging.disable(logging.WARNING)
    out = Outcome(rule=RULE)
    P = pathlib.PurePosixPath
    req: list[dict] = []
    impl: list = []
    meta: list = []

    def add(stream, case, request, implval):
        req.append(request)
        impl.append(implval)
        meta.append((stream, case))

    # ---------------- (a) relative paths, quoting, loader-side resolution
    def all_paths(maxdepth):
        ps = []
        for d in range(0, maxdepth + 1):
            for dirs in itertools.product(COMPS[:6], repeat=d):
                for f in FILES[:3]:
                    ps.append(["\0", *dirs, f])
        return ps

    paths = all_paths(ctx.pick(2, 2))
    extra = [["Lib 1", "x.capella"], ["Lib 1", "sub", "ü.capella"], ["\0", "platform:", "resource", "m.capella"],
             ["\0", "a", "b c", "é", "100%", "deep.capellafragment"], ["\0", "...", "m.capella"]]
    pairs = []
    small = [p for p in paths if len(p) <= 3]
    pairs += [(t, f) for t in small for f in small]
    deep = [p for p in paths if len(p) == 4]
    for _ in range(ctx.pick(1500, 20000)):
        pairs.append((ctx.rng.choice(paths + extra), ctx.rng.choice(paths + extra)))
    for _ in range(ctx.pick(300, 3000)):
        k1, k2 = ctx.rng.randint(0, 5), ctx.rng.randint(0, 5)
        pairs.append((["\0"] + [ctx.rng.choice(COMPS) for _ in range(k1)] + [ctx.rng.choice(FILES)],
                      [ctx.rng.choice(["\0", "Lib"])] + [ctx.rng.choice(COMPS) for _ in range(k2)] + [ctx.rng.choice(FILES)]))
    pairs += [(t, f) for t in extra for f in extra + deep[:5]]
    seen = set()
    for to, frm in pairs:
        k = (tuple(to), tuple(frm))
        if k in seen:
            continue
        seen.add(k)
        try:
            rel = helpers.relpath_pure(P(*to), P(*frm))
            q = urllib.parse.quote(str(rel))
            back = helpers.normalize_pure_path(core._unquote_ref(q), base=P(*frm).parent)
        except Exception as e:  # noqa: BLE001
            out.find(f"relpath_pure|raises:{type(e).__name__}", f"path {to} from {frm}: {type(e).__name__}: {e}"[:200],
                     {"kind": "path", "to": to, "from": frm})
            continue
        add("relpath+quote", [to, frm], {"op": "links.quote_path", "to": to, "from": frm}, q)
        add("loadref", [frm, q], {"op": "links.loadref", "path": frm, "ref": q}, list(back.parts))
        out.case(("path", k), {"to": to, "from": frm, "link_path": q} if len(out.samples) < 2 and len(to) > 3 else None,
                 nontrivial=to[:-1] != frm[:-1] or any(not c.isalnum() for c in to[-1].split(".")[0]))
        # monitor: the written path leads back to `to` (files are never prefixes of each other)
        is_prefix = frm == to[: len(frm)]
        plat = "platform:" in to
        if to != frm and not is_prefix and not plat:
            if list(back.parts) != to:
                out.find("create_link|path-does-not-resolve-back", f"relpath {to} from {frm} -> {q!r} resolves to {list(back.parts)}",
                         {"kind": "path", "to": to, "from": frm})
            if any(ch in q for ch in " #\t\n"):
                out.find("create_link|unsafe-char-in-path", f"quoted path {q!r} contains a separator", {"kind": "path", "to": to, "from": frm})
            ind = urllib.parse.quote(posixpath.relpath("/R/" + "/".join(to), "/R/" + "/".join(frm[:-1])), safe="/")
            if ind != q:
                out.find("create_link|path-differs-from-posixpath", f"{q!r} vs posixpath {ind!r}", {"kind": "path", "to": to, "from": frm})
        out.hit("path.platform-comp" if plat else ("path.same-dir" if to[:-1] == frm[:-1] else "path.cross-dir"))

    # suffix / fragment type
    names = ["a.aird", "a.b.aird", ".aird", "aird", "x.", "x..capella", "a.capellafragment", "a.airdfragment", "a.afm",
             "é.melodymodeller", "a.melodyfragment", "a.AIRD", "a.capella.bak", "..", "a b.c d", ""]
    for n in names:
        add("suffix", n, {"op": "links.suffix", "name": n}, P(n).suffix if n else "")
        out.case(("suffix", n), nontrivial=n.count(".") != 1)
        if n and P(n).suffix in core.VALID_EXTS:
            stub = object.__new__(core.ModelFile)
            stub.filename = P(n)
            add("kind", n, {"op": "links.kind", "path": ["\0", n]}, stub.fragment_type.name)

    # _unquote_ref
    refs = ["platform:/resource/Lib%201/x.capella", "a%20b/c.capella", "%C3%A9.capella", "é.capella", "100%25.capella",
            "x%23y#frag", "../a/../b", "platform:/resource/a/platform:/resource/b", "%zz", "%4", "%", "a%2Fb", "plat", "Ünï%20x"]
    refs += ["a+b/c+.capella", "a%2Bb", "+", "p&q=r;s", "u,v@w!", "(x)'*$", "%26%3D%3B", "a+b%20c+d"]
    refs += ["".join(ctx.rng.choice(["a", "/", "%20", "%C3%A9", "é", "%25", ".", "..", " ", "platform:/resource/", "+", "&", "=", ";", ",", "@", "!",
                                     "'", "(", ")", "*", "$", "%2B", "~"]) for _ in range(ctx.rng.randint(1, 6)))
             for _ in range(ctx.pick(200, 2000))]
    for r in refs:
        try:
            u = core._unquote_ref(r)
        except Exception as e:  # noqa: BLE001
            out.find(f"_unquote_ref|raises:{type(e).__name__}", f"_unquote_ref({r!r}): {e}"[:200], {"kind": "unquote_ref", "ref": r})
            continue
        add("unquote_ref", r, {"op": "links.unquote_ref", "s": r}, u)
        # monitor: text without an escape (and without the platform marker) is not changed by unquoting
        if "%" not in r and not r.startswith("platform:/resource/") and u != r:
            out.find("_unquote_ref|changes-unescaped-text", f"_unquote_ref({r!r}) = {u!r}", {"kind": "unquote_ref", "ref": r})
        out.case(("unq", r), nontrivial="%" in r or "platform" in r or any(c in r for c in "+&=;,@!'()*$"))

    # ---------------- (b) the link grammar
    alpha = [" ", "#", "a", "-", "%", "/", "é", "\n", "\t", ":"]
    maxlen = ctx.pick(4, 5)
    strs = [""]
    for k in range(1, maxlen + 1):
        strs += ["".join(t) for t in itertools.product(alpha, repeat=k)]
    strs += ["".join(ctx.rng.choice(alpha + ["t:X", "p/q", "id_1", "_x-Y"]) for _ in range(ctx.rng.randint(5, 9))) for _ in range(ctx.pick(2000, 20000))]
    strs += ["t:X a/b#id", "t:X  a/b#id", " t:X a/b#id", "t:X a/b#id ", "a/b#id\n", "#id", "id", "a#", "a b c#d", "t:X #id", "a b#c", "é:Ü ñ#1"]
    for s in strs:
        m = helpers.CROSS_FRAGMENT_LINK.fullmatch(s)
        add("grammar", s, {"op": "links.parse", "s": s}, list(m.groups()) if m else None)
        out.case(("parse", s), nontrivial="#" in s)
        out.hit("grammar.match" if m else "grammar.nomatch")

    # ---------------- (c) split_links
    toks = ["#a", "t:X", "p/q#b", "#", "a#b#c", "x", "é%20#c-1", "#d\n"]
    seps = [" ", "  ", "\t", "\n", " ", " ", "\x1c", "\x85"]
    texts = []
    for k in range(0, 5):
        for combo in itertools.product(toks, repeat=k):
            texts.append(" ".join(combo))
    for _ in range(ctx.pick(1500, 15000)):
        k = ctx.rng.randint(1, 7)
        s = ctx.rng.choice(["", " ", "\t"])
        for i in range(k):
            s += ctx.rng.choice(toks) + (ctx.rng.choice(seps) if i < k - 1 or ctx.rng.random() < 0.2 else "")
        texts.append(s)
    for s in dict.fromkeys(texts):
        add("split_links", s, {"op": "links.split", "s": s}, guarded(lambda: list(helpers.split_links(s))))
        add("str.split", s, {"op": "links.words", "s": s}, s.split())
        out.case(("split", s), nontrivial=len(s.split()) > 1)

    # ---------------- (d) loaders: corpus and fragment layouts
    specs: list[dict] = []
    corpus = CORPUS[: ctx.pick(7, len(CORPUS))]
    for model, res in corpus:
        specs.append({"model": model, "resources": res, "cuts": [], "corpus": True})
    frag_models = [("writemodel/WriteTestModel.aird", {}), ("Library Project/Library Project.aird", {"Library Test": "Library Test"}),
                   ("decl/empty_project_52/empty_project_52.aird", {}), ("pvmt/PVMTTest.aird", {})]
    if ctx.thorough:
        frag_models += [("melodymodel/5_2/Melody Model Test.aird", {}), ("melodymodel/6_0/Melody Model Test.aird", {}),
                        ("parser/TestItems.aird", {}), ("filtering/Filtered Project.aird", {})]
    for i in range(ctx.pick(8, 40)):
        model, res = frag_models[i % len(frag_models)]
        specs.append(gen_layout_spec(ctx.rng, model, res, same_names=(i // len(frag_models)) % 2 == 0 if res else None))
    # resources whose files carry the same resource-relative name as the project's file (no cuts / relocated)
    for model, res in frag_models:
        if res:
            for main_rel in (None, "sem/Main Model.capella"):
                specs.append({"model": model, "resources": res, "cuts": [], "main_rel": main_rel, "airdfragments": False,
                              "raw_nonascii": False, "resource_rename": same_name_rename(model, res, main_rel)})
    out.extra["layouts"] = {"corpus": len(corpus), "fragmented": len(specs) - len(corpus)}

    layout_stats = {"files": 0, "pairs_cross": 0, "pairs_same": 0, "dups": 0, "unaddressable_afm": 0,
                    "links_verbatim_same": 0, "links_verbatim_cross": 0, "links_unresolvable": 0, "max_depth": 0, "ids_not_uuid_grammar": 0}
    batches: list[tuple[dict, list, list, dict]] = []
    for si, spec in enumerate(specs):
        dst = ctx.scratch / f"lay{si}"
        phase = "load"
        try:
            if spec.get("corpus"):
                aird = data_dir() / spec["model"]
                res = {k: str(data_dir() / v) for k, v in spec["resources"].items()}
                mdl = capellambse.MelodyModel(aird, resources=res)
            else:
                lay = build_layout(spec, dst)
                mdl = load(lay)
            phase = "links"
            big = len(spec["model"]) and "melodymodel" in spec["model"]
            check_layout(ctx, out, mdl, spec, helpers, core, batches, layout_stats, per_file=ctx.pick(5 if big else 9, 10 if big else 16))
            del mdl
        except common.InfraError:
            raise
        except Exception as e:  # noqa: BLE001  (whatever the implementation raises is an observation, not a crash)
            out.find(f"{phase}|raises:{type(e).__name__}", f"{phase} of layout raised {type(e).__name__}: {e}"[:240], {"kind": "layout", "layout": spec})
        if not spec.get("corpus"):
            import shutil

            shutil.rmtree(dst, ignore_errors=True)
    out.extra["loader_stats"] = layout_stats

    # ---------------- (e) the ID attribute put into a link must not depend on hash order
    idattr_stream(ctx, out)

    # ---------------- differential comparison
    if os.environ.get("VERIF_NO_MODEL") != "1":
        answers = common.model(req, driver="Links")
        for (stream, case), iv, ans in zip(meta, impl, answers):
            mv = ans.get("ok", {"err": ans.get("err")}) if isinstance(ans, dict) else ans
            if stream == "unquote_ref" and "�" in (iv or ""):
                out.hit("unquote_ref.invalid-utf8-skipped")
                continue
            if mv != iv:
                out.disagree(stream, case, iv, mv)
            out.hit(stream)
        breq = [b[0] for b in batches]
        banswers = common.model(breq, driver="Links") if breq else []
        for (_, queries, implvals, spec, *pre), ans in zip(batches, banswers):
            if "ok" not in ans:
                raise common.InfraError(f"links.batch failed: {ans}")
            stream = pre[0] if pre else "loader."  # "history.": `spec` is the history case (layout + steps so far)
            for q, iv, mv in zip(queries, implvals, ans["ok"]):
                if iv != mv:
                    out.disagree(stream + q[0], dict(spec, query=q) if pre else {"layout": spec, "query": q}, iv, mv)
                out.hit(stream + q[0] + (".err" if "e" in iv else ""))
                out.traces_validated += 1
    return out


def check_layout(ctx, out, mdl, spec, helpers, core, batches, stats, per_file):
    loader = mdl._loader
    view = RawView(loader, helpers)
    stats["files"] += len(view.files)
    stats["dups"] += view.duplicates()
    stats["max_depth"] = max(stats["max_depth"], max(len(p) - 2 for p, _ in view.files))
    import re

    for ident, lst in view.index.items():
        if not re.fullmatch(r"[A-Za-z0-9_-]+", ident):
            stats["ids_not_uuid_grammar"] += 1
    tag = spec["model"] + ("" if spec.get("corpus") else "#" + common.sha(spec))
    sample = stratified(ctx.rng, view, per_file)
    queries: list = []
    implvals: list = []
    created: dict[str, tuple] = {}
    trees = list(loader.trees.items())

    def rep(fi, ei):
        e = view.elems[fi][ei]
        return {"file": "/".join(view.files[fi][0]).replace("\0", "<main>"), "tag": e.tag, "ids": dict(el_ids(e))}

    # ordered pairs
    for (fi, ai), (ti, bi) in itertools.product(sample, repeat=2):
        a, b = view.elems[fi][ai], view.elems[ti][bi]
        incls = [None] if (fi + ti + ai + bi) % 5 else [None, True, False]
        for incl in incls:
            r = guarded(lambda: loader.create_link(a, b, include_target_type=incl))
            queries.append(["create", fi, ti, bi, incl])
            implvals.append(r)
            cross = fi != ti
            stats["pairs_cross" if cross else "pairs_same"] += 1
            out.case(("pair", tag, fi, ai, ti, bi, incl), None, nontrivial=cross)
            exp = view.expected_link(fi, ti, b, incl)
            casedesc = {"kind": "pair", "layout": spec, "from": rep(fi, ai), "to": rep(ti, bi), "include_target_type": incl}
            if exp is None:
                # not addressable (.afm, or only a non-indexed id attribute): must be refused, not mis-linked
                if view.suffix(ti) == ".afm":
                    stats["unaddressable_afm"] += 1
                if "r" in r:
                    try:
                        back = loader.follow_link(a, r["r"])
                    except Exception:
                        back = None
                    if back is not b:
                        out.find("create_link|unaddressable-target|link-does-not-resolve",
                                 f"create_link to {rep(ti, bi)} returned {r['r']!r} which does not resolve back", casedesc)
                continue
            if "e" in r:
                out.find("create_link|raises|" + r["e"], f"create_link({rep(fi, ai)}, {rep(ti, bi)}) raised {r['e']}", casedesc)
                continue
            s = r["r"]
            created.setdefault(s, (fi, ai, ti, bi))
            if s != exp:
                cls = "same-fragment" if not cross else ("visual-source" if view.suffix(fi) in VISUAL else "semantic-source")
                out.find(f"create_link|format|{cls}", f"create_link gave {s!r}, Capella's form is {exp!r}", casedesc)
            try:
                back = loader.follow_link(a, s)
            except Exception as e:  # noqa: BLE001
                back = e
            if back is not b:
                multi = len(el_ids(b)) > 1
                out.find("create_link|does-not-resolve-back" + ("|multi-id-target" if multi else ""),
                         f"follow_link(create_link(a, b)) = {back!r}, b = {rep(ti, bi)}, link {s!r}", casedesc)
            if cross:
                path = s.rsplit("#", 1)[0].split(" ")[-1]
                fparts, tparts = view.files[fi][0], view.files[ti][0]
                resolved = posixpath.normpath(posixpath.join("/R/" + "/".join(fparts[:-1]), urllib.parse.unquote(path)))
                if resolved != "/R/" + "/".join(tparts):
                    out.find("create_link|path-names-wrong-file", f"{s!r} from {fparts} names {resolved}, target is in {tparts}", casedesc)
    # follow every created link in the model too
    for s in created:
        queries.append(["follow", s])
        implvals.append(guarded(lambda: el_json(view, loader.follow_link(None, s))))
    # broken / mistyped / malformed links
    some = list(created)[:40]
    for s in some[:: max(1, len(some) // 8)]:
        for bad in (s + "x", s.replace("#", "#zz", 1), ("wrong:Type " + s.split(" ")[-1]) if not s.startswith("#") else s + " ", s.replace("#", " #")):
            queries.append(["follow", bad])
            implvals.append(guarded(lambda: el_json(view, loader.follow_link(None, bad))))
            out.case(("badlink", tag, bad), nontrivial=True)

    # link lists (0..6, mixed forms) through " ".join of create_link, follow_links with and without ignore_broken
    for n in range(ctx.pick(25, 60)):
        fi, ai = ctx.rng.choice(sample)
        k = ctx.rng.randint(0, 6)
        tg = [ctx.rng.choice(sample) for _ in range(k)]
        tg = [(ti, bi) for ti, bi in tg if view.link_id(ti, view.elems[ti][bi]) is not None]
        a = view.elems[fi][ai]
        parts = [loader.create_link(a, view.elems[ti][bi]) for ti, bi in tg]
        text = " ".join(parts)
        queries.append(["setlinks", fi, [[ti, bi] for ti, bi in tg]])
        implvals.append({"r": text})
        broken = ctx.rng.random() < 0.3
        if broken and parts:
            pos = ctx.rng.randrange(len(parts) + 1)
            text2 = " ".join(parts[:pos] + [ctx.rng.choice(["#missing-id", "t:X", "a#b#c", "wrong:T x.capella" + parts[0][parts[0].index("#"):]])] + parts[pos:])
        else:
            text2 = text
        for ign in (False, True):
            queries.append(["follows", text2, ign])
            implvals.append(guarded(lambda: [el_json(view, e) for e in loader.follow_links(a, text2, ignore_broken=ign)]))
        out.case(("list", tag, fi, ai, tuple(tg), text2 != text), {"links": text} if k >= 3 and len(out.samples) < 5 else None,
                 nontrivial=k >= 2)
        # monitor: split and resolve in order
        try:
            sp = list(helpers.split_links(text))
            got = loader.follow_links(a, text)
        except Exception as e:  # noqa: BLE001
            sp, got = None, e
        want = [view.elems[ti][bi] for ti, bi in tg]
        if sp != parts or not isinstance(got, list) or len(got) != len(want) or any(g is not w for g, w in zip(got, want)):
            out.find("follow_links|list-does-not-round-trip", f"list {text!r}: split {sp}, resolved {got!r}",
                     {"kind": "list", "layout": spec, "from": rep(fi, ai), "targets": [rep(ti, bi) for ti, bi in tg]})

    # every reference that Capella / the fragmenter wrote is reproduced verbatim
    for fi, (parts_, root) in enumerate(view.files):
        for e in root.iter():
            if not isinstance(e.tag, str):
                continue
            for k, v in e.attrib.items():
                if "#" not in v or k in (XMI_ID, "id", "uid") or k.endswith("schemaLocation"):
                    continue
                links = fragmenter.split_link_tokens(v)
                if links is None:
                    continue
                for typ, path, ident in links:
                    text = (f"{typ} " if typ else "") + f"{path}#{ident}"
                    cands = view.index.get(ident, [])
                    if len(cands) != 1:
                        stats["links_unresolvable"] += 1
                        continue
                    ti, b = cands[0]
                    if path != urllib.parse.quote(urllib.parse.unquote(path), safe="/"):
                        # a spelling that leaves non-ASCII characters / sub-delims raw must be *read*; it is not
                        # what create_link writes
                        try:
                            ok = loader.follow_link(e, text) is b
                        except Exception:  # noqa: BLE001
                            ok = False
                        if not ok:
                            out.find("follow_link|raw-spelling-of-path", f"{text!r} does not resolve", {"kind": "written", "layout": spec, "text": text})
                        continue
                    # a containment placeholder (`href` next to xsi:type in a semantic file) is EMF's proxy
                    # form: the type lives in xsi:type, the href is the untyped spelling of the same link
                    proxy = k == "href" and view.suffix(fi) in SEMANTIC
                    try:
                        tgt = loader.follow_link(e, text)
                        again = loader.create_link(e, tgt, include_target_type=False if proxy else None)
                    except Exception as ex:  # noqa: BLE001
                        tgt, again = None, f"{type(ex).__name__}: {ex}"
                    cross = bool(path)
                    out.case(("written", tag, fi, k, text), None, nontrivial=cross)
                    if tgt is b and again == text:
                        stats["links_verbatim_cross" if cross else "links_verbatim_same"] += 1
                    else:
                        src = "corpus" if spec.get("corpus") else "fragmenter"
                        out.find(f"create_link|not-verbatim|{src}|{'cross' if cross else 'same'}",
                                 f"{src} wrote {text!r} on <{e.tag} {k}>, create_link(owner, follow(link)) gives {again!r}",
                                 {"kind": "written", "layout": spec, "owner": dict(el_ids(e)), "attr": k, "text": text})

    # writes through the real accessors
    accessor_stream(ctx, out, mdl, view, spec, tag)

    batches.append(({"op": "links.batch", "trees": view.to_model(), "queries": queries}, queries, implvals, spec))

    # histories last: they change the positions of elements (the view above is the state before them)
    history_stream(ctx, out, mdl, view, spec, tag, helpers, batches)


def el_json(view: RawView, e) -> dict:
    return {"ids": el_ids(e), "xtype": view.xtypes.get(id(e))}


def accessor_stream(ctx, out, mdl, view: RawView, spec, tag):
    """`obj.applied_property_values = [...]` (AttrProxyAccessor.__set_links) and
    `component.realized_components = [...]` (LinkAccessor.__create_link) with targets in other files."""
    loader = mdl._loader
    sem = [(fi, e) for fi, els in enumerate(view.elems) if view.suffix(fi) in SEMANTIC for e in els
           if e.get("id") and e.get(XSI_T) and e.get("href") is None]
    if not sem:
        return
    files = sorted({fi for fi, _ in sem})

    def pick_from(fi):
        c = [e for f, e in sem if f == fi]
        return ctx.rng.choice(c)

    for _ in range(ctx.pick(6, 20)):
        fo = ctx.rng.choice(files)
        owner = pick_from(fo)
        k = ctx.rng.randint(1, 6)
        tg = [(t, pick_from(t)) for t in (ctx.rng.choice(files) for _ in range(k))]
        uniq = []
        for t, e in tg:
            if all(e is not x for _, x in uniq):
                uniq.append((t, e))
        tg = uniq
        obj = mdl.by_uuid(owner.get("id"))
        tobjs = [mdl.by_uuid(e.get("id")) for _, e in tg]
        old = owner.get("appliedPropertyValues")
        case = {"kind": "accessor", "layout": spec, "owner": owner.get("id"), "targets": [e.get("id") for _, e in tg]}
        try:
            obj.applied_property_values = tobjs
            raw = owner.get("appliedPropertyValues")
            back = [o.uuid for o in obj.applied_property_values]
        except Exception as ex:  # noqa: BLE001
            raw, back = None, f"{type(ex).__name__}: {ex}"
        want_raw = " ".join(view.expected_link(fo, t, e, None) for t, e in tg)
        out.case(("acc-attr", tag, owner.get("id"), tuple(case["targets"])), None, nontrivial=any(t != fo for t, _ in tg))
        if raw != want_raw or back != case["targets"]:
            out.find("AttrProxyAccessor.__set_links|attribute-text-or-readback",
                     f"wrote {raw!r} (Capella's form {want_raw!r}), read back {back}", case)
        if old is None:
            owner.attrib.pop("appliedPropertyValues", None)
        else:
            owner.set("appliedPropertyValues", old)
    comps = [(fi, e) for fi, e in sem if (e.get(XSI_T) or "").endswith(("LogicalComponent", "PhysicalComponent", "SystemComponent"))]
    for _ in range(ctx.pick(4, 12)):
        if len(comps) < 2:
            break
        fo, owner = ctx.rng.choice(comps)
        tg = []
        for t, e in ctx.rng.sample(comps, min(len(comps), ctx.rng.randint(1, 3))):
            if e is not owner:
                tg.append((t, e))
        if not tg:
            continue
        obj = mdl.by_uuid(owner.get("id"))
        case = {"kind": "linkaccessor", "layout": spec, "owner": owner.get("id"), "targets": [e.get("id") for _, e in tg]}
        before = list(owner)
        try:
            obj.realized_components = [mdl.by_uuid(e.get("id")) for _, e in tg]
            refs = [c for c in owner if c not in before and c.tag == "ownedComponentRealizations"]
            raw = [(c.get("targetElement"), c.get("sourceElement")) for c in refs]
            back = [o.uuid for o in obj.realized_components]
        except Exception as ex:  # noqa: BLE001
            raw, back = None, f"{type(ex).__name__}: {ex}"
        # `sourceElement` is only written by accessors that declare a back attribute; when present it is a
        # same-fragment link to the owner
        want = [view.expected_link(fo, t, e, None) for t, e in tg]
        out.case(("acc-link", tag, owner.get("id"), tuple(case["targets"])), None, nontrivial=any(t != fo for t, _ in tg))
        if (raw is None or [r[0] for r in raw] != want or any(r[1] not in (None, f"#{owner.get('id')}") for r in raw)
                or back != case["targets"]):
            out.find("LinkAccessor.__create_link|reference-element-or-readback",
                     f"wrote {raw!r} (Capella's form {want!r}), read back {back}", case)


# ------------------------------------------------------------------ histories: write, move across files, write again
#
# A reference attribute is judged on the text the library produced at EVERY write: each link in it must be spelled
# for the positions referrer and target have NOW, whatever they were when the attribute was written before.

ATTR_WRITERS = ("AttrProxyAccessor", "PhysicalLinkEndsAccessor")
LINK_WRITERS = ("LinkAccessor",)
_WRITERS_CACHE: dict = {}


def link_writers(cls) -> list[tuple[str, str]]:
    """(kind, attribute name) of every accessor of the class that writes link text:
    attr-list / attr-single (AttrProxyAccessor), ends (PhysicalLinkEndsAccessor, fixed length), link-list / link-single
    (LinkAccessor: one reference element per member)"""
    if cls not in _WRITERS_CACHE:
        found = []
        for name in sorted(dir(cls)):
            if name.startswith("_"):
                continue
            try:
                acc = getattr(cls, name, None)
            except Exception:  # noqa: BLE001
                continue
            tn = type(acc).__name__
            if tn == "AttrProxyAccessor":
                found.append(("attr-list" if acc.aslist is not None else "attr-single", name))
            elif tn == "PhysicalLinkEndsAccessor":
                found.append(("ends", name))
            elif tn == "LinkAccessor" and getattr(acc, "tag", None):
                found.append(("link-list" if acc.aslist is not None else "link-single", name))
        _WRITERS_CACHE[cls] = found
    return _WRITERS_CACHE[cls]


def containing_list(obj, child_elem) -> str | None:
    """name of the DirectProxyAccessor list of `obj` that holds the element: the list to move it through"""
    cls = type(obj)
    for name in sorted(dir(cls)):
        if name.startswith("_"):
            continue
        acc = getattr(cls, name, None)
        if type(acc).__name__ != "DirectProxyAccessor" or getattr(acc, "aslist", None) is None or getattr(acc, "rootelem", None):
            continue
        try:
            lst = getattr(obj, name)
        except Exception:  # noqa: BLE001
            continue
        if any(getattr(o, "_element", None) is child_elem for o in lst):
            return name
    return None


class History:
    """Executes the steps of one history on a loaded model and judges every write.  A step is a JSON-able dict, so
    that a finding carries the exact steps done so far as its replay."""

    def __init__(self, out: Outcome, mdl, view: RawView, spec, helpers, hbatches: list | None):
        self.out, self.mdl, self.view, self.spec, self.helpers, self.hbatches = out, mdl, view, spec, helpers, hbatches
        self.loader = mdl._loader
        self.root_index = {id(root): fi for fi, (_, root) in enumerate(view.files)}
        self.steps: list[dict] = []
        self.failed: list[str] = []
        self.referrer = None  # lxml element
        self.name = self.kind = None
        self.intended: list = []  # lxml elements, the list the relation must hold now
        self.moved_role = "none"
        self.lst = None  # a list object kept over several operations

    # -- raw facts
    def where(self, e) -> int | None:
        r = e
        while r.getparent() is not None:
            r = r.getparent()
        return self.root_index.get(id(r))

    def el(self, ident: str):
        c = self.view.index.get(ident, [])
        els = {id(e): e for _, e in c}
        if len(els) != 1:
            raise LookupError(ident)
        return next(iter(els.values()))

    def obj(self, e):
        return self.mdl.by_uuid(e.get("id"))

    def acc(self):
        return getattr(type(self.obj(self.referrer)), self.name)

    def case(self) -> dict:
        return {"kind": "history", "layout": self.spec, "steps": list(self.steps)}

    def find(self, sig: str, what: str):
        self.failed.append(what)
        self.out.find(sig, what[:400], self.case())

    def link_elems(self) -> list:
        acc = self.acc()
        return [c for c in self.referrer if isinstance(c.tag, str) and c.tag == acc.tag and own_xtype(c) in acc.xtypes]

    # -- steps
    def do(self, step: dict) -> bool:
        """execute one step; False if the implementation refused it (then the history ends)"""
        self.steps.append(step)
        op = step["op"]
        if op == "start":
            self.referrer, self.name, self.kind = self.el(step["referrer"]), step["acc"], step["kind"]
            self.intended, self.lst = [], None
            return True
        if op == "move":
            x, q = self.el(step["x"]), self.el(step["to"])
            before = self.where(x)
            if before is None or self.where(q) is None:
                return False
            try:
                lst = getattr(self.obj(q), step["list"])
                lst.insert(min(step["index"], len(lst)), self.obj(x))
            except Exception as e:  # noqa: BLE001  (whether a move is possible is not C05's subject)
                self.out.hit("history.move-refused:" + type(e).__name__)
                return False
            self.moved_role = step.get("role", "none")
            self.out.hit("history.move" + (".across-files" if self.where(x) != before else ".same-file"))
            return True
        new = [self.el(i) for i in step.get("targets", [])]
        if any(self.where(e) is None for e in [self.referrer, *new]):
            self.out.hit("history.member-no-longer-in-the-model")  # e.g. a reference element an earlier assignment replaced
            return False
        robj = self.obj(self.referrer)
        tobjs = [self.obj(e) for e in new]
        accname = type(self.acc()).__name__
        want = list(self.intended)
        before_links = self.link_elems() if self.kind.startswith("link") else []
        try:
            if op == "assign":
                want = new
                setattr(robj, self.name, tobjs if self.kind not in ("attr-single", "link-single") else tobjs[0])
                self.lst = None
            else:
                if self.lst is None or not step.get("same_list_object"):
                    self.lst = getattr(robj, self.name)
                lst = self.lst
                if op == "insert":
                    want.insert(step["index"], new[0])
                    lst.insert(step["index"], tobjs[0])
                elif op == "append":
                    want.append(new[0])
                    lst.append(tobjs[0])
                elif op == "setitem":
                    want[step["index"]] = new[0]
                    lst[step["index"]] = tobjs[0]
                elif op == "delitem":
                    del want[step["index"]]
                    del lst[step["index"]]
                elif op == "remove":
                    want = [e for e in want if e is not new[0]]
                    lst.remove(tobjs[0])
                else:
                    raise common.InfraError(f"unknown history step {op}")
        except common.InfraError:
            raise
        except Exception as e:  # noqa: BLE001
            self.find(f"{accname}.{op}|raises:{type(e).__name__}|moved:{self.moved_role}",
                      f"{self.name}.{op} on <{self.referrer.tag} {self.referrer.get('id')}> raised {type(e).__name__}: {e}")
            return False
        prev, self.intended = self.intended, want
        self.judge(accname, op, before_links, prev, step)
        return True

    # -- the statement, on what the library wrote
    def judge(self, accname: str, op: str, before_links: list, prev=None, step=None):
        R, view, loader = self.referrer, self.view, self.loader
        fi = self.where(R)
        sigbase = f"{accname}.{op}"
        cur = [(self.where(t), t) for t in self.intended]
        expect = [view.expected_link(fi, ti, t, None) for ti, t in cur]
        if self.kind.startswith("link"):
            links = self.link_elems()
            texts = [c.get(self.acc().follow) or "" for c in links]
            written = [i for i, c in enumerate(links) if all(c is not b for b in before_links)]
            back_ok = all(links[i].get(self.acc().backattr) == f"#{R.get('id')}" for i in written) if self.acc().backattr else True
        else:
            raw = R.get(self.acc().attr)
            toks = fragmenter.split_link_tokens(raw) if raw else []
            texts = [(f"{t} " if t else "") + f"{p}#{i}" for t, p, i in toks] if toks is not None else None
            written = list(range(len(texts))) if texts is not None else []
            back_ok = True
        self.correspond(fi, cur, texts, written, prev, step)
        nontrivial = any(ti != fi for ti, _ in cur) and self.moved_role != "none"
        self.out.case(("history", common.sha(self.case())), None, nontrivial=nontrivial)
        self.out.hit(f"history.{self.kind}.{op}.moved-{self.moved_role}")
        desc = f"{self.name}.{op} on <{R.tag} {R.get('id')}> in {'/'.join(view.files[fi][0][1:])} after {[s['op'] for s in self.steps]}"
        if texts is None or len(texts) != len(self.intended):
            self.find(f"{sigbase}|written-links|count-or-syntax|moved:{self.moved_role}",
                      f"{desc}: wrote {texts if texts is not None else R.get(self.acc().attr)!r} for {len(self.intended)} members")
            return
        # (a) every link resolves to the intended member: by raw id lookup + the file its path part names, and
        # through the library's own reader
        for k, (text, (ti, t)) in enumerate(zip(texts, cur)):
            ident = text.rsplit("#", 1)[-1]
            hit = {id(e) for _, e in view.index.get(ident, [])}
            if hit != {id(t)}:
                self.find(f"{sigbase}|written-link|names-another-element|moved:{self.moved_role}", f"{desc}: member {k} written as {text!r}, intended {t.get('id')}")
                return
        try:
            if self.kind.startswith("link"):
                got = [loader.follow_link(R, s) for s in texts]
            else:
                got = loader.follow_links(R, R.get(self.acc().attr) or "")
            back = [getattr(o, "_element", None) for o in ([getattr(self.obj(R), self.name)] if self.kind.endswith("single") else getattr(self.obj(R), self.name))]
        except Exception as e:  # noqa: BLE001
            got, back = e, None
        ok = lambda seq: isinstance(seq, list) and len(seq) == len(self.intended) and all(g is w for g, w in zip(seq, self.intended))  # noqa: E731
        if not ok(got) or not ok(back):
            self.find(f"{sigbase}|written-links|do-not-read-back-in-order|moved:{self.moved_role}", f"{desc}: texts {texts}, follow {got!r}, list {back!r}")
            return
        # (b) every link the operation wrote is spelled for the CURRENT positions: oracle and create_link
        for k in written:
            text, (ti, t), exp = texts[k], cur[k], expect[k]
            try:
                cl = loader.create_link(R, t)
            except Exception as e:  # noqa: BLE001
                cl = f"{type(e).__name__}"
            if text == exp and text == cl:
                continue
            if text.startswith("#") and ti != fi:
                cls = "hash-form-to-element-of-another-file"
            elif not text.startswith("#") and ti == fi:
                cls = "path-form-to-element-of-the-same-file"
            elif text != exp:
                cls = "path-or-type-not-capellas"
            else:
                cls = "differs-from-create_link"
            self.find(f"{sigbase}|written-link|{cls}|moved:{self.moved_role}",
                      f"{desc}: member {k} ({t.get('id')}, now in {'/'.join(view.files[ti][0][1:])}) written as {text!r}; "
                      f"Capella's form for the current positions is {exp!r}, create_link gives {cl!r}")
            return
        if not back_ok:
            self.find(f"{sigbase}|written-link|back-attribute|moved:{self.moved_role}", f"{desc}: back attribute is not '#{R.get('id')}'")
            return

    def correspond(self, fi, cur, texts, written, prev=None, step=None):
        """correspondence: the model's create_link / __set_links / insert / delete on the CURRENT state (only the
        elements involved, each in the file that holds it now); for insert, append, remove and del the model is
        given the members BEFORE the operation and predicts the attribute text itself"""
        if self.hbatches is None:
            return
        view, R = self.view, self.referrer
        trees = [{"path": parts, "elems": []} for parts, _ in view.files]
        known: dict[int, list] = {}

        def place(t):
            if id(t) not in known:
                ti = self.where(t)
                trees[ti]["elems"].append({"ids": el_ids(t), "xtype": view.xtypes.get(id(t), self.helpers.xtype_of(t))})
                known[id(t)] = [ti, len(trees[ti]["elems"]) - 1]
            return known[id(t)]

        pos = [place(t) for _, t in cur]
        if self.kind.startswith("link"):
            if texts is None or len(texts) != len(cur):
                return
            queries = [["create", fi, pos[k][0], pos[k][1], None] for k in written]
            implvals = [{"r": texts[k]} for k in written]
        else:
            queries = [["setlinks", fi, pos]]
            implvals = [{"r": R.get(self.acc().attr)}]
            op = step["op"] if step else None
            if self.kind == "attr-list" and prev is not None and all(self.where(t) is not None for t in prev):
                before = [place(t) for t in prev]
                if op in ("insert", "append"):
                    queries.append(["attrinsert", fi, before, step["index"] if op == "insert" else len(prev), place(self.el(step["targets"][0]))])
                elif op in ("delitem", "remove"):
                    k = step["index"] if op == "delitem" else next(i for i, t in enumerate(prev) if t.get("id") == step["targets"][0])
                    queries.append(["attrdelete", fi, before, k])
                if len(queries) == 2:
                    implvals.append({"r": R.get(self.acc().attr)})
        if queries:
            self.hbatches.append(({"op": "links.batch", "trees": trees, "queries": queries}, queries, implvals, self.case(), "history."))


def history_stream(ctx, out, mdl, view: RawView, spec, tag, helpers, hbatches):
    """three-step histories: (1) a relation of R is written through a link-writing accessor, (2) a member, R itself
    or an ancestor of one of them is MOVED through the list API into another file of the project (and back),
    (3) the same relation is edited through every list operation - judged after every write"""
    rng = ctx.rng
    main_sem = [fi for fi, (parts, _) in enumerate(view.files) if parts[0] == "\0" and view.suffix(fi) in SEMANTIC]
    all_sem = [fi for fi in range(len(view.files)) if view.suffix(fi) in SEMANTIC]
    usable = lambda e: e.get("id") and e.get(XSI_T) and e.get("href") is None and len(view.index.get(e.get("id"), [])) == 1  # noqa: E731
    pool = {fi: [e for e in view.elems[fi] if usable(e)] for fi in all_sem}
    pool = {fi: v for fi, v in pool.items() if v}
    ref_files = [fi for fi in main_sem if fi in pool]
    if not ref_files:
        return
    h0 = History(out, mdl, view, spec, helpers, None)
    by_type: dict[str, list] = {}
    for fi in ref_files:
        for e in pool[fi]:
            by_type.setdefault(e.get(XSI_T), []).append(e)
    cls_of: dict[str, type] = {}

    def writers(e):
        xt = e.get(XSI_T)
        if xt not in cls_of:
            try:
                cls_of[xt] = type(h0.obj(e))
            except Exception:  # noqa: BLE001
                cls_of[xt] = None
        return link_writers(cls_of[xt]) if cls_of[xt] is not None else []

    def move_plan(tries=40):
        """(x, p, q, list name): x can go from its parent p to the same-typed q that lives in another file"""
        for _ in range(tries):
            fi = rng.choice(ref_files)
            x = rng.choice(pool[fi])
            p = x.getparent()
            if p is None or not usable(p) or h0.where(x) is None:
                continue
            inside = {id(d) for d in x.iter()}
            qs = [q for q in by_type.get(p.get(XSI_T), []) if q is not p and id(q) not in inside and h0.where(q) != h0.where(x)]
            if not qs:
                continue
            try:
                lname = containing_list(h0.obj(p), x)
            except Exception:  # noqa: BLE001
                lname = None
            if lname:
                return x, p, rng.choice(qs), lname
        return None

    def pick_target(avoid, near_fi=None, not_below=None):
        for _ in range(30):
            fi = near_fi if near_fi in pool and rng.random() < 0.6 else rng.choice(list(pool))
            e = rng.choice(pool[fi])
            if all(e is not a for a in avoid) and h0.where(e) is not None and not below(e, not_below):
                return e
        return None

    def below(e, anc) -> bool:
        return anc is not None and any(a is anc for a in e.iterancestors())

    kinds_seen = out.extra.setdefault("history_kinds", {})
    n_hist = ctx.pick(8, 20) if len(ref_files) > 1 else ctx.pick(3, 6)
    for hn in range(n_hist):
        plan = move_plan() if len(ref_files) > 1 else None
        role = rng.choice(["target", "target", "referrer", "third"]) if plan else "none"
        x = plan[0] if plan else None
        sub = [d for d in x.iter() if isinstance(d.tag, str) and usable(d)] if plan else []
        # the referrer
        if role == "referrer":
            R = x if rng.random() < 0.7 else rng.choice(sub)
        else:
            near = h0.where(x) if plan and rng.random() < 0.75 else rng.choice(ref_files)
            R = None
            want_kind = rng.choice(["attr-list", "attr-list", "link-list", "attr-single", "ends", "link-single"])
            for _ in range(60):
                c = rng.choice(pool[near])
                if h0.where(c) is not None and any(k == want_kind for k, _ in writers(c)) and (not plan or all(c is not d for d in sub)):
                    R = c
                    break
            if R is None:
                R = pick_target(sub, near_fi=near)
            if R is None or h0.where(R) not in ref_files:
                continue
        ws = writers(R)
        if not ws:
            out.hit("history.no-writer")
            continue
        rare = [w for w in ws if w[0] != "attr-list"]
        kind, name = rng.choice(rare) if rare and rng.random() < 0.5 else rng.choice(ws)
        kinds_seen[kind] = kinds_seen.get(kind, 0) + 1
        h = History(out, mdl, view, spec, helpers, hbatches)
        h.do({"op": "start", "referrer": R.get("id"), "acc": name, "kind": kind})
        fixed = {"attr-single": 1, "link-single": 1, "ends": 2}.get(kind)
        # an assignment through a LinkAccessor REPLACES the reference elements below the referrer: nothing below the
        # referrer is a member of such a relation
        nb = R if kind.startswith("link") else None
        # (1) first write: members near the referrer; the element that will move is one of them
        members = []
        if role in ("target", "third"):
            members.append(x if rng.random() < 0.7 else rng.choice(sub))
        k = fixed or rng.randint(max(1, len(members)), 4)
        while len(members) < k:
            t = pick_target(members + [R], near_fi=h0.where(R), not_below=nb)
            if t is None:
                break
            members.append(t)
        if (fixed and len(members) != fixed) or any(below(e, nb) for e in members):
            continue
        rng.shuffle(members)

        def edit(nops):
            for _ in range(nops):
                cur = list(h.intended)
                choices = ["assign"]
                if kind in ("attr-list", "link-list"):
                    choices += ["insert", "insert", "append", "append", "setitem"] + (["delitem", "remove"] if len(cur) > 1 else [])
                elif kind == "ends":
                    choices += ["setitem", "setitem"]
                op = rng.choice(choices)
                same = rng.random() < 0.4
                t = pick_target(cur + [R], near_fi=h0.where(R), not_below=nb)
                if op == "assign":
                    keep = rng.sample(cur, rng.randint(0, len(cur))) if not fixed else rng.sample(cur, rng.randint(0, min(len(cur), fixed)))
                    newl = keep + ([t] if t is not None and (rng.random() < 0.6 or not keep) else [])
                    while fixed and len(newl) < fixed:
                        extra = pick_target(newl + [R], not_below=nb)
                        if extra is None:
                            return False
                        newl.append(extra)
                    if fixed:
                        newl = newl[:fixed]
                    if not newl and kind in ("attr-single", "link-single"):
                        return False
                    step = {"op": "assign", "targets": [e.get("id") for e in newl]}
                elif op in ("insert", "append", "setitem"):
                    if t is None:
                        continue
                    step = {"op": op, "targets": [t.get("id")], "same_list_object": same}
                    if op == "insert":
                        step["index"] = rng.randint(0, len(cur))
                    if op == "setitem":
                        if not cur:
                            continue
                        step["index"] = rng.randrange(len(cur))
                else:
                    # remove / delete ANOTHER member than the moved one when there is one
                    others = [i for i, e in enumerate(cur) if not any(e is d for d in sub)] or list(range(len(cur)))
                    i = rng.choice(others)
                    step = {"op": op, "same_list_object": same}
                    if op == "delitem":
                        step["index"] = i
                    else:
                        step["targets"] = [cur[i].get("id")]
                if not h.do(step):
                    return False
            return True

        if not h.do({"op": "assign", "targets": [e.get("id") for e in members]}):
            continue
        if rng.random() < 0.3 and not edit(1):
            continue
        if not plan:
            edit(rng.randint(1, 3))
            continue
        # (2) the move into another file, (3) edits; then back, and edits again
        x, p, q, lname = plan
        if not h.do({"op": "move", "x": x.get("id"), "to": q.get("id"), "list": lname, "index": rng.randint(0, 3), "role": role}):
            continue
        if not edit(rng.randint(1, 3)):
            continue
        if rng.random() < 0.6:
            if not h.do({"op": "move", "x": x.get("id"), "to": p.get("id"), "list": lname, "index": rng.randint(0, 3), "role": role + "-and-back"}):
                continue
            edit(rng.randint(1, 2))


IDATTR_SCRIPT = r"""
import sys, json
sys.path.insert(0, sys.argv[1])
import logging; logging.disable(logging.WARNING)
import capellambse
from capellambse.loader import core
XMI="{http://www.omg.org/XMI}id"
m = capellambse.MelodyModel(sys.argv[2])
l = m._loader
bad = []; n = 0
for frag, tree in l.trees.items():
    for e in tree.root.iter():
        if not isinstance(e.tag, str): continue
        present = [a for a in ("id", "uid", XMI) if e.get(a) is not None]
        if len(present) < 2: continue
        n += 1
        try:
            s = l.create_link(tree.root, e)
            ok = l.follow_link(None, s) is e
        except Exception as ex:
            s, ok = locals().get("s", type(ex).__name__), False
        if not ok and len(bad) < 3:
            bad.append({"tag": e.tag, "attrs": {a.replace("{http://www.omg.org/XMI}", "xmi:"): e.get(a) for a in present}, "link": s, "fragment": str(frag).replace("\0", "")})
print(json.dumps({"n": n, "bad": bad}))
"""


def idattr_probe(model: pathlib.Path, hashseed: int) -> dict:
    env = dict(os.environ, PYTHONHASHSEED=str(hashseed))
    p = subprocess.run([common.PY, "-c", IDATTR_SCRIPT, str(common.REPO), str(model)], capture_output=True, text=True, env=env, timeout=600)
    if p.returncode != 0:
        raise common.InfraError(f"idattr probe failed: {p.stderr[-800:]}")
    return json.loads(p.stdout.strip().splitlines()[-1])


def idattr_stream(ctx: Ctx, out: Outcome) -> None:
    """elements carrying several ID-like attributes (GMF anchors: xmi:id + a non-ID `id`): the link must use the
    attribute the file type indexes, whatever the process' hash seed (set iteration order) is"""
    model = data_dir() / "parser/TestItems.aird"
    total = 0
    for hs in range(1, ctx.pick(4, 9)):
        r = idattr_probe(model, hs)
        total += r["n"]
        out.case(("idattr", hs), None, nontrivial=r["n"] > 0)
        for b in r["bad"]:
            out.find("create_link|does-not-resolve-back|multi-id-target",
                     f"PYTHONHASHSEED={hs}: create_link to <{b['tag']} {b['attrs']}> gave {b['link']!r} which does not resolve back",
                     {"kind": "idattr", "model": "parser/TestItems.aird", "hashseed": hs, "element": b})
    out.extra["multi_id_elements_checked"] = total


# ------------------------------------------------------------------ replay


def replay(ctx: Ctx, case: dict):
    try:
        return _replay(ctx, case)
    except Exception as e:  # noqa: BLE001
        return f"the implementation raised {type(e).__name__}: {e}"[:300]


def _replay(ctx: Ctx, case: dict):
    capellambse, helpers, core = _imports()
    import logging

    logging.disable(logging.WARNING)
    P = pathlib.PurePosixPath
    kind = case.get("kind")
    if kind == "path":
        to, frm = case["to"], case["from"]
        q = urllib.parse.quote(str(helpers.relpath_pure(P(*to), P(*frm))))
        back = helpers.normalize_pure_path(core._unquote_ref(q), base=P(*frm).parent)
        if list(back.parts) != to or any(ch in q for ch in " #\t\n"):
            return f"path {to} from {frm}: link path {q!r} resolves to {list(back.parts)}"
        return None
    if kind == "unquote_ref":
        r = case["ref"]
        u = core._unquote_ref(r)
        return f"_unquote_ref({r!r}) = {u!r}" if "%" not in r and not r.startswith("platform:/resource/") and u != r else None
    if kind == "idattr":
        r = idattr_probe(data_dir() / case["model"], case["hashseed"])
        return (f"create_link to multi-id element does not resolve back: {r['bad'][0]}" if r["bad"] else None)
    spec = case.get("layout")
    if spec is None:
        return None
    if spec.get("corpus"):
        mdl = capellambse.MelodyModel(data_dir() / spec["model"], resources={k: str(data_dir() / v) for k, v in spec["resources"].items()})
    else:
        mdl = load(build_layout(spec, ctx.scratch / "replay"))
    loader = mdl._loader
    view = RawView(loader, helpers)

    def find(rep):
        for fi, els in enumerate(view.elems):
            if "/".join(view.files[fi][0]).replace("\0", "<main>") != rep["file"]:
                continue
            for e in els:
                if dict(el_ids(e)) == rep["ids"] and e.tag == rep["tag"]:
                    return fi, e
        raise LookupError(rep)

    if kind == "history":
        o = Outcome()
        h = History(o, mdl, view, spec, helpers, None)
        for step in case["steps"]:
            if not h.do(dict(step)):
                break
        return h.failed[0] if h.failed else None
    if kind == "pair":
        fi, a = find(case["from"])
        ti, b = find(case["to"])
        incl = case.get("include_target_type")
        exp = view.expected_link(fi, ti, b, incl)
        try:
            s = loader.create_link(a, b, include_target_type=incl)
        except (KeyError, ValueError, TypeError) as e:
            if exp is None:
                return None  # an unaddressable target is refused: fine
            return f"create_link raised {type(e).__name__}: {e}"
        try:
            back = loader.follow_link(a, s)
        except (KeyError, ValueError, TypeError) as e:
            return f"create_link gave {s!r}; follow_link raised {type(e).__name__}: {e}"
        if back is not b:
            return f"create_link gave {s!r}; follow_link returned {back!r}, not the target"
        if exp is not None and s != exp:
            return f"create_link gave {s!r}, Capella's form is {exp!r}"
        return None
    # list / written / accessor cases: re-run the layout under the monitor
    o = Outcome()
    check_layout(ctx, o, mdl, spec, helpers, core, [], {k: 0 for k in ("files", "pairs_cross", "pairs_same", "dups", "unaddressable_afm",
                 "links_verbatim_same", "links_verbatim_cross", "links_unresolvable", "max_depth", "ids_not_uuid_grammar")}, per_file=8)
    for f in o.findings:
        if f.replay.get("kind") == kind:
            return f.what
    return None
